(* Proofs about the concurrent subscription model (Model/ConcSub.v):
   Notify well-formedness, no lost wake-up (C06) and its refutation for the
   unrestricted system, release on deletion (C12), the empty rule (C15) and
   termination of internal activity. *)
From Coq Require Import List NArith Arith Bool Lia.
Import ListNotations.
From Deltio Require Import Model.ConcSub.

(* ------------------------------------------------------------------ *)
(* Lists and basic state lemmas                                        *)

Lemma get_set_permit b s c : get (set_permit b s) c = get s c. Proof. reflexivity. Qed.
Lemma get_set_waiters b s c : get (set_waiters b s) c = get s c. Proof. reflexivity. Qed.
Lemma get_set_calls b s c : get (set_calls b s) c = get s c. Proof. reflexivity. Qed.
Lemma get_set_backlog b s c : get (set_backlog b s) c = get s c. Proof. reflexivity. Qed.
Lemma get_set_leased b s c : get (set_leased b s) c = get s c. Proof. reflexivity. Qed.
Lemma get_set_deleted b s c : get (set_deleted b s) c = get s c. Proof. reflexivity. Qed.
Lemma get_set_exited b s c : get (set_exited b s) c = get s c. Proof. reflexivity. Qed.
Lemma get_set_mailbox b s c : get (set_mailbox b s) c = get s c. Proof. reflexivity. Qed.
#[global] Hint Rewrite get_set_permit get_set_waiters get_set_calls get_set_backlog get_set_leased
  get_set_deleted get_set_exited get_set_mailbox : gets.

Ltac ss := cbn [permit waiters calls backlog leased deleted exited mailbox conss
                set_permit set_waiters set_calls set_backlog set_leased set_deleted
                set_exited set_mailbox set_conss setc] in *;
           autorewrite with gets in *.

Lemma nth_upd_same l : forall c f, nth_error (upd l c f) c = option_map f (nth_error l c).
Proof. induction l as [|x t IH]; intros [|c] f; cbn; auto. Qed.

Lemma nth_upd_other l : forall c c' f, c <> c' -> nth_error (upd l c f) c' = nth_error l c'.
Proof.
  induction l as [|x t IH]; intros [|c] [|c'] f H; cbn; auto; try congruence.
Qed.

Lemma upd_length l : forall c f, length (upd l c f) = length l.
Proof. induction l as [|x t IH]; intros [|c] f; cbn; auto. Qed.

Lemma nth_upd l c f c' :
  nth_error (upd l c f) c' = if Nat.eq_dec c c' then option_map f (nth_error l c') else nth_error l c'.
Proof.
  destruct (Nat.eq_dec c c') as [->|H]; [apply nth_upd_same|apply nth_upd_other; assumption].
Qed.

(* what is known about consumer c' after an update at c *)
Lemma get_setc_inv s c f c' cs' :
  get (setc c f s) c' = Some cs' ->
  (c' = c /\ exists cs, get s c = Some cs /\ cs' = f cs) \/ (c' <> c /\ get s c' = Some cs').
Proof.
  unfold get, setc; cbn. rewrite nth_upd. destruct (Nat.eq_dec c c') as [->|H]; intros E.
  - left. split; auto. destruct (nth_error (conss s) c') as [cs|]; cbn in E; [|discriminate].
    exists cs. split; congruence.
  - right. split; auto.
Qed.

Lemma get_setc_same s c f cs : get s c = Some cs -> get (setc c f s) c = Some (f cs).
Proof. unfold get, setc; cbn. intros E. rewrite nth_upd_same, E. reflexivity. Qed.

Lemma get_setc_other s c f c' : c' <> c -> get (setc c f s) c' = get s c'.
Proof. unfold get, setc; cbn. intros H. apply nth_upd_other. congruence. Qed.

Lemma in_remove_iff (c x : nat) l : In x (remove Nat.eq_dec c l) <-> In x l /\ x <> c.
Proof.
  split.
  - intros H. apply in_remove in H. exact H.
  - intros [H1 H2]. apply in_in_remove; assumption.
Qed.

Lemma nodup_remove (c : nat) l : NoDup l -> NoDup (remove Nat.eq_dec c l).
Proof.
  induction 1 as [|x l Hx Hn IH]; cbn; [constructor|].
  destruct (Nat.eq_dec c x); auto. constructor; auto.
  intros Hin. apply in_remove in Hin. tauto.
Qed.

(* ------------------------------------------------------------------ *)
(* A. Notify well-formedness                                           *)

Definition parkedN (s : state) (c : nat) : Prop :=
  exists cs, get s c = Some cs /\ cphase cs = PParked NNone.

Record nwf (s : state) : Prop := {
  nw_nodup : NoDup (waiters s);
  nw_wait : forall c, In c (waiters s) <-> parkedN s c;
  nw_permit : permit s = true -> waiters s = []
}.

Lemma nwf_ext s s' :
  nwf s -> permit s' = permit s -> waiters s' = waiters s -> conss s' = conss s -> nwf s'.
Proof.
  intros [A B C] E1 E2 E3. split.
  - rewrite E2; assumption.
  - intros c. rewrite E2, B. unfold parkedN, get. rewrite E3. tauto.
  - rewrite E1, E2. assumption.
Qed.

Lemma parkedN_setc_neutral s c f :
  (forall cs, get s c = Some cs -> (cphase (f cs) = PParked NNone <-> cphase cs = PParked NNone)) ->
  forall c', parkedN (setc c f s) c' <-> parkedN s c'.
Proof.
  intros Hf c'. unfold parkedN. split.
  - intros (cs' & G & P). apply get_setc_inv in G. destruct G as [(-> & cs & G & ->)|(N & G)].
    + exists cs. split; auto. apply Hf; auto.
    + exists cs'. auto.
  - intros (cs & G & P). destruct (Nat.eq_dec c' c) as [->|N].
    + exists (f cs). split; [apply get_setc_same; auto|]. apply Hf; auto.
    + exists cs. rewrite get_setc_other; auto.
Qed.

Lemma nwf_setc_neutral s c f :
  nwf s ->
  (forall cs, get s c = Some cs -> (cphase (f cs) = PParked NNone <-> cphase cs = PParked NNone)) ->
  nwf (setc c f s).
Proof.
  intros [A B C] Hf. split; ss; auto.
  intros c'. rewrite B. symmetry. apply (parkedN_setc_neutral s c f Hf c').
Qed.

Lemma wake_phase_N n cs : n <> NNone -> cphase (wake n cs) <> PParked NNone.
Proof.
  intros Hn. unfold wake. destruct (cphase cs) as [| | | |[]| |] eqn:E; cbn; rewrite ?E; congruence.
Qed.

Lemma nwf_notify_one s : nwf s -> nwf (notify_one s).
Proof.
  intros W. destruct W as [A B C]. unfold notify_one. destruct (waiters s) as [|w ws] eqn:Ew.
  - split; ss.
    + rewrite Ew. constructor.
    + intros c. rewrite Ew. exact (B c).
    + intros _. exact Ew.
  - inversion A as [|? ? Hw Hws]; subst. split; unfold parkedN; ss; auto.
    + intros c. split.
      * intros Hc. assert (c <> w) by (intros ->; contradiction).
        destruct (proj1 (B c) (or_intror Hc)) as (cs & G & P). exists cs. ss.
        rewrite get_setc_other; auto.
      * intros (cs' & G & P). ss. apply get_setc_inv in G. destruct G as [(-> & cs & G & ->)|(N & G)].
        -- exfalso. revert P. apply wake_phase_N. discriminate.
        -- assert (In c (w :: ws)) as [->|H] by (apply B; exists cs'; auto); [congruence|assumption].
    + intros Hp. specialize (C Hp). discriminate.
Qed.

(* ------------------------------------------------------------------ *)
(* Inversion principle for [step]: every case in normal form           *)

Inductive sspec (K : nat) (s : state) : label -> state -> Prop :=
| sp_turn_del_pull c m rest :
    exited s = false -> mailbox s = RPull c m :: rest -> deleted s = true ->
    sspec K s LTurn (deliver c (RMsgs 0) (set_mailbox rest s))
| sp_turn_del_other r rest :
    exited s = false -> mailbox s = r :: rest -> deleted s = true -> is_pull r = false ->
    sspec K s LTurn (set_mailbox rest s)
| sp_turn_post n rest :
    exited s = false -> mailbox s = RPost n :: rest -> deleted s = false ->
    sspec K s LTurn (notify_one (set_backlog (backlog s + n) (set_mailbox rest s)))
| sp_turn_pull c m rest :
    exited s = false -> mailbox s = RPull c m :: rest -> deleted s = false ->
    sspec K s LTurn
      (let k := pull_count (backlog s) m in
       let s1 := deliver c (RMsgs k)
                   (set_leased (leased s + k) (set_backlog (backlog s - k) (set_mailbox rest s))) in
       if Nat.ltb 0 (backlog s - k) then notify_one s1 else s1)
| sp_turn_nack j rest :
    exited s = false -> mailbox s = RNack j :: rest -> deleted s = false ->
    sspec K s LTurn (requeue j (set_mailbox rest s))
| sp_turn_ack j rest :
    exited s = false -> mailbox s = RAck j :: rest -> deleted s = false ->
    sspec K s LTurn (set_leased (leased s - Nat.min j (leased s)) (set_mailbox rest s))
| sp_turn_delete rest :
    exited s = false -> mailbox s = RDelete :: rest -> deleted s = false ->
    sspec K s LTurn
      (notify_waiters (set_deleted true (set_leased 0 (set_backlog 0 (set_mailbox rest s)))))
| sp_exit :
    deleted s = true -> exited s = false ->
    sspec K s LExit (set_mailbox [] (set_exited true (fold_left close_req (mailbox s) s)))
| sp_u0 c cs o :
    get s c = Some cs -> cphase cs = PU0 o ->
    sspec K s (LCons c) (setc c (with_phase (PU1 (calls s) o)) s)
| sp_u1_closed c cs snap o :
    get s c = Some cs -> cphase cs = PU1 snap o -> exited s = true ->
    sspec K s (LCons c) (setc c (with_phase (PDone (closed_outcome (ckind cs)))) s)
| sp_u1_send c cs snap o :
    get s c = Some cs -> cphase cs = PU1 snap o -> exited s = false -> length (mailbox s) < K ->
    sspec K s (LCons c)
      (set_mailbox (mailbox s ++ [RPull c (cmax cs)]) (setc c (with_phase (PU2 snap None)) s))
| sp_u2_closed c cs snap :
    get s c = Some cs -> cphase cs = PU2 snap (Some RClosed) ->
    sspec K s (LCons c) (setc c (with_phase (PDone (closed_outcome (ckind cs)))) s)
| sp_u2_empty c cs snap :
    get s c = Some cs -> cphase cs = PU2 snap (Some (RMsgs 0)) ->
    sspec K s (LCons c) (setc c (with_phase (PU3 snap)) s)
| sp_u2_msgs_unary c cs snap k :
    get s c = Some cs -> cphase cs = PU2 snap (Some (RMsgs (S k))) -> ckind cs = Unary ->
    sspec K s (LCons c)
      (setc c (fun x => add_got (S k) (with_phase (PDone (OMessages (S k))) x)) s)
| sp_u2_msgs_stream c cs snap k :
    get s c = Some cs -> cphase cs = PU2 snap (Some (RMsgs (S k))) -> ckind cs = Stream ->
    sspec K s (LCons c) (setc c (fun x => add_got (S k) (with_phase (PU3 snap) x)) s)
| sp_u3_permit c cs snap :
    get s c = Some cs -> cphase cs = PU3 snap -> permit s = true ->
    sspec K s (LCons c) (set_permit false (setc c (with_phase (PU0 true)) s))
| sp_u3_calls c cs snap :
    get s c = Some cs -> cphase cs = PU3 snap -> permit s = false -> snap <> calls s ->
    sspec K s (LCons c) (setc c (with_phase (PU0 true)) s)
| sp_u3_park c cs snap :
    get s c = Some cs -> cphase cs = PU3 snap -> permit s = false -> snap = calls s ->
    sspec K s (LCons c)
      (set_waiters (waiters s ++ [c]) (setc c (with_phase (PParked NNone)) s))
| sp_woken c cs n :
    get s c = Some cs -> cphase cs = PParked n -> n <> NNone ->
    sspec K s (LCons c) (setc c (with_phase (PU0 true)) s)
| sp_delexit c cs :
    deleted s = true -> get s c = Some cs -> alive (cphase cs) = true ->
    (ckind cs = Unary \/ (exists snap, cphase cs = PU3 snap) \/ (exists n, cphase cs = PParked n)) ->
    sspec K s (LDelExit c) (finish (cphase cs) c (with_phase (PDone ONotFound)) s)
| sp_enq r :
    is_pull r = false -> exited s = false -> length (mailbox s) < K ->
    sspec K s (LEnq r) (set_mailbox (mailbox s ++ [r]) s)
| sp_expire_del j :
    exited s = false -> deleted s = true -> sspec K s (LExpire j) s
| sp_expire j :
    exited s = false -> deleted s = false -> sspec K s (LExpire j) (requeue j s)
| sp_arrive k m :
    sspec K s (LArrive k m) (set_conss (conss s ++ [new_cons k m]) s)
| sp_cancel c cs :
    get s c = Some cs -> alive (cphase cs) = true ->
    sspec K s (LCancel c) (finish (cphase cs) c (with_phase PGone) s)
| sp_timeout c cs :
    get s c = Some cs -> alive (cphase cs) = true -> ckind cs = Unary ->
    sspec K s (LTimeout c)
      (finish (cphase cs) c (fun x => with_timed (with_phase (PDone OEmpty) x)) s).

Lemma step_sspec K s l s' : step K s l = Some s' -> sspec K s l s'.
Proof.
  destruct l as [| |c|c|r|j|k m|c|c]; cbn [step]; intros H.
  - unfold turn in H. destruct (exited s) eqn:Ex; [discriminate|].
    destruct (mailbox s) as [|r rest] eqn:Em; [discriminate|]. injection H as <-.
    destruct (deleted s) eqn:Ed.
    + destruct r as [n|c m|j|j|]; cbv beta zeta iota.
      * eapply sp_turn_del_other; eauto.
      * apply (sp_turn_del_pull K s c m rest); auto.
      * eapply sp_turn_del_other; eauto.
      * eapply sp_turn_del_other; eauto.
      * eapply sp_turn_del_other; eauto.
    + destruct r; cbv beta zeta iota.
      * apply sp_turn_post; auto.
      * apply sp_turn_pull; auto.
      * apply sp_turn_nack; auto.
      * apply sp_turn_ack; auto.
      * apply sp_turn_delete; auto.
  - unfold actor_exit in H. destruct (deleted s) eqn:Ed; destruct (exited s) eqn:Ex; cbn in H; try discriminate.
    injection H as <-. apply sp_exit; auto.
  - unfold cons_step in H. destruct (get s c) as [cs|] eqn:G; [|discriminate].
    destruct (cphase cs) as [o|snap o|snap [[[|k]|]|]|snap|n| |] eqn:P; try discriminate.
    + injection H as <-. eapply sp_u0; eauto.
    + destruct (exited s) eqn:Ex.
      * injection H as <-. eapply sp_u1_closed; eauto.
      * destruct (Nat.ltb (length (mailbox s)) K) eqn:L; [|discriminate].
        injection H as <-. apply Nat.ltb_lt in L. eapply sp_u1_send; eauto.
    + injection H as <-. eapply sp_u2_empty; eauto.
    + destruct (ckind cs) eqn:Ek; injection H as <-.
      * eapply sp_u2_msgs_unary; eauto.
      * eapply sp_u2_msgs_stream; eauto.
    + injection H as <-. eapply sp_u2_closed; eauto.
    + unfold poll_init in H. destruct (permit s) eqn:Ep.
      * injection H as <-. eapply sp_u3_permit; eauto.
      * destruct (Nat.eqb snap (calls s)) eqn:Ec; injection H as <-.
        -- apply Nat.eqb_eq in Ec. eapply sp_u3_park; eauto.
        -- apply Nat.eqb_neq in Ec. eapply sp_u3_calls; eauto.
    + destruct n; try discriminate; injection H as <-; eapply sp_woken; eauto; discriminate.
  - unfold del_exit in H. destruct (deleted s) eqn:Ed; cbn [negb] in H; [|discriminate].
    destruct (get s c) as [cs|] eqn:G; [|discriminate].
    pose proof (sp_delexit K s c cs Ed G) as Q.
    destruct (ckind cs) eqn:Ek; destruct (cphase cs) eqn:P; try discriminate; injection H as <-;
      apply Q; auto; eauto.
  - destruct (is_pull r) eqn:Ip; cbn [orb negb] in H; [discriminate|].
    destruct (exited s) eqn:Ex; cbn [orb negb] in H; [discriminate|].
    destruct (Nat.ltb (length (mailbox s)) K) eqn:L; cbn [orb negb] in H; [|discriminate].
    injection H as <-. apply Nat.ltb_lt in L. apply sp_enq; auto.
  - destruct (exited s) eqn:Ex; [discriminate|]. injection H as <-.
    destruct (deleted s) eqn:Ed; [apply sp_expire_del|apply sp_expire]; auto.
  - injection H as <-. apply sp_arrive.
  - unfold cancel in H. destruct (get s c) as [cs|] eqn:G; [|discriminate].
    destruct (alive (cphase cs)) eqn:A; [|discriminate]. injection H as <-. apply sp_cancel; auto.
  - unfold timeout in H. destruct (get s c) as [cs|] eqn:G; [|discriminate].
    destruct (ckind cs) eqn:Ek; [|discriminate].
    destruct (alive (cphase cs)) eqn:A; [|discriminate]. injection H as <-. apply sp_timeout; auto.
Qed.

(* ------------------------------------------------------------------ *)
(* nwf is preserved by every step                                      *)

Ltac neutral G P :=
  let x := fresh "x" in let Gx := fresh "Gx" in
  intros x Gx; rewrite G in Gx; injection Gx as <-; cbn; rewrite ?P; split; congruence.

Lemma deliver_f_parked r cs p :
  (forall snap o, p <> PU2 snap o) -> cphase (deliver_f r cs) = p <-> cphase cs = p.
Proof.
  intros Hp. unfold deliver_f. destruct (cphase cs) as [| |snap [|]| | | |] eqn:E; cbn; rewrite ?E; try tauto.
  split; intros <-; exfalso; eapply Hp; reflexivity.
Qed.

Lemma nwf_deliver c r s : nwf s -> nwf (deliver c r s).
Proof.
  intros W. apply nwf_setc_neutral; auto. intros cs _. apply deliver_f_parked. discriminate.
Qed.

Lemma nwf_close l : forall s, nwf s -> nwf (fold_left close_req l s).
Proof.
  induction l as [|r l IH]; intros s W; cbn; auto. apply IH. destruct r; cbn; auto.
  apply nwf_deliver; auto.
Qed.

Lemma nwf_requeue j s : nwf s -> nwf (requeue j s).
Proof.
  intros W. unfold requeue. destruct (Nat.ltb 0 _).
  - apply nwf_notify_one. eapply nwf_ext; eauto.
  - eapply nwf_ext; eauto.
Qed.

Lemma nwf_finish s c cs f :
  nwf s -> get s c = Some cs -> cphase (f cs) <> PParked NNone ->
  nwf (finish (cphase cs) c f s).
Proof.
  intros W G Hf. unfold finish.
  assert (N : forall n, n <> NNone -> cphase cs = PParked n -> nwf (setc c f s)).
  { intros n Hn P. apply nwf_setc_neutral; auto. intros x Gx. rewrite G in Gx. injection Gx as <-.
    rewrite P. split; intros Q; [contradiction|congruence]. }
  destruct (cphase cs) as [| | | |[]| |] eqn:P;
    try (apply nwf_setc_neutral; auto; intros x Gx; rewrite G in Gx; injection Gx as <-; rewrite P;
         split; intros Q; [contradiction|congruence]).
  - (* Waiting(none): leave the list *)
    destruct W as [A B C]. split; ss.
    + apply nodup_remove; auto.
    + intros c'. rewrite in_remove_iff, B. unfold parkedN. ss. split.
      * intros [(cs' & G' & P') N']. exists cs'. rewrite get_setc_other; auto.
      * intros (cs' & G' & P'). apply get_setc_inv in G'. destruct G' as [(-> & x & Gx & ->)|(N' & G')].
        -- rewrite G in Gx. injection Gx as <-. contradiction.
        -- split; eauto.
    + intros Hp. rewrite (C Hp). reflexivity.
  - (* Waiting(one): forward *)
    apply nwf_notify_one. apply (N NOne); auto. discriminate.
Qed.

Lemma nwf_park s c cs :
  nwf s -> get s c = Some cs -> cphase cs <> PParked NNone -> permit s = false ->
  nwf (set_waiters (waiters s ++ [c]) (setc c (with_phase (PParked NNone)) s)).
Proof.
  intros [A B C] G P Hp.
  assert (Nin : ~ In c (waiters s)).
  { intros Hin. apply B in Hin. destruct Hin as (x & Gx & Px). congruence. }
  split; ss.
  - rewrite <- (rev_involutive (waiters s ++ [c])). apply NoDup_rev. rewrite rev_app_distr. cbn.
    constructor; [rewrite <- in_rev; assumption|apply NoDup_rev; assumption].
  - intros c'. rewrite in_app_iff, B. unfold parkedN. ss. split.
    + intros [(x & Gx & Px)|[<-|[]]].
      * exists x. rewrite get_setc_other; auto. intros ->. congruence.
      * exists (with_phase (PParked NNone) cs). split; auto. apply get_setc_same; auto.
    + intros (x & Gx & Px). apply get_setc_inv in Gx. destruct Gx as [(-> & y & Gy & ->)|(N' & Gx)].
      * right. left. reflexivity.
      * left. eauto.
  - congruence.
Qed.

Lemma wake_idem n cs : wake n (wake n cs) = wake n cs.
Proof.
  unfold wake. destruct (cphase cs) as [| | | |[]| |] eqn:E; cbn; rewrite ?E; auto.
  destruct n; reflexivity.
Qed.

Lemma fold_upd_get (g : cons -> cons) (Hg : forall x, g (g x) = g x) ws :
  forall l c,
    nth_error (fold_left (fun l w => upd l w g) ws l) c =
    option_map (fun cs => if in_dec Nat.eq_dec c ws then g cs else cs) (nth_error l c).
Proof.
  induction ws as [|w ws IH]; intros l c.
  - cbn. destruct (nth_error l c); reflexivity.
  - cbn [fold_left]. rewrite IH, nth_upd.
    destruct (Nat.eq_dec w c) as [->|N].
    + destruct (nth_error l c) as [cs|]; cbn [option_map]; auto.
      destruct (in_dec Nat.eq_dec c ws); destruct (in_dec Nat.eq_dec c (c :: ws)) as [|N2];
        rewrite ?Hg; auto; exfalso; apply N2; left; auto.
    + destruct (nth_error l c) as [cs|]; cbn [option_map]; auto.
      destruct (in_dec Nat.eq_dec c ws) as [I|I]; destruct (in_dec Nat.eq_dec c (w :: ws)) as [I2|I2]; auto.
      * exfalso. apply I2. right. auto.
      * exfalso. destruct I2; congruence.
Qed.

Lemma get_notify_waiters s c :
  get (notify_waiters s) c =
  option_map (fun cs => if in_dec Nat.eq_dec c (waiters s) then wake NAll cs else cs) (get s c).
Proof.
  unfold notify_waiters, get; cbn. apply fold_upd_get. apply wake_idem.
Qed.

Lemma nwf_notify_waiters s : nwf s -> nwf (notify_waiters s).
Proof.
  intros [A B C]. split.
  - cbn. constructor.
  - intros c. cbn [notify_waiters waiters set_calls set_waiters]. split; [intros []|].
    intros (cs' & G & P). rewrite get_notify_waiters in G.
    destruct (get s c) as [cs|] eqn:Gc; [|discriminate]. cbn in G. injection G as <-.
    destruct (in_dec Nat.eq_dec c (waiters s)) as [I|I].
    + revert P. apply wake_phase_N. discriminate.
    + apply I. apply B. exists cs. auto.
  - reflexivity.
Qed.

Lemma get_arrive s x c cs :
  get s c = Some cs -> get (set_conss (conss s ++ [x]) s) c = Some cs.
Proof.
  unfold get; cbn. intros G. rewrite nth_error_app1; auto. apply nth_error_Some. congruence.
Qed.

Lemma get_arrive_inv s x c cs :
  get (set_conss (conss s ++ [x]) s) c = Some cs ->
  get s c = Some cs \/ (c = length (conss s) /\ cs = x /\ get s c = None).
Proof.
  unfold get; cbn. intros G. destruct (Nat.lt_ge_cases c (length (conss s))) as [L|L].
  - rewrite nth_error_app1 in G; auto.
  - right. rewrite nth_error_app2 in G; auto.
    destruct (c - length (conss s)) as [|d] eqn:E.
    + cbn in G. injection G as <-. repeat split; [lia|]. apply nth_error_None. lia.
    + cbn in G. destruct d; discriminate.
Qed.

Lemma nwf_arrive s k m : nwf s -> nwf (set_conss (conss s ++ [new_cons k m]) s).
Proof.
  intros [A B C]. split; ss; auto.
  intros c. rewrite B. unfold parkedN. split.
  - intros (cs & G & P). exists cs. split; auto. apply get_arrive; auto.
  - intros (cs & G & P). apply get_arrive_inv in G. destruct G as [G|(_ & -> & _)]; [eauto|discriminate].
Qed.

Lemma nwf_init : nwf init.
Proof.
  split; cbn; [constructor| |auto]. intros c. split; [intros []|].
  intros (cs & G & _). unfold get in G. cbn in G. destruct c; discriminate.
Qed.

Lemma nwf_step K s l s' : nwf s -> step K s l = Some s' -> nwf s'.
Proof.
  intros W H. apply step_sspec in H.
  destruct H as [c m rest Ex Em Ed|r rest Ex Em Ed Ip|n rest Ex Em Ed|c m rest Ex Em Ed
                |j rest Ex Em Ed|j rest Ex Em Ed|rest Ex Em Ed|Ed Ex
                |c cs o G P|c cs snap o G P Ex|c cs snap o G P Ex L|c cs snap G P|c cs snap G P
                |c cs snap k G P Ek|c cs snap k G P Ek|c cs snap G P Ep|c cs snap G P Ep Ec
                |c cs snap G P Ep Ec|c cs n G P Hn|c cs Ed G A Hk|r Ip Ex L|j Ex Ed|j Ex Ed|k m
                |c cs G A|c cs G A Ek].
  - apply nwf_deliver. eapply nwf_ext; eauto.
  - eapply nwf_ext; eauto.
  - apply nwf_notify_one. eapply nwf_ext; eauto.
  - cbv zeta. assert (nwf (deliver c (RMsgs (pull_count (backlog s) m))
       (set_leased (leased s + pull_count (backlog s) m)
          (set_backlog (backlog s - pull_count (backlog s) m) (set_mailbox rest s))))).
    { apply nwf_deliver. eapply nwf_ext; eauto. }
    destruct (Nat.ltb 0 _); auto. apply nwf_notify_one; auto.
  - apply nwf_requeue. eapply nwf_ext; eauto.
  - eapply nwf_ext; eauto.
  - apply nwf_notify_waiters. eapply nwf_ext; eauto.
  - eapply nwf_ext with (s := fold_left close_req (mailbox s) s); auto. apply nwf_close; auto.
  - apply nwf_setc_neutral; auto. neutral G P.
  - apply nwf_setc_neutral; auto. neutral G P.
  - eapply nwf_ext with (s := setc c (with_phase (PU2 snap None)) s); auto.
    apply nwf_setc_neutral; auto. neutral G P.
  - apply nwf_setc_neutral; auto. neutral G P.
  - apply nwf_setc_neutral; auto. neutral G P.
  - apply nwf_setc_neutral; auto. neutral G P.
  - apply nwf_setc_neutral; auto. neutral G P.
  - assert (W1 : nwf (setc c (with_phase (PU0 true)) s)) by (apply nwf_setc_neutral; auto; neutral G P).
    destruct W1 as [A1 B1 C1]. split; ss; auto.
  - apply nwf_setc_neutral; auto. neutral G P.
  - apply nwf_park with (cs := cs); auto. congruence.
  - apply nwf_setc_neutral; auto. neutral G P.
  - apply nwf_finish; auto. discriminate.
  - eapply nwf_ext; eauto.
  - assumption.
  - apply nwf_requeue; auto.
  - apply nwf_arrive; auto.
  - apply nwf_finish; auto. discriminate.
  - apply nwf_finish; auto. discriminate.
Qed.

Theorem notify_wf K s : reachable K s -> nwf s.
Proof. induction 1; [apply nwf_init|eapply nwf_step; eauto]. Qed.

(* ------------------------------------------------------------------ *)
(* Frame lemmas: which scalar fields the Notify operations leave alone *)

Lemma backlog_notify_one s : backlog (notify_one s) = backlog s.
Proof. unfold notify_one. destruct (waiters s); reflexivity. Qed.
Lemma leased_notify_one s : leased (notify_one s) = leased s.
Proof. unfold notify_one. destruct (waiters s); reflexivity. Qed.
Lemma deleted_notify_one s : deleted (notify_one s) = deleted s.
Proof. unfold notify_one. destruct (waiters s); reflexivity. Qed.
Lemma exited_notify_one s : exited (notify_one s) = exited s.
Proof. unfold notify_one. destruct (waiters s); reflexivity. Qed.
Lemma mailbox_notify_one s : mailbox (notify_one s) = mailbox s.
Proof. unfold notify_one. destruct (waiters s); reflexivity. Qed.
Lemma calls_notify_one s : calls (notify_one s) = calls s.
Proof. unfold notify_one. destruct (waiters s); reflexivity. Qed.
Lemma backlog_finish old c f s : backlog (finish old c f s) = backlog s.
Proof. unfold finish. destruct old as [| | | |[]| |]; cbn [backlog set_waiters]; rewrite ?backlog_notify_one; reflexivity. Qed.
Lemma leased_finish old c f s : leased (finish old c f s) = leased s.
Proof. unfold finish. destruct old as [| | | |[]| |]; cbn [leased set_waiters]; rewrite ?leased_notify_one; reflexivity. Qed.
Lemma deleted_finish old c f s : deleted (finish old c f s) = deleted s.
Proof. unfold finish. destruct old as [| | | |[]| |]; cbn [deleted set_waiters]; rewrite ?deleted_notify_one; reflexivity. Qed.
Lemma exited_finish old c f s : exited (finish old c f s) = exited s.
Proof. unfold finish. destruct old as [| | | |[]| |]; cbn [exited set_waiters]; rewrite ?exited_notify_one; reflexivity. Qed.
Lemma mailbox_finish old c f s : mailbox (finish old c f s) = mailbox s.
Proof. unfold finish. destruct old as [| | | |[]| |]; cbn [mailbox set_waiters]; rewrite ?mailbox_notify_one; reflexivity. Qed.
Lemma calls_finish old c f s : calls (finish old c f s) = calls s.
Proof. unfold finish. destruct old as [| | | |[]| |]; cbn [calls set_waiters]; rewrite ?calls_notify_one; reflexivity. Qed.
Lemma backlog_deliver c r s : backlog (deliver c r s) = backlog s.
Proof. reflexivity. Qed.
Lemma leased_deliver c r s : leased (deliver c r s) = leased s.
Proof. reflexivity. Qed.
Lemma deleted_deliver c r s : deleted (deliver c r s) = deleted s.
Proof. reflexivity. Qed.
Lemma exited_deliver c r s : exited (deliver c r s) = exited s.
Proof. reflexivity. Qed.
Lemma mailbox_deliver c r s : mailbox (deliver c r s) = mailbox s.
Proof. reflexivity. Qed.
Lemma calls_deliver c r s : calls (deliver c r s) = calls s.
Proof. reflexivity. Qed.
Lemma backlog_close l : forall s, backlog (fold_left close_req l s) = backlog s.
Proof. induction l as [|r l IH]; intros s; cbn [fold_left]; auto. rewrite IH. destruct r; reflexivity. Qed.
Lemma leased_close l : forall s, leased (fold_left close_req l s) = leased s.
Proof. induction l as [|r l IH]; intros s; cbn [fold_left]; auto. rewrite IH. destruct r; reflexivity. Qed.
Lemma deleted_close l : forall s, deleted (fold_left close_req l s) = deleted s.
Proof. induction l as [|r l IH]; intros s; cbn [fold_left]; auto. rewrite IH. destruct r; reflexivity. Qed.
Lemma exited_close l : forall s, exited (fold_left close_req l s) = exited s.
Proof. induction l as [|r l IH]; intros s; cbn [fold_left]; auto. rewrite IH. destruct r; reflexivity. Qed.
Lemma mailbox_close l : forall s, mailbox (fold_left close_req l s) = mailbox s.
Proof. induction l as [|r l IH]; intros s; cbn [fold_left]; auto. rewrite IH. destruct r; reflexivity. Qed.
Lemma calls_close l : forall s, calls (fold_left close_req l s) = calls s.
Proof. induction l as [|r l IH]; intros s; cbn [fold_left]; auto. rewrite IH. destruct r; reflexivity. Qed.
Lemma permit_close l : forall s, permit (fold_left close_req l s) = permit s.
Proof. induction l as [|r l IH]; intros s; cbn [fold_left]; auto. rewrite IH. destruct r; reflexivity. Qed.
Lemma waiters_close l : forall s, waiters (fold_left close_req l s) = waiters s.
Proof. induction l as [|r l IH]; intros s; cbn [fold_left]; auto. rewrite IH. destruct r; reflexivity. Qed.
Lemma deleted_requeue j s : deleted (requeue j s) = deleted s.
Proof. unfold requeue. destruct (Nat.ltb 0 _); rewrite ?deleted_notify_one; reflexivity. Qed.
Lemma exited_requeue j s : exited (requeue j s) = exited s.
Proof. unfold requeue. destruct (Nat.ltb 0 _); rewrite ?exited_notify_one; reflexivity. Qed.
Lemma mailbox_requeue j s : mailbox (requeue j s) = mailbox s.
Proof. unfold requeue. destruct (Nat.ltb 0 _); rewrite ?mailbox_notify_one; reflexivity. Qed.
Lemma calls_requeue j s : calls (requeue j s) = calls s.
Proof. unfold requeue. destruct (Nat.ltb 0 _); rewrite ?calls_notify_one; reflexivity. Qed.
Lemma backlog_notify_waiters s : backlog (notify_waiters s) = backlog s.
Proof. reflexivity. Qed.
Lemma leased_notify_waiters s : leased (notify_waiters s) = leased s.
Proof. reflexivity. Qed.
Lemma deleted_notify_waiters s : deleted (notify_waiters s) = deleted s.
Proof. reflexivity. Qed.
Lemma exited_notify_waiters s : exited (notify_waiters s) = exited s.
Proof. reflexivity. Qed.
Lemma mailbox_notify_waiters s : mailbox (notify_waiters s) = mailbox s.
Proof. reflexivity. Qed.
Lemma permit_notify_waiters s : permit (notify_waiters s) = permit s.
Proof. reflexivity. Qed.
#[global] Hint Rewrite backlog_notify_one leased_notify_one deleted_notify_one exited_notify_one mailbox_notify_one calls_notify_one backlog_finish leased_finish deleted_finish exited_finish mailbox_finish calls_finish backlog_deliver leased_deliver deleted_deliver exited_deliver mailbox_deliver calls_deliver backlog_close leased_close deleted_close exited_close mailbox_close calls_close permit_close waiters_close deleted_requeue exited_requeue mailbox_requeue calls_requeue backlog_notify_waiters leased_notify_waiters deleted_notify_waiters exited_notify_waiters mailbox_notify_waiters permit_notify_waiters : frame.

Ltac fr := ss; autorewrite with frame in *; ss; autorewrite with frame in *.


(* ------------------------------------------------------------------ *)
(* A (continued). Actor / mailbox well-formedness                      *)

Definition u2n (s : state) (c : nat) : Prop :=
  exists cs snap, get s c = Some cs /\ cphase cs = PU2 snap None.

Record swf (K : nat) (s : state) : Prop := {
  sw_exit : exited s = true -> deleted s = true /\ mailbox s = [];
  sw_mbox : length (mailbox s) <= K;
  sw_u2 : forall c, u2n s c -> exists m, In (RPull c m) (mailbox s);
  sw_calls : calls s = if deleted s then 1 else 0
}.

Definition reflects (f : cons -> cons) : Prop :=
  forall x snap, cphase (f x) = PU2 snap None -> cphase x = PU2 snap None.

Lemma u2n_setc s c0 f c : reflects f -> u2n (setc c0 f s) c -> u2n s c.
Proof.
  intros Hf (cs & snap & G & P). apply get_setc_inv in G. destruct G as [(-> & x & Gx & ->)|(N & G)].
  - exists x, snap. split; auto.
  - exists cs, snap. auto.
Qed.

Lemma u2n_setc_not s c0 f c :
  (forall x snap, cphase (f x) <> PU2 snap None) -> u2n (setc c0 f s) c -> u2n s c /\ c <> c0.
Proof.
  intros Hf (cs & snap & G & P). apply get_setc_inv in G. destruct G as [(-> & x & Gx & ->)|(N & G)].
  - exfalso. eapply Hf; eauto.
  - split; auto. exists cs, snap. auto.
Qed.

Lemma u2n_ext s s' c : conss s' = conss s -> u2n s' c -> u2n s c.
Proof. unfold u2n, get. intros ->. auto. Qed.

Lemma wake_reflects n : reflects (wake n).
Proof.
  intros x snap. unfold wake. destruct (cphase x) as [| | | |[]| |] eqn:E; cbn; rewrite ?E; congruence.
Qed.

Lemma deliver_f_not r x snap : cphase (deliver_f r x) <> PU2 snap None.
Proof.
  unfold deliver_f. destruct (cphase x) as [| |s0 [|]| | | |] eqn:E; cbn; rewrite ?E; congruence.
Qed.

Lemma u2n_notify_one s c : u2n (notify_one s) c -> u2n s c.
Proof.
  unfold notify_one. destruct (waiters s) as [|w ws].
  - apply u2n_ext. reflexivity.
  - intros H. apply u2n_ext with (s := setc w (wake NOne) s) in H; [|reflexivity].
    eapply u2n_setc; eauto. apply wake_reflects.
Qed.

Lemma u2n_notify_waiters s c : u2n (notify_waiters s) c -> u2n s c.
Proof.
  intros (cs & snap & G & P). rewrite get_notify_waiters in G.
  destruct (get s c) as [x|] eqn:Gx; [|discriminate]. cbn in G. injection G as <-.
  exists x, snap. split; auto. destruct (in_dec Nat.eq_dec c (waiters s)); auto.
  apply wake_reflects in P. assumption.
Qed.

Lemma u2n_finish old s c0 f c :
  (forall x snap, cphase (f x) <> PU2 snap None) -> u2n (finish old c0 f s) c -> u2n s c /\ c <> c0.
Proof.
  intros Hf H. apply (u2n_setc_not s c0 f c Hf). unfold finish in H.
  destruct old as [| | | |[]| |]; auto.
  apply u2n_notify_one; auto.
Qed.

Lemma u2n_deliver s c0 r c : u2n (deliver c0 r s) c -> u2n s c /\ c <> c0.
Proof. apply u2n_setc_not. intros x snap. apply deliver_f_not. Qed.

Lemma u2n_close l : forall s c,
  u2n (fold_left close_req l s) c -> u2n s c /\ forall m, ~ In (RPull c m) l.
Proof.
  induction l as [|r l IH]; intros s c H; cbn [fold_left] in H.
  - split; auto.
  - apply IH in H. destruct H as [H1 H2]. destruct r as [n|c0 m0|j|j|]; cbn [close_req] in H1;
      try (split; [assumption|intros m [E|I]; [discriminate|eapply H2; eauto]]).
    apply u2n_deliver in H1. destruct H1 as [H1 N]. split; auto.
    intros m [E|I]; [congruence|eapply H2; eauto].
Qed.

Lemma u2n_requeue j s c : u2n (requeue j s) c -> u2n s c.
Proof.
  unfold requeue. destruct (Nat.ltb 0 _); intros H.
  - apply u2n_notify_one in H. eapply u2n_ext; [|exact H]. reflexivity.
  - eapply u2n_ext; [|exact H]. reflexivity.
Qed.

Lemma u2n_arrive s k m c : u2n (set_conss (conss s ++ [new_cons k m]) s) c -> u2n s c.
Proof.
  intros (cs & snap & G & P). apply get_arrive_inv in G. destruct G as [G|(_ & -> & _)]; [|discriminate].
  exists cs, snap. auto.
Qed.

Lemma with_phase_not p f : (forall snap, p <> PU2 snap None) ->
  (forall x, cphase (f x) = p) -> forall (x : cons) snap, cphase (f x) <> PU2 snap None.
Proof. intros Hp Hf x snap. rewrite Hf. apply Hp. Qed.

Lemma swf_init K : swf K init.
Proof.
  split; cbn; try discriminate; try lia; auto.
  intros c (cs & snap & G & _). unfold get in G. cbn in G. destruct c; discriminate.
Qed.

Ltac u2_local H :=
  apply u2n_setc_not in H; [|intros ? ?; cbn; discriminate]; destruct H as [H _].

Lemma swf_step K s l s' : swf K s -> step K s l = Some s' -> swf K s'.
Proof.
  intros [X M U CL] H. apply step_sspec in H.
  destruct H as [c m rest Ex Em Ed|r rest Ex Em Ed Ip|n rest Ex Em Ed|c m rest Ex Em Ed
                |j rest Ex Em Ed|j rest Ex Em Ed|rest Ex Em Ed|Ed Ex
                |c cs o G P|c cs snap o G P Ex|c cs snap o G P Ex L|c cs snap G P|c cs snap G P
                |c cs snap k G P Ek|c cs snap k G P Ek|c cs snap G P Ep|c cs snap G P Ep Ec
                |c cs snap G P Ep Ec|c cs n G P Hn|c cs Ed G A Hk|r Ip Ex L|j Ex Ed|j Ex Ed|k m
                |c cs G A|c cs G A Ek];
    try (assert (Lr : length rest <= K) by (rewrite Em in M; cbn in M; lia)).
  - split; fr; try congruence; auto.
    intros c' H. apply u2n_deliver in H. destruct H as [H N]. apply u2n_ext with (s := s) in H; auto.
    destruct (U c' H) as (m' & I). rewrite Em in I. destruct I as [E|I]; [congruence|eauto].
  - split; fr; try congruence; auto.
    intros c' H. apply u2n_ext with (s := s) in H; auto.
    destruct (U c' H) as (m' & I). rewrite Em in I. destruct I as [E|I]; [subst r; discriminate|eauto].
  - split; fr; try congruence; auto.
    intros c' H. apply u2n_notify_one in H. apply u2n_ext with (s := s) in H; auto.
    destruct (U c' H) as (m' & I). rewrite Em in I. destruct I as [E|I]; [discriminate|eauto].
  - cbv zeta. split.
    + destruct (Nat.ltb 0 _); fr; congruence.
    + destruct (Nat.ltb 0 _); fr; auto.
    + intros c' H.
      assert (H' : u2n s c' /\ c' <> c).
      { destruct (Nat.ltb 0 _); [apply u2n_notify_one in H|]; apply u2n_deliver in H;
          destruct H as [H N]; (split; [|exact N]); eapply u2n_ext; [|exact H| |exact H]; reflexivity. }
      destruct H' as [H1 N]. destruct (U c' H1) as (m' & I). rewrite Em in I.
      assert (Hm : mailbox (if Nat.ltb 0 (backlog s - pull_count (backlog s) m)
         then notify_one (deliver c (RMsgs (pull_count (backlog s) m))
                (set_leased (leased s + pull_count (backlog s) m)
                   (set_backlog (backlog s - pull_count (backlog s) m) (set_mailbox rest s))))
         else deliver c (RMsgs (pull_count (backlog s) m))
                (set_leased (leased s + pull_count (backlog s) m)
                   (set_backlog (backlog s - pull_count (backlog s) m) (set_mailbox rest s)))) = rest)
        by (destruct (Nat.ltb 0 _); fr; reflexivity).
      rewrite Hm. destruct I as [E|I]; [congruence|eauto].
    + destruct (Nat.ltb 0 _); fr; auto.
  - split; fr; try congruence; auto.
    intros c' H. apply u2n_requeue in H. apply u2n_ext with (s := s) in H; auto.
    destruct (U c' H) as (m' & I). rewrite Em in I. destruct I as [E|I]; [discriminate|eauto].
  - split; fr; try congruence; auto.
    intros c' H. apply u2n_ext with (s := s) in H; auto.
    destruct (U c' H) as (m' & I). rewrite Em in I. destruct I as [E|I]; [discriminate|eauto].
  - split; fr; try congruence; auto.
    + intros c' H. apply u2n_notify_waiters in H. apply u2n_ext with (s := s) in H; auto.
      destruct (U c' H) as (m' & I). rewrite Em in I. destruct I as [E|I]; [discriminate|eauto].
    + unfold notify_waiters; cbn. rewrite CL, Ed. reflexivity.
  - split; fr; auto; try lia.
    intros c' H. apply u2n_ext with (s := fold_left close_req (mailbox s) s) in H; auto.
    apply u2n_close in H. destruct H as [H1 H2]. destruct (U c' H1) as (m' & I). exfalso. eapply H2; eauto.
  - split; fr; auto. intros c' H. u2_local H. auto.
  - split; fr; auto. intros c' H. u2_local H. auto.
  - split; fr; try congruence.
    + rewrite app_length. cbn. lia.
    + intros c' H. destruct (Nat.eq_dec c' c) as [->|N].
      * exists (cmax cs). apply in_or_app. right. left. reflexivity.
      * apply u2n_ext with (s := setc c (with_phase (PU2 snap None)) s) in H; auto.
        destruct H as (x & sn & Gx & Px). rewrite get_setc_other in Gx; auto.
        destruct (U c') as (m' & I); [exists x, sn; auto|]. exists m'. apply in_or_app. auto.
    + auto.
  - split; fr; auto. intros c' H. u2_local H. auto.
  - split; fr; auto. intros c' H. u2_local H. auto.
  - split; fr; auto. intros c' H. u2_local H. auto.
  - split; fr; auto. intros c' H. u2_local H. auto.
  - split; fr; auto. intros c' H.
    apply u2n_ext with (s := setc c (with_phase (PU0 true)) s) in H; auto. u2_local H. auto.
  - split; fr; auto. intros c' H. u2_local H. auto.
  - split; fr; auto. intros c' H.
    apply u2n_ext with (s := setc c (with_phase (PParked NNone)) s) in H; auto. u2_local H. auto.
  - split; fr; auto. intros c' H. u2_local H. auto.
  - split; fr; auto. intros c' H. apply u2n_finish in H; [|intros ? ?; cbn; discriminate].
    destruct H as [H _]. auto.
  - split; fr; try congruence.
    + rewrite app_length. cbn. lia.
    + intros c' H. apply u2n_ext with (s := s) in H; auto. destruct (U c' H) as (m' & I).
      exists m'. apply in_or_app. auto.
    + auto.
  - split; auto.
  - split; fr; auto. intros c' H. apply u2n_requeue in H. auto.
  - split; fr; auto. intros c' H. apply u2n_arrive in H. auto.
  - split; fr; auto. intros c' H. apply u2n_finish in H; [|intros ? ?; cbn; discriminate].
    destruct H as [H _]. auto.
  - split; fr; auto. intros c' H. apply u2n_finish in H; [|intros ? ?; cbn; discriminate].
    destruct H as [H _]. auto.
Qed.

Theorem actor_wf K s : reachable K s -> swf K s.
Proof. induction 1; [apply swf_init|eapply swf_step; eauto]. Qed.
