(* C19: proofs about the flow-control model (Model/FlowCtl.v). *)
From Deltio Require Import Model.FlowCtl.
From Coq Require Import Lia PeanoNat.

(* ---------- lists ---------- *)

Lemma nth_error_upd_eq : forall A (l : list A) i t x,
  nth_error l i = Some t -> nth_error (upd i x l) i = Some x.
Proof.
  induction l as [|y r IH]; intros i t x H; destruct i; simpl in *; try discriminate.
  - reflexivity.
  - eapply IH; eauto.
Qed.

Lemma upd_length : forall A i (x : A) l, length (upd i x l) = length l.
Proof.
  intros A i x l. revert i. induction l as [|y r IH]; intros i; destruct i; simpl; auto.
Qed.

Lemma nth_error_upd_neq : forall A (l : list A) i j x,
  i <> j -> nth_error (upd i x l) j = nth_error l j.
Proof.
  induction l as [|y r IH]; intros i j x H; destruct i, j; simpl; try reflexivity.
  - congruence.
  - apply IH. congruence.
Qed.

Lemma Forall_upd : forall A (P : A -> Prop) l i x,
  Forall P l -> P x -> Forall P (upd i x l).
Proof.
  induction l as [|y r IH]; intros i x H Hx; destruct i; simpl; auto.
  - inversion H; subst. constructor; auto.
  - inversion H; subst. constructor; auto.
Qed.

Lemma Forall_nth : forall A (P : A -> Prop) l i t,
  Forall P l -> nth_error l i = Some t -> P t.
Proof.
  intros A P l i t H Hn. rewrite Forall_forall in H. apply H.
  eapply nth_error_In; eauto.
Qed.

Lemma busy_upd_same : forall l i t t',
  nth_error l i = Some t -> inprog t = inprog t' -> busy (upd i t' l) = busy l.
Proof.
  unfold busy.
  induction l as [|y r IH]; intros i t t' H E; destruct i; simpl in *; try discriminate.
  - inversion H; subst. rewrite E. reflexivity.
  - f_equal. eapply IH; eauto.
Qed.

Lemma busy_upd_true : forall l i t t',
  nth_error l i = Some t -> inprog t' = true -> busy (upd i t' l) = true.
Proof.
  unfold busy.
  induction l as [|y r IH]; intros i t t' H E; destruct i; simpl in *; try discriminate.
  - rewrite E. reflexivity.
  - erewrite IH; eauto. apply orb_true_r.
Qed.

Lemma busy_false_nth : forall l i t,
  busy l = false -> nth_error l i = Some t -> inprog t = false.
Proof.
  unfold busy.
  induction l as [|y r IH]; intros i t H Hn; destruct i; simpl in *; try discriminate.
  - inversion Hn; subst. apply orb_false_elim in H. tauto.
  - apply orb_false_elim in H. eapply IH; [tauto | eauto].
Qed.

Lemma quiescent_busy : forall st, quiescent st -> busy (threads st) = false.
Proof.
  intros st Q. unfold quiescent in Q. unfold busy.
  destruct (existsb inprog (threads st)) eqn:E; auto.
  apply existsb_exists in E. destruct E as [t [Hin Ht]].
  apply In_nth_error in Hin. destruct Hin as [i Hi].
  destruct t as [pc|k db dm pc]; simpl in Ht; try discriminate.
  destruct (Q _ _ _ _ _ Hi); subst; discriminate.
Qed.

Lemma busy_quiescent : forall st, busy (threads st) = false -> quiescent st.
Proof.
  intros st B i k db dm pc Hn.
  pose proof (busy_false_nth _ _ _ B Hn) as H.
  destruct pc; simpl in H; auto; discriminate.
Qed.

(* ---------- the inductive invariant ---------- *)

(* Per-thread invariant, relative to the shared values ca (calls), ms, bs and to
   bz = "some mutator has written and not yet notified".

   The key clauses are those of WM / WP / WParked: as long as `calls` still
   equals the waiter's snapshot, every counter write since its loads belongs to
   a mutator that has not executed notify_waiters yet; so when no mutator is in
   progress the loaded values are still the current ones. *)
Definition winv (c : cfg) (ca ms bs : N) (bz : bool) (t : thread) : Prop :=
  match t with
  | TW W0 => True
  | TW WL => True
  | TW (W1 m) => m < max_m c
  | TW (WS s) => s <= ca
  | TW (WM s m) => s <= ca /\ m < max_m c /\ (s = ca -> bz = false -> ms = m)
  | TW (WP s m ob) => s <= ca /\ failed c m ob /\ (s = ca -> bz = false -> cur ms bs m ob)
  | TW (WParked s m ob) => s = ca /\ failed c m ob /\ (bz = false -> cur ms bs m ob)
  | TW (WDone m b) => m < max_m c /\ b < max_b c
  | TM _ _ _ _ => True
  end.

Definition Inv (c : cfg) (st : state) : Prop :=
  Forall (winv c (calls st) (msgs st) (bytes st) (busy (threads st))) (threads st).

Lemma winv_start : forall c ca ms bs bz t, is_start t -> winv c ca ms bs bz t.
Proof.
  intros c ca ms bs bz t H. destruct t as [pc|k db dm pc]; destruct pc; simpl in *; tauto.
Qed.

Lemma Inv_init : forall c st, init st -> Inv c st.
Proof.
  intros c st H. unfold Inv, init in *.
  eapply Forall_impl; [|exact H]. intros; apply winv_start; auto.
Qed.

(* a waiter's own step *)
Lemma winv_wstep : forall c ca ms bs bz pc pc',
  winv c ca ms bs bz (TW pc) -> wstep c ms bs ca pc = Some pc' ->
  winv c ca ms bs bz (TW pc').
Proof.
  intros c ca ms bs bz pc pc' H S.
  destruct pc; simpl in S; inversion S; subst; clear S; simpl in H.
  - (* W0 *) destruct (N.ltb_spec ms (max_m c)); simpl; auto.
  - (* W1 *) destruct (N.ltb_spec bs (max_b c)); simpl; auto.
  - (* WL *) simpl. lia.
  - (* WS *) destruct (N.ltb_spec ms (max_m c)); simpl; unfold cur; auto.
  - (* WM *) destruct H as [H1 [H2 H3]].
    destruct (N.ltb_spec bs (max_b c)); simpl; unfold cur; auto.
  - (* WP *) destruct H as [H1 [H2 H3]].
    destruct (N.eqb_spec ca s); simpl; auto.
Qed.

(* a counter write by a mutator that thereby is (or stays) in progress *)
Lemma winv_busy : forall c ca ms bs bz ms' bs' t,
  winv c ca ms bs bz t -> winv c ca ms' bs' true t.
Proof.
  intros c ca ms bs bz ms' bs' t H.
  destruct t as [pc|k db dm pc]; [destruct pc|]; simpl in *; auto.
  - destruct H as [H1 [H2 H3]]. repeat split; auto; intros; congruence.
  - destruct H as [H1 [H2 H3]]. repeat split; auto; intros; congruence.
  - destruct H as [H1 [H2 H3]]. repeat split; auto; intros; congruence.
Qed.

(* notify_waiters *)
Lemma winv_notify : forall c ca ms bs bz bz' t,
  winv c ca ms bs bz t -> winv c (ca + 1) ms bs bz' (wake t).
Proof.
  intros c ca ms bs bz bz' t H.
  destruct t as [pc|k db dm pc]; [destruct pc|]; simpl in *; auto.
  - lia.
  - destruct H as [H1 [H2 H3]]. repeat split; auto; lia.
  - destruct H as [H1 [H2 H3]]. repeat split; auto; lia.
Qed.

Lemma Inv_step : forall c st i st', Inv c st -> step c st i = Some st' -> Inv c st'.
Proof.
  intros c st i st' I S. unfold step in S.
  destruct (nth_error (threads st) i) as [t|] eqn:Hn; try discriminate.
  destruct t as [pc|k db dm pc].
  - (* waiter *)
    destruct (wstep c (msgs st) (bytes st) (calls st) pc) as [pc'|] eqn:W; try discriminate.
    inversion S; subst; clear S. unfold Inv in *; simpl.
    rewrite (busy_upd_same _ _ _ (TW pc') Hn eq_refl).
    apply Forall_upd; auto.
    eapply winv_wstep; eauto. eapply Forall_nth; eauto.
  - destruct pc; try discriminate; inversion S; subst; clear S; unfold Inv in *; simpl.
    + (* fetch on bytes *)
      rewrite (busy_upd_true _ _ _ (TM k db dm M1) Hn eq_refl).
      apply Forall_upd; simpl; auto.
      eapply Forall_impl; [|exact I]. intros a; apply winv_busy.
    + (* fetch on messages *)
      rewrite (busy_upd_true _ _ _ (TM k db dm M2) Hn eq_refl).
      apply Forall_upd; simpl; auto.
      eapply Forall_impl; [|exact I]. intros a; apply winv_busy.
    + (* notify_waiters *)
      apply Forall_upd; simpl; auto.
      apply Forall_map.
      eapply Forall_impl; [|exact I]. intros a; apply winv_notify.
Qed.

Theorem Inv_reachable : forall c st, reachable c st -> Inv c st.
Proof.
  intros c st R. induction R.
  - apply Inv_init; auto.
  - eapply Inv_step; eauto.
Qed.

(* ---------- C19: safety ---------- *)

(* A waiter that has returned did so from a check whose two loaded values were
   both below the limits. *)
Theorem C19_safe : forall c st i m b,
  reachable c st ->
  nth_error (threads st) i = Some (TW (WDone m b)) ->
  m < max_m c /\ b < max_b c.
Proof.
  intros c st i m b R Hn.
  pose proof (Forall_nth _ _ _ _ _ (Inv_reachable _ _ R) Hn) as H. exact H.
Qed.

(* Each loaded value is the counter's value at the moment of the load, and the
   only way into WDone is the bytes load of a check whose messages load is the
   recorded m. *)
Lemma wstep_loads : forall c ms bs ca pc pc',
  wstep c ms bs ca pc = Some pc' ->
  match pc' with
  | W1 m => pc = W0 /\ m = ms
  | WM s m => pc = WS s /\ m = ms
  | WDone m b => (pc = W1 m \/ exists s, pc = WM s m) /\ b = bs
  | WS s => pc = WL /\ s = ca
  | WP s m ob => (pc = WS s /\ m = ms /\ ob = None) \/ (pc = WM s m /\ ob = Some bs)
  | WParked s m ob => pc = WP s m ob /\ ca = s
  | _ => True
  end.
Proof.
  intros c ms bs ca pc pc' S.
  destruct pc; simpl in S; inversion S; subst; clear S.
  - destruct (ms <? max_m c); auto.
  - destruct (bs <? max_b c); auto.
  - auto.
  - destruct (ms <? max_m c); auto.
  - destruct (bs <? max_b c); eauto.
  - destruct (N.eqb_spec ca s); auto.
Qed.

(* What a step does to the thread that takes it, and to the others. *)
Lemma step_self_waiter : forall c st i st' pc,
  step c st i = Some st' -> nth_error (threads st) i = Some (TW pc) ->
  exists pc', wstep c (msgs st) (bytes st) (calls st) pc = Some pc' /\
              nth_error (threads st') i = Some (TW pc') /\
              msgs st' = msgs st /\ bytes st' = bytes st /\ calls st' = calls st.
Proof.
  intros c st i st' pc S Hn. unfold step in S. rewrite Hn in S.
  destruct (wstep c (msgs st) (bytes st) (calls st) pc) as [pc'|] eqn:W; try discriminate.
  inversion S; subst; clear S. exists pc'; simpl. repeat split; auto.
  eapply nth_error_upd_eq; eauto.
Qed.

Lemma step_other : forall c st i st' j t,
  step c st i = Some st' -> j <> i -> nth_error (threads st) j = Some t ->
  nth_error (threads st') j = Some t \/
  (parked t /\ nth_error (threads st') j = Some (TW WL) /\ calls st' = calls st + 1).
Proof.
  intros c st i st' j t S Hj Hn. unfold step in S.
  destruct (nth_error (threads st) i) as [ti|] eqn:Hi; try discriminate.
  destruct ti as [pc|k db dm pc].
  - destruct (wstep c (msgs st) (bytes st) (calls st) pc) as [pc'|]; try discriminate.
    inversion S; subst; clear S; simpl. left. rewrite nth_error_upd_neq; auto.
  - destruct pc; try discriminate; inversion S; subst; clear S; simpl.
    + left. rewrite nth_error_upd_neq; auto.
    + left. rewrite nth_error_upd_neq; auto.
    + rewrite nth_error_upd_neq; auto. rewrite nth_error_map, Hn. simpl.
      destruct t as [pc|]; [destruct pc|]; simpl; auto.
Qed.

(* History form of safety: the two values were read from two states of the run,
   the messages load first. *)
Definition observed (c : cfg) (st : state) (t : thread) : Prop :=
  match t with
  | TW (W1 m) | TW (WM _ m) =>
      exists st1, reachable c st1 /\ steps c st1 st /\ msgs st1 = m
  | TW (WDone m b) =>
      exists st1 st2, reachable c st1 /\ steps c st1 st2 /\ steps c st2 st /\
                      msgs st1 = m /\ bytes st2 = b
  | _ => True
  end.

Lemma observed_mono : forall c st st' i t,
  step c st i = Some st' -> observed c st t -> observed c st' t.
Proof.
  intros c st st' i t S H.
  destruct t as [pc|]; [destruct pc|]; simpl in *; auto.
  - destruct H as [st1 [R [SS E]]]. exists st1. repeat split; auto. econstructor; eauto.
  - destruct H as [st1 [R [SS E]]]. exists st1. repeat split; auto. econstructor; eauto.
  - destruct H as [st1 [st2 [R [S1 [S2 [E1 E2]]]]]]. exists st1, st2.
    repeat split; auto. econstructor; eauto.
Qed.

Lemma steps_reachable : forall c st st', steps c st st' -> reachable c st -> reachable c st'.
Proof.
  intros c st st' S. induction S; intros R; auto.
  eapply R_step; [apply IHS; auto | eauto].
Qed.

Lemma observed_reachable : forall c st,
  reachable c st -> forall j t, nth_error (threads st) j = Some t -> observed c st t.
Proof.
  intros c st R. induction R as [st H | st i st' R IH S]; intros j t Hn.
  - pose proof (Forall_nth _ _ _ _ _ H Hn) as Hs.
    destruct t as [pc|k db dm pc]; destruct pc; simpl in *; tauto.
  - destruct (PeanoNat.Nat.eq_dec j i) as [->|Hj].
    + (* the stepping thread *)
      destruct (nth_error (threads st) i) as [ti|] eqn:Hi;
        [|unfold step in S; rewrite Hi in S; discriminate].
      destruct ti as [pc|k db dm pc].
      * destruct (step_self_waiter _ _ _ _ _ S Hi) as [pc' [W [Hn' [Em [Eb Ec]]]]].
        rewrite Hn in Hn'. inversion Hn'; subst; clear Hn'.
        pose proof (wstep_loads _ _ _ _ _ _ W) as L.
        pose proof (IH _ _ Hi) as O.
        assert (S1 : steps c st st') by (econstructor; [apply S_refl | eauto]).
        destruct pc'; simpl in *; auto.
        -- destruct L as [_ ->]. exists st. repeat split; auto.
        -- destruct L as [_ ->]. exists st. repeat split; auto.
        -- destruct L as [[->|[s ->]] ->]; simpl in O;
             destruct O as [st1 [R1 [SS E]]]; exists st1, st; repeat split; auto.
      * (* a mutator's own thread carries no obligation *)
        unfold step in S. rewrite Hi in S.
        destruct pc; try discriminate; inversion S; subst; clear S; simpl in Hn.
        -- erewrite nth_error_upd_eq in Hn by eauto. inversion Hn; subst; simpl; auto.
        -- erewrite nth_error_upd_eq in Hn by eauto. inversion Hn; subst; simpl; auto.
        -- erewrite nth_error_upd_eq in Hn
             by (rewrite nth_error_map, Hi; simpl; eauto).
           inversion Hn; subst; simpl; auto.
    + (* another thread: unchanged or woken *)
      destruct (nth_error (threads st) j) as [tj|] eqn:Hj0.
      * destruct (step_other _ _ _ _ _ _ S Hj Hj0) as [E | [_ [E _]]];
          rewrite Hn in E; inversion E; subst; simpl; auto.
        eapply observed_mono; eauto.
      * (* j out of range before the step: also after *)
        exfalso.
        assert (L : length (threads st') = length (threads st)).
        { clear -S. unfold step in S.
          pose proof upd_length as U.
          destruct (nth_error (threads st) i) as [ti|]; try discriminate.
          destruct ti as [pc|k db dm pc].
          - destruct (wstep c (msgs st) (bytes st) (calls st) pc); try discriminate.
            inversion S; subst; simpl. apply U.
          - destruct pc; try discriminate; inversion S; subst; simpl;
              rewrite U; auto. apply map_length. }
        apply nth_error_None in Hj0. rewrite <- L in Hj0.
        apply nth_error_None in Hj0. congruence.
Qed.

Theorem C19_safe_history : forall c st i m b,
  reachable c st ->
  nth_error (threads st) i = Some (TW (WDone m b)) ->
  exists st1 st2,
    reachable c st1 /\ steps c st1 st2 /\ steps c st2 st /\
    msgs st1 = m /\ bytes st2 = b /\ m < max_m c /\ b < max_b c.
Proof.
  intros c st i m b R Hn.
  destruct (C19_safe _ _ _ _ _ R Hn) as [Lm Lb].
  pose proof (observed_reachable _ _ R _ _ Hn) as O. simpl in O.
  destruct O as [st1 [st2 [R1 [S1 [S2 [E1 E2]]]]]].
  exists st1, st2. repeat split; auto.
Qed.

(* ---------- C19: no lost wakeup ---------- *)

(* A parked waiter's snapshot equals `calls`: no notify_waiters() has completed
   since it created its Notified future. *)
Theorem C19_no_lost_wakeup : forall c st i s m ob,
  reachable c st ->
  nth_error (threads st) i = Some (TW (WParked s m ob)) ->
  s = calls st.
Proof.
  intros c st i s m ob R Hn.
  pose proof (Forall_nth _ _ _ _ _ (Inv_reachable _ _ R) Hn) as H. simpl in H. tauto.
Qed.

(* With no inc/dec in progress, the values a parked waiter loaded in its last
   check are still the current counter values, and that check failed. *)
Theorem C19_parked_values_current : forall c st i s m ob,
  reachable c st -> quiescent st ->
  nth_error (threads st) i = Some (TW (WParked s m ob)) ->
  cur (msgs st) (bytes st) m ob /\ failed c m ob.
Proof.
  intros c st i s m ob R Q Hn.
  pose proof (Forall_nth _ _ _ _ _ (Inv_reachable _ _ R) Hn) as H. simpl in H.
  destruct H as [_ [F C]]. split; auto. apply C. apply quiescent_busy; auto.
Qed.

Lemma cur_failed_no_space : forall c st m ob,
  cur (msgs st) (bytes st) m ob -> failed c m ob -> ~ has_space c st.
Proof.
  intros c st m ob [Cm Cb] F [Hm Hb].
  destruct ob as [b|]; simpl in *; subst; lia.
Qed.

(* ... hence capacity is not free.  Contrapositive: when no inc/dec is in
   progress and both counters are below their limits, nobody is parked. *)
Theorem C19_live : forall c st,
  reachable c st -> quiescent st -> has_space c st ->
  forall i t, nth_error (threads st) i = Some t -> ~ parked t.
Proof.
  intros c st R Q HS i t Hn P.
  destruct t as [pc|]; [destruct pc|]; simpl in P; try tauto.
  destruct (C19_parked_values_current _ _ _ _ _ _ R Q Hn) as [C F].
  eapply cur_failed_no_space; eauto.
Qed.

(* Nor can a waiter be about to park: one that is about to poll its Notified
   in such a state sees calls <> snapshot. *)
Lemma live_no_park_pending : forall c st i s m ob,
  reachable c st -> quiescent st -> has_space c st ->
  nth_error (threads st) i = Some (TW (WP s m ob)) -> calls st <> s.
Proof.
  intros c st i s m ob R Q HS Hn E.
  pose proof (Forall_nth _ _ _ _ _ (Inv_reachable _ _ R) Hn) as H. simpl in H.
  destruct H as [_ [F C]].
  eapply cur_failed_no_space; eauto. apply C; auto. apply quiescent_busy; auto.
Qed.

(* A parked waiter while capacity is free therefore implies an inc/dec in
   progress; that call is enabled and its remaining steps end with
   notify_waiters. *)
Theorem C19_parked_implies_notify_pending : forall c st i t,
  reachable c st -> has_space c st ->
  nth_error (threads st) i = Some t -> parked t ->
  exists j k db dm pc, nth_error (threads st) j = Some (TM k db dm pc) /\ (pc = M1 \/ pc = M2).
Proof.
  intros c st i t R HS Hn P.
  destruct (busy (threads st)) eqn:B.
  - unfold busy in B. apply existsb_exists in B. destruct B as [x [Hin Hx]].
    apply In_nth_error in Hin. destruct Hin as [j Hj].
    destruct x as [pc|k db dm pc]; simpl in Hx; try discriminate.
    exists j, k, db, dm, pc. split; auto. destruct pc; try discriminate; auto.
  - exfalso. eapply C19_live; eauto. apply busy_quiescent; auto.
Qed.

(* ---------- C19: all waiters released by one notify_waiters ---------- *)

Theorem C19_all_released : forall c st i k db dm st',
  nth_error (threads st) i = Some (TM k db dm M2) ->
  step c st i = Some st' ->
  calls st' = calls st + 1 /\
  (forall j t, nth_error (threads st) j = Some t -> parked t ->
               nth_error (threads st') j = Some (TW WL)) /\
  (forall j t, nth_error (threads st') j = Some t -> ~ parked t).
Proof.
  intros c st i k db dm st' Hi S.
  unfold step in S. rewrite Hi in S. inversion S; subst; clear S; simpl.
  split; [reflexivity|]. split.
  - intros j t Hj P. destruct (PeanoNat.Nat.eq_dec i j) as [->|Hij].
    + rewrite Hi in Hj. inversion Hj; subst. simpl in P. tauto.
    + rewrite nth_error_upd_neq; auto. rewrite nth_error_map, Hj.
      destruct t as [pc|]; [destruct pc|]; simpl in *; tauto.
  - intros j t Hj P. destruct (PeanoNat.Nat.eq_dec i j) as [->|Hij].
    + erewrite nth_error_upd_eq in Hj by (rewrite nth_error_map, Hi; simpl; eauto).
      inversion Hj; subst. simpl in P. tauto.
    + rewrite nth_error_upd_neq in Hj; auto. rewrite nth_error_map in Hj.
      destruct (nth_error (threads st) j) as [tj|]; simpl in Hj; try discriminate.
      inversion Hj; subst.
      destruct tj as [pc|]; [destruct pc|]; simpl in *; tauto.
Qed.

(* ---------- C19: the waiter does resume ---------- *)

Lemma run_waiter_alone : forall c k st i pc pc',
  nth_error (threads st) i = Some (TW pc) ->
  witer c (msgs st) (bytes st) (calls st) k pc = Some pc' ->
  exists st', run c st (repeat i k) = Some st' /\
              nth_error (threads st') i = Some (TW pc').
Proof.
  intros c k. induction k as [|k IH]; intros st i pc pc' Hn W; simpl in *.
  - inversion W; subst. exists st. auto.
  - destruct (wstep c (msgs st) (bytes st) (calls st) pc) as [pc1|] eqn:W1; try discriminate.
    unfold step. rewrite Hn, W1.
    apply IH with (pc := pc1); simpl; auto.
    eapply nth_error_upd_eq; eauto.
Qed.

Lemma witer_done : forall c ms bs ca pc,
  ms < max_m c -> bs < max_b c ->
  ~ parked (TW pc) -> (forall s m ob, pc = WP s m ob -> ca <> s) ->
  exists k m b, (k <= 4)%nat /\ witer c ms bs ca k pc = Some (WDone m b).
Proof.
  intros c ms bs ca pc Hm Hb NP NPP.
  apply N.ltb_lt in Hm. apply N.ltb_lt in Hb.
  destruct pc.
  - exists 2%nat, ms, bs. split; [lia|]. simpl. rewrite Hm. simpl. rewrite Hb. reflexivity.
  - exists 1%nat, m, bs. split; [lia|]. simpl. rewrite Hb. reflexivity.
  - exists 3%nat, ms, bs. split; [lia|]. simpl. rewrite Hm. simpl. rewrite Hb. reflexivity.
  - exists 2%nat, ms, bs. split; [lia|]. simpl. rewrite Hm. simpl. rewrite Hb. reflexivity.
  - exists 1%nat, m, bs. split; [lia|]. simpl. rewrite Hb. reflexivity.
  - exists 4%nat, ms, bs. split; [lia|]. simpl.
    destruct (N.eqb_spec ca s) as [E|E]; [exfalso; eapply NPP; eauto|].
    simpl. rewrite Hm. simpl. rewrite Hb. reflexivity.
  - simpl in NP. tauto.
  - exists 0%nat, m, b. split; [lia|]. reflexivity.
Qed.

(* In a reachable state with no inc/dec in progress and both counters below
   their limits, every waiter, whatever its program counter, returns after at
   most 4 of its own steps (no help from any other thread is needed). *)
Theorem C19_live_run : forall c st i pc,
  reachable c st -> quiescent st -> has_space c st ->
  nth_error (threads st) i = Some (TW pc) ->
  exists k st' m b, (k <= 4)%nat /\ run c st (repeat i k) = Some st' /\
                    nth_error (threads st') i = Some (TW (WDone m b)).
Proof.
  intros c st i pc R Q HS Hn. pose proof HS as [Hm Hb].
  destruct (witer_done c (msgs st) (bytes st) (calls st) pc Hm Hb) as [k [m [b [Hk W]]]].
  - eapply C19_live; eauto.
  - intros s m ob ->. eapply live_no_park_pending; eauto.
  - destruct (run_waiter_alone _ _ _ _ _ _ Hn W) as [st' [Rn Hn']].
    exists k, st', m, b. auto.
Qed.

(* An inc/dec in progress is always enabled, and after at most 2 of its own
   steps it has executed notify_waiters, leaving nobody parked. *)
Theorem C19_inprog_releases : forall c st j k db dm pc,
  nth_error (threads st) j = Some (TM k db dm pc) -> pc = M1 \/ pc = M2 ->
  exists n st', (n <= 2)%nat /\ run c st (repeat j n) = Some st' /\
                calls st' = calls st + 1 /\
                forall i t, nth_error (threads st') i = Some t -> ~ parked t.
Proof.
  intros c st j k db dm pc Hn [->| ->].
  - destruct (step c st j) as [st1|] eqn:S1;
      [|unfold step in S1; rewrite Hn in S1; discriminate].
    assert (Hn1 : nth_error (threads st1) j = Some (TM k db dm M2) /\ calls st1 = calls st).
    { unfold step in S1. rewrite Hn in S1. inversion S1; subst; simpl. split; auto.
      eapply nth_error_upd_eq; eauto. }
    destruct Hn1 as [Hn1 Ec].
    destruct (step c st1 j) as [st2|] eqn:S2;
      [|unfold step in S2; rewrite Hn1 in S2; discriminate].
    destruct (C19_all_released _ _ _ _ _ _ _ Hn1 S2) as [E [_ NP]].
    exists 2%nat, st2. simpl. rewrite S1, S2. rewrite <- Ec. auto.
  - destruct (step c st j) as [st1|] eqn:S1;
      [|unfold step in S1; rewrite Hn in S1; discriminate].
    destruct (C19_all_released _ _ _ _ _ _ _ Hn S1) as [E [_ NP]].
    exists 1%nat, st1. simpl. rewrite S1. auto.
Qed.

(* ---------- concrete runs ---------- *)

Definition c0 : cfg := {| max_m := 5; max_b := 16 |}.

(* The scenario of the Rust unit test: create(16, 5); inc(16, 1); two waiters;
   dec(16, 1). *)
Definition ex_st : state :=
  mk 1 16 0 [TW W0; TW W0; TM Dec 16 1 M0].

(* Both waiters fail the first check, create their Notified, fail the second
   check and park. *)
Definition ex_park : list nat := [0;1;0;1;0;1;0;1;0;1;0;1]%nat.

Example ex_both_parked :
  run c0 ex_st ex_park =
  Some (mk 1 16 0 [TW (WParked 0 1 (Some 16)); TW (WParked 0 1 (Some 16)); TM Dec 16 1 M0]).
Proof. vm_compute. reflexivity. Qed.

(* The dec: two fetch_subs, then ONE notify_waiters releases both. *)
Example ex_both_released :
  run c0 ex_st (ex_park ++ [2;2;2]%nat) =
  Some (mk 0 0 1 [TW WL; TW WL; TM Dec 16 1 MDone]).
Proof. vm_compute. reflexivity. Qed.

Example ex_both_finish :
  run c0 ex_st (ex_park ++ [2;2;2] ++ [0;1;1;0;0;1])%nat =
  Some (mk 0 0 1 [TW (WDone 0 0); TW (WDone 0 0); TM Dec 16 1 MDone]).
Proof. vm_compute. reflexivity. Qed.

(* A parked waiter is not runnable. *)
Example ex_parked_blocked : run c0 ex_st (ex_park ++ [0]%nat) = None.
Proof. vm_compute. reflexivity. Qed.

(* The check-then-park race: the whole dec (including its notify_waiters) runs
   between the waiter's failed check and the first poll of its Notified.  The
   poll sees calls = 1 <> snapshot 0, so the waiter does not park ... *)
Definition race_st : state := mk 1 16 0 [TW W0; TM Dec 16 1 M0].

Example ex_race_before_poll :
  run c0 race_st [0;0;0;0;0; 1;1;1]%nat =
  Some (mk 0 0 1 [TW (WP 0 1 (Some 16)); TM Dec 16 1 MDone]).
Proof. vm_compute. reflexivity. Qed.

Example ex_race_no_park :
  run c0 race_st [0;0;0;0;0; 1;1;1; 0]%nat =
  Some (mk 0 0 1 [TW WL; TM Dec 16 1 MDone]).
Proof. vm_compute. reflexivity. Qed.

(* ... and finishes on the next iteration. *)
Example ex_race_finish :
  run c0 race_st [0;0;0;0;0; 1;1;1; 0; 0;0;0]%nat =
  Some (mk 0 0 1 [TW (WDone 0 0); TM Dec 16 1 MDone]).
Proof. vm_compute. reflexivity. Qed.

(* Same race one step earlier: the dec runs between the creation of the
   Notified and the check; the check then succeeds. *)
Example ex_race_after_snapshot :
  run c0 race_st [0;0;0; 1;1;1; 0;0]%nat =
  Some (mk 0 0 1 [TW (WDone 0 0); TM Dec 16 1 MDone]).
Proof. vm_compute. reflexivity. Qed.

(* Why the order "notified() first, check second" matters: a Notified created
   after the dec's notify_waiters would carry snapshot 1 = calls, and its poll
   parks although both counters are 0 and nobody will ever notify again.  (Such
   a state is not reachable in the model: C19_live.) *)
Example ex_late_snapshot_would_park :
  wstep c0 0 0 1 (WP 1 1 (Some 16)) = Some (WParked 1 1 (Some 16)).
Proof. vm_compute. reflexivity. Qed.

(* has_available_space() reads the two counters at two different moments.  A
   waiter can therefore return although at NO moment of the run both counters
   were below their limits: limits (1 msg, 1 byte), start (0 msgs, 1 byte);
   the waiter loads messages = 0; inc(0,1) runs; dec(1,0) runs; the waiter
   loads bytes = 0 and returns.  States visited: (0,1) (1,1) (1,0). *)
Definition c1 : cfg := {| max_m := 1; max_b := 1 |}.
Definition torn_st : state := mk 0 1 0 [TW W0; TM Inc 0 1 M0; TM Dec 1 0 M0].
Definition torn_sched : list nat := [0; 1;1;1; 2;2;2; 0]%nat.

Example ex_torn_read_finishes :
  run c1 torn_st torn_sched =
  Some (mk 1 0 2 [TW (WDone 0 0); TM Inc 0 1 MDone; TM Dec 1 0 MDone]).
Proof. vm_compute. reflexivity. Qed.

Example ex_torn_read_never_had_space :
  option_map (forallb (fun st => negb (has_spaceb c1 st))) (trace c1 torn_st torn_sched)
  = Some true.
Proof. vm_compute. reflexivity. Qed.

Print Assumptions C19_safe.
Print Assumptions C19_safe_history.
Print Assumptions C19_no_lost_wakeup.
Print Assumptions C19_parked_values_current.
Print Assumptions C19_live.
Print Assumptions C19_live_run.
Print Assumptions C19_parked_implies_notify_pending.
Print Assumptions C19_inprog_releases.
Print Assumptions C19_all_released.
