(* Waiting consumers at quiescence (C06), their release on deletion (C12) and
   the empty-response rule (C15) in the sequential-issue model: requests are
   issued one at a time and the server runs to quiescence in between; any
   number of streams and blocked Pulls wait on each subscription. *)
From Deltio Require Import Model.Base Model.Names Model.Time Model.Codec Model.Paging Model.Sub Model.Server
  Proofs.BaseP Proofs.TimeP Proofs.CodecP Proofs.SubP Proofs.SubTurns Proofs.SubHist Proofs.ServerP Proofs.CtlP
  Proofs.Extra.
Require Import ZifyBool ZifyN ZifyNat.

Lemma pull_shrinks max now s m b :
  sub_inv s -> s_deleted s = false -> s_backlog s = m :: b ->
  (length (s_backlog (fst (sub_pull max now s))) < length (s_backlog s))%nat /\
  snd (sub_pull max now s) <> [].
Proof.
  intros I Hd Eb. pose proof (sub_pull_spec max now s I Hd) as P. destruct (sub_pull max now s) as [s1 ls].
  destruct P as (P1 & P2 & P3 & _). cbn [fst snd].
  pose proof (pull_count_pos max (len_N (s_backlog s))) as Pos.
  pose proof (pull_count_le_backlog max (len_N (s_backlog s))) as Le.
  assert (0 < len_N (s_backlog s)) by (rewrite Eb; unfold len_N; cbn [length]; lia). specialize (Pos H).
  split.
  - rewrite P2. pose proof (skip_take_N (pull_count max (len_N (s_backlog s))) (s_backlog s)) as ST.
    apply (f_equal (@length msg)) in ST. rewrite app_length in ST.
    pose proof (take_N_len (pull_count max (len_N (s_backlog s))) (s_backlog s)) as TL. unfold len_N in *.
    remember (pull_count max (N.of_nat (length (s_backlog s)))) as k.
    remember (length (take_N k (s_backlog s))) as lt. remember (length (skip_N k (s_backlog s))) as lk.
    remember (length (s_backlog s)) as n. clear - Pos Le ST TL. rewrite N.min_l in TL by assumption. lia.
  - intros ->. unfold len_N in *. cbn [length] in P3. lia.
Qed.

Lemma pull_uid max now s : s_uid (fst (sub_pull max now s)) = s_uid s.
Proof. destruct (sstep_fields s (OPull max now)) as (_ & E & _). exact E. Qed.
Lemma pull_deleted max now s : s_deleted (fst (sub_pull max now s)) = s_deleted s.
Proof. apply (sstep_deleted s (OPull max now)). Qed.

(* C06: with enough fuel the serving loop ends because nothing is left to hand
   out or nobody is left to take it, never because the fuel ran out. *)
Lemma serve_quiescent fuel now : forall s c,
  sub_inv s -> s_deleted s = false -> (length (s_backlog s) + length (c_waiters c) <= fuel)%nat ->
  s_backlog (fst (serve fuel now s c)) = [] \/
  first_waiter (s_uid s) (c_waiters (snd (serve fuel now s c))) = None.
Proof.
  induction fuel as [|f IH]; intros s c I Hd Hf; simpl.
  - left. destruct (s_backlog s); [reflexivity|simpl in Hf; lia].
  - destruct (s_backlog s) as [|m b] eqn:Eb; [left; assumption|].
    destruct (first_waiter (s_uid s) (c_waiters c)) as [[k rest]|] eqn:Ew; [|right; assumption].
    pose proof (first_waiter_length _ _ _ _ Ew) as Lw.
    destruct k as [sid|id max limit].
    + destruct (find_stream sid (c_streams c)) as [st|].
      * destruct (pull_shrinks (st_max st) now s m b I Hd Eb) as [Sh _].
        rewrite <- (pull_uid (st_max st) now s). apply IH.
        -- apply sub_pull_inv; assumption.
        -- rewrite pull_deleted; assumption.
        -- simpl. rewrite app_length. simpl. rewrite Eb in Sh. simpl in *. lia.
      * apply IH; auto. simpl. rewrite Eb. simpl in *. lia.
    + destruct (pull_shrinks max now s m b I Hd Eb) as [Sh _].
      rewrite <- (pull_uid max now s). apply IH.
      * apply sub_pull_inv; assumption.
      * rewrite pull_deleted; assumption.
      * simpl. rewrite Eb in Sh. simpl in *. lia.
Qed.

Lemma expire_uid now s : s_uid (sub_expire now s) = s_uid s.
Proof. destruct (sstep_fields s (OExpire now)) as (_ & E & _). exact E. Qed.
Lemma expire_deleted now s : s_deleted (sub_expire now s) = s_deleted s.
Proof. apply (sstep_deleted s (OExpire now)). Qed.

(* C06 (quiescent form): when a subscription has settled, a non-empty backlog
   and a consumer waiting on it do not coexist - for any number and mix of
   waiting streams and blocked Pulls and whatever their batch limits. *)
Theorem settle_sub_quiescent now touched c s :
  sub_inv s -> s_deleted s = false ->
  s_backlog (fst (settle_sub now touched c s)) = [] \/
  first_waiter (s_uid s) (c_waiters (snd (settle_sub now touched c s))) = None.
Proof.
  intros I Hd. unfold settle_sub.
  destruct (actor_runs now touched c s).
  - rewrite <- (expire_uid now s). apply serve_quiescent.
    + apply sub_expire_inv; assumption.
    + rewrite expire_deleted; assumption.
    + lia.
  - apply serve_quiescent; auto.
Qed.

(* ... and whenever something was waiting and something was queued, the actor ran:
   so the availability event (post, nack, expiry) itself triggers the delivery *)
Lemma actor_runs_when_needed now touched c s m b k rest :
  s_backlog s = m :: b -> first_waiter (s_uid s) (c_waiters c) = Some (k, rest) ->
  actor_runs now touched c s = true.
Proof.
  intros Eb Ew. unfold actor_runs, has_waiter. rewrite Eb, Ew. simpl. apply orb_true_r.
Qed.

(* C15: what the serving loop gives a blocked Pull is never empty *)
Lemma serve_done_nonempty fuel now : forall s c id ls,
  sub_inv s -> s_deleted s = false ->
  In (id, inr ls) (c_done (snd (serve fuel now s c))) -> In (id, inr ls) (c_done c) \/ ls <> [].
Proof.
  induction fuel as [|f IH]; intros s c id ls I Hd; simpl; [auto|].
  destruct (s_backlog s) as [|m b] eqn:Eb; [auto|].
  destruct (first_waiter (s_uid s) (c_waiters c)) as [[k rest]|] eqn:Ew; [|auto].
  destruct k as [sid|pid max limit].
  - destruct (find_stream sid (c_streams c)) as [st|].
    + intros H. apply IH in H; [|apply sub_pull_inv; assumption|rewrite pull_deleted; assumption]. exact H.
    + intros H. apply IH in H; auto.
  - intros H. apply IH in H; [|apply sub_pull_inv; assumption|rewrite pull_deleted; assumption].
    destruct H as [H|H]; [|auto]. simpl in H. apply in_app_iff in H as [H|[H|[]]]; [auto|].
    injection H as _ <-. right. eapply pull_shrinks; eauto.
Qed.

(* C15: a blocked Pull is answered with no messages only when its limit passed *)
Lemma expire_pulls_done now c id r :
  In (id, r) (c_done (expire_pulls now c)) ->
  In (id, r) (c_done c) \/
  (r = inr [] /\ exists u max limit, In (u, CPull id max limit) (c_waiters c) /\ limit <= now).
Proof.
  unfold expire_pulls. simpl. intros H. apply in_app_iff in H as [H|H]; [auto|]. right.
  apply in_flat_map in H as [[u k] [Hw Hk]]. destruct k as [sid|pid max limit]; simpl in Hk; [tauto|].
  destruct (N.ltb now limit) eqn:E; simpl in Hk; [tauto|]. destruct Hk as [Hk|[]]. injection Hk as <- <-.
  split; auto. exists u, max, limit. split; auto. apply N.ltb_ge in E. assumption.
Qed.

(* ... and a Pull whose limit has not passed keeps waiting *)
Lemma expire_pulls_keeps now c u id max limit :
  In (u, CPull id max limit) (c_waiters c) -> now < limit -> In (u, CPull id max limit) (c_waiters (expire_pulls now c)).
Proof.
  intros H Hl. unfold expire_pulls. simpl. apply filter_In. split; auto. simpl. apply N.ltb_lt. assumption.
Qed.

(* ---------- C12: deletion releases the consumers ---------- *)
Theorem release_no_waiters u c : ~ In u (map fst (c_waiters (release_consumers u c))).
Proof.
  unfold release_consumers. simpl. intros H. apply in_map_iff in H as [[v k] [E H]]. simpl in E. subst v.
  apply filter_In in H as [_ H]. simpl in H. rewrite N.eqb_refl in H. discriminate.
Qed.

Theorem release_streams_end u c st :
  In st (c_streams (release_consumers u c)) -> st_sub st = u -> st_term st <> None.
Proof.
  unfold release_consumers, stream_terminate. simpl. intros H E. apply in_map_iff in H as [st0 [E0 H]].
  destruct (st_term st0) eqn:T.
  - subst st. rewrite T. discriminate.
  - destruct (N.eqb (st_sub st0) u) eqn:Eu.
    + subst st. simpl. discriminate.
    + subst st. apply N.eqb_neq in Eu. congruence.
Qed.

Theorem release_pulls_error u c id max limit :
  In (u, CPull id max limit) (c_waiters c) -> In (id, inl NOT_FOUND) (c_done (release_consumers u c)).
Proof.
  intros H. unfold release_consumers. simpl. apply in_app_iff. right. apply in_flat_map.
  exists (u, CPull id max limit). split; auto. simpl. rewrite N.eqb_refl. left. reflexivity.
Qed.

Theorem release_others_untouched u c v k : v <> u -> In (v, k) (c_waiters c) -> In (v, k) (c_waiters (release_consumers u c)).
Proof.
  intros Hn H. unfold release_consumers. simpl. apply filter_In. split; auto. simpl.
  apply negb_true_iff. apply N.eqb_neq. assumption.
Qed.

(* DeleteSubscription applies exactly this release *)
Theorem delete_sub_releases sv n sn s :
  parse_sub_name n = Some sn -> find_sub sn (sv_subs sv) = Some s ->
  sv_cons (fst (fst (handle sv (RDeleteSub n)))) = release_consumers (s_uid s) (sv_cons sv) /\
  snd (fst (handle sv (RDeleteSub n))) = POk.
Proof. intros H1 H2. simpl. rewrite H1, H2. simpl. auto. Qed.
