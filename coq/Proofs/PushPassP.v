(* Proofs about Model/PushPass.v. *)
From Coq Require Import List Arith Bool NArith Lia.
Import ListNotations.
From Deltio Require Import Model.PushPass.

(* with the whole pass raced against the signal: once deleted the pass is over, and no POST so far was late *)
Definition inv_whole (s : state) : Prop :=
  (deleted s = true -> ph s = PDone) /\ Forall (fun p => snd p = false) (posts s).

Lemma inv_whole_init : inv_whole init.
Proof. split; [discriminate | constructor]. Qed.

Lemma inv_whole_step : forall s e s', inv_whole s -> step Whole s e = Some s' -> inv_whole s'.
Proof.
  intros s e s' [Hd Hp] Hs. destruct e; cbn [step] in Hs.
  - destruct (ph s) eqn:Hph; try discriminate. injection Hs as Hs. subst s'. split; cbn; [|exact Hp].
    intro Hdel. specialize (Hd Hdel). discriminate Hd.
  - destruct (ph s) eqn:Hph; try discriminate. destruct (page s) as [|m r]; try discriminate.
    injection Hs as Hs. subst s'. assert (Hnd : deleted s = false).
    { destruct (deleted s) eqn:Hdel; [|reflexivity]. specialize (Hd eq_refl). discriminate Hd. }
    split; cbn.
    + intro Hdel. rewrite Hnd in Hdel. discriminate Hdel.
    + apply Forall_app. split; [exact Hp|]. constructor; [exact Hnd | constructor].
  - destruct (ph s) eqn:Hph; try discriminate. destruct (existsb _ _); try discriminate.
    injection Hs as Hs. subst s'. split; cbn; [|exact Hp]. intro Hdel. specialize (Hd Hdel). discriminate Hd.
  - destruct (ph s) eqn:Hph; try discriminate. destruct (page s); try discriminate.
    destruct (inflight s); try discriminate. injection Hs as Hs. subst s'. split; cbn; [reflexivity | exact Hp].
  - destruct (deleted s) eqn:Hdel; try discriminate.
    destruct (ph s); injection Hs as Hs; subst s'; (split; cbn; [reflexivity | exact Hp]).
Qed.

Lemma inv_whole_run : forall es s, inv_whole s -> inv_whole (run Whole s es).
Proof.
  induction es as [|e es IH]; intros s H; cbn [run]; [exact H|]. apply IH.
  destruct (step Whole s e) as [s'|] eqn:Hs; [exact (inv_whole_step s e s' H Hs) | exact H].
Qed.

Lemma late_nil : forall l : list (N * bool), Forall (fun p => snd p = false) l -> map fst (filter snd l) = [].
Proof.
  induction l as [|[m b] l IH]; intro H; [reflexivity|]. inversion H as [|x y Hb Hl]; subst. cbn in Hb. subst b.
  cbn. exact (IH Hl).
Qed.

(* every schedule: nothing is POSTed for a subscription that has been deleted *)
Lemma whole_no_late_post : forall es, late_posts (run Whole init es) = [].
Proof. intro es. unfold late_posts. apply late_nil. exact (proj2 (inv_whole_run es init inv_whole_init)). Qed.

(* a pass that is over makes no POST *)
Lemma done_stays : forall g es s, ph s = PDone -> posts (run g s es) = posts s /\ ph (run g s es) = PDone.
Proof.
  intros g. induction es as [|e es IH]; intros s H; cbn [run]; [split; [reflexivity | exact H]|].
  destruct (step g s e) as [s'|] eqn:Hs; [|exact (IH s H)].
  assert (Hs' : ph s' = PDone /\ posts s' = posts s).
  { destruct e; cbn [step] in Hs; rewrite ?H in Hs; try discriminate.
    destruct (deleted s); try discriminate. destruct g; injection Hs as Hs; subst s'; split; reflexivity. }
  destruct Hs' as [Hp Hq]. destruct (IH s' Hp) as [Ha Hb]. split; [rewrite Ha; exact Hq | exact Hb].
Qed.

Lemma run_app : forall g a b s, run g s (a ++ b) = run g (run g s a) b.
Proof. intros g. induction a as [|e a IH]; intros b s; cbn [run app]; [reflexivity | apply IH]. Qed.

(* whatever comes after the deletion, in any order: the POSTs are those made before it *)
Lemma whole_delete_stops : forall es1 es2,
  deleted (run Whole init es1) = true ->
  posts (run Whole init (es1 ++ es2)) = posts (run Whole init es1).
Proof.
  intros es1 es2 Hd. rewrite run_app.
  apply (done_stays Whole es2). exact (proj1 (inv_whole_run es1 init inv_whole_init) Hd).
Qed.

(* both variants: what a pass POSTs is a prefix of the page it pulled, in page order *)
Definition follows (p : list N) (s : state) : Prop :=
  ph s <> PPulling /\ exists r, map fst (posts s) ++ r = p /\ (ph s = PDispatching -> r = page s).

Lemma follows_step : forall g p s e s', follows p s -> step g s e = Some s' -> follows p s'.
Proof.
  intros g p s e s' [Hn [r [Hr Hpg]]] Hs. destruct e; cbn [step] in Hs.
  - destruct (ph s) eqn:Hph; try discriminate. contradiction Hn. reflexivity.
  - destruct (ph s) eqn:Hph; try discriminate. destruct (page s) as [|m r'] eqn:Hpage; try discriminate.
    injection Hs as Hs; subst s'. split; [cbn; discriminate|]. exists r'. split; cbn.
    + rewrite map_app, <- app_assoc. cbn. rewrite (Hpg eq_refl) in Hr. exact Hr.
    + reflexivity.
  - destruct (ph s) eqn:Hph; try discriminate. destruct (existsb _ _); try discriminate. injection Hs as Hs; subst s'.
    split; [cbn; discriminate|]. exists r. split; cbn; [exact Hr | intros _; exact (Hpg eq_refl)].
  - destruct (ph s) eqn:Hph; try discriminate. destruct (page s); try discriminate.
    destruct (inflight s); try discriminate. injection Hs as Hs; subst s'. split; [cbn; discriminate|].
    exists r. split; cbn; [exact Hr | discriminate].
  - destruct (deleted s); try discriminate. destruct (ph s) eqn:Hph.
    + contradiction Hn. reflexivity.
    + destruct g; injection Hs as Hs; subst s'.
      * split; [cbn; discriminate|]. exists r. split; cbn; [exact Hr | discriminate].
      * split; [cbn; discriminate|]. exists r. split; cbn; [exact Hr | intros _; exact (Hpg eq_refl)].
    + injection Hs as Hs; subst s'. split; [cbn; discriminate|]. exists r. split; cbn; [exact Hr | discriminate].
Qed.

Lemma follows_run : forall g p es s, follows p s -> follows p (run g s es).
Proof.
  intros g p. induction es as [|e es IH]; intros s H; cbn [run]; [exact H|]. apply IH.
  destruct (step g s e) as [s'|] eqn:Hs; [exact (follows_step g p s e s' H Hs) | exact H].
Qed.

Lemma pass_posts_prefix : forall g p es,
  exists r, map fst (posts (run g init (EPulled p :: es))) ++ r = p.
Proof.
  intros g p es. cbn [run step init ph].
  assert (H : follows p (mk PDispatching p [] [] false)).
  { split; [cbn; discriminate|]. exists p. split; [reflexivity | reflexivity]. }
  destruct (follows_run g p es _ H) as [_ [r [Hr _]]]. exists r. exact Hr.
Qed.

(* the narrowed guard: the rest of the page is POSTed for a subscription that no longer exists *)
Lemma pullonly_refuted :
  late_posts (run PullOnly init mid_page_schedule) = [3; 4]%N /\
  map fst (posts (run PullOnly init mid_page_schedule)) = [1; 2; 3; 4]%N.
Proof. vm_compute. split; reflexivity. Qed.

(* the same schedule with the whole pass raced: two POSTs, both before the deletion *)
Lemma whole_same_schedule :
  late_posts (run Whole init mid_page_schedule) = [] /\
  map fst (posts (run Whole init mid_page_schedule)) = [1; 2]%N /\
  ph (run Whole init mid_page_schedule) = PDone.
Proof. vm_compute. repeat split; reflexivity. Qed.

(* without a deletion both variants hand the whole page over *)
Lemma undisturbed_pass : forall g,
  map fst (posts (run g init [EPulled [1; 2; 3]%N; EDispatch; EDispatch; EAnswer 1%N; EDispatch; EAnswer 3%N; EAnswer 2%N; EFinish]))
  = [1; 2; 3]%N.
Proof. intros []; vm_compute; reflexivity. Qed.
