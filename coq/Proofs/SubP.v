(* The OutstandingMessageTracker invariant (the two structures describe the
   same set, so take_expired's unwrap_unchecked is safe) and what each actor
   turn does to it. *)
From Deltio Require Import Model.Base Model.Time Model.Codec Model.Sub Proofs.BaseP.
Require Import ZifyBool ZifyN ZifyNat Sorting.Sorted.

(* ---------- the order on expiration keys ---------- *)
Definition klt (a b : ekey) : Prop := key_ltb a b = true.

Lemma key_ltb_spec a b :
  key_ltb a b = true <-> fst a < fst b \/ (fst a = fst b /\ snd a < snd b).
Proof. unfold key_ltb. lia. Qed.

Lemma key_eqb_spec a b : key_eqb a b = true <-> a = b.
Proof.
  destruct a as [a1 a2], b as [b1 b2]. unfold key_eqb. simpl. split.
  - intros H. f_equal; lia.
  - intros H. injection H as -> ->. lia.
Qed.

Lemma klt_irrefl a : ~ klt a a.
Proof. unfold klt. rewrite key_ltb_spec. lia. Qed.

Lemma klt_trans a b c : klt a b -> klt b c -> klt a c.
Proof. unfold klt. rewrite !key_ltb_spec. lia. Qed.

Lemma klt_total a b : key_ltb a b = false -> key_eqb a b = false -> klt b a.
Proof.
  unfold klt. intros H1 H2.
  assert (~ (fst a < fst b \/ (fst a = fst b /\ snd a < snd b))) as N1
      by (rewrite <- key_ltb_spec; congruence).
  assert (a <> b) as N2 by (rewrite <- key_eqb_spec; congruence).
  apply key_ltb_spec. destruct a as [a1 a2], b as [b1 b2]. simpl in *.
  assert (~ (a1 = b1 /\ a2 = b2)) by (intros [-> ->]; congruence). lia.
Qed.

Definition sorted (l : list ekey) : Prop := StronglySorted klt l.

Lemma sorted_nodup l : sorted l -> NoDup l.
Proof.
  induction 1 as [|a l Hs IH Hf]; constructor; auto.
  intros Hin. rewrite Forall_forall in Hf. apply (klt_irrefl a). auto.
Qed.

(* ---------- set_insert / set_remove ---------- *)
Lemma set_insert_in k l x : In x (set_insert k l) <-> x = k \/ In x l.
Proof.
  induction l as [|y l IH]; simpl.
  - intuition.
  - destruct (key_ltb k y) eqn:E1; simpl; [intuition|].
    destruct (key_eqb k y) eqn:E2; simpl.
    + apply key_eqb_spec in E2. subst. intuition.
    + rewrite IH. intuition.
Qed.

Lemma set_insert_sorted k l : sorted l -> sorted (set_insert k l).
Proof.
  induction 1 as [|y l Hs IH Hf]; simpl.
  - repeat constructor.
  - destruct (key_ltb k y) eqn:E1.
    + constructor; [constructor; auto|]. constructor; [exact E1|].
      rewrite Forall_forall in *. intros z Hz. eapply klt_trans; [exact E1|auto].
    + destruct (key_eqb k y) eqn:E2; [constructor; auto|].
      constructor; auto. rewrite Forall_forall in *. intros z Hz.
      apply set_insert_in in Hz as [->|Hz]; auto. apply klt_total; assumption.
Qed.

Lemma set_remove_in k l x : sorted l -> (In x (set_remove k l) <-> x <> k /\ In x l).
Proof.
  induction 1 as [|y l Hs IH Hf]; simpl.
  - intuition.
  - destruct (key_eqb k y) eqn:E.
    + apply key_eqb_spec in E. subst y. split.
      * intros Hx. split; auto. intros ->. rewrite Forall_forall in Hf.
        apply (klt_irrefl k). auto.
      * intros [Hn [H|H]]; congruence.
    + assert (Hne : k <> y).
      { intros ->. assert (key_eqb y y = true) by (apply key_eqb_spec; reflexivity). congruence. }
      simpl. rewrite IH. split.
      * intros [<-|[H1 H2]]; split; auto.
      * intros [H1 [<-|H2]]; auto.
Qed.

Lemma set_remove_sorted k l : sorted l -> sorted (set_remove k l).
Proof.
  induction 1 as [|y l Hs IH Hf]; simpl; [constructor|].
  destruct (key_eqb k y); auto. constructor; auto.
  rewrite Forall_forall in *. intros z Hz. apply set_remove_in in Hz as [_ Hz]; auto.
Qed.

(* ---------- association lists with unique keys ---------- *)
Section AssocFacts.
  Context {V : Type}.
  Implicit Types (m : list (N * V)).

  Lemma alookup_in k v m : alookup N.eqb k m = Some v -> In (k, v) m.
  Proof.
    induction m as [|[k' v'] m IH]; simpl; [discriminate|].
    destruct (N.eqb k k') eqn:E.
    - apply N.eqb_eq in E. intros H; injection H as ->. subst. auto.
    - auto.
  Qed.

  Lemma in_alookup k v m : NoDup (map fst m) -> In (k, v) m -> alookup N.eqb k m = Some v.
  Proof.
    induction m as [|[k' v'] m IH]; simpl; [tauto|].
    intros Hn [H|H].
    - injection H as -> ->. rewrite N.eqb_refl. reflexivity.
    - inversion Hn as [|? ? Hni Hn']; subst. destruct (N.eqb k k') eqn:E.
      + apply N.eqb_eq in E. subst. exfalso. apply Hni. apply in_map_iff. exists (k', v). auto.
      + auto.
  Qed.

  Lemma alookup_none k m : alookup N.eqb k m = None <-> ~ In k (map fst m).
  Proof.
    induction m as [|[k' v'] m IH]; simpl; [tauto|].
    destruct (N.eqb k k') eqn:E.
    - apply N.eqb_eq in E. subst. split; [discriminate|]. intros H. exfalso. auto.
    - apply N.eqb_neq in E. rewrite IH. intuition.
  Qed.

  Lemma aremove_in k m x : NoDup (map fst m) -> (In x (aremove N.eqb k m) <-> fst x <> k /\ In x m).
  Proof.
    induction m as [|[k' v'] m IH]; simpl; [tauto|]. intros Hn.
    inversion Hn as [|? ? Hni Hn']; subst. destruct (N.eqb k k') eqn:E.
    - apply N.eqb_eq in E. subst. split.
      + intros Hx. split; auto. intros <-. apply Hni. apply in_map. exact Hx.
      + intros [H1 [<-|H2]]; simpl in *; congruence.
    - apply N.eqb_neq in E. simpl. rewrite IH by assumption. split.
      + intros [<-|[H1 H2]]; simpl; auto.
      + intros [H1 [<-|H2]]; auto.
  Qed.

  Lemma aremove_keys k m : NoDup (map fst m) -> NoDup (map fst (aremove N.eqb k m)).
  Proof.
    induction m as [|[k' v'] m IH]; simpl; auto. intros Hn.
    inversion Hn as [|? ? Hni Hn']; subst. destruct (N.eqb k k') eqn:E; auto.
    simpl. constructor; auto. intros Hin. apply Hni.
    apply in_map_iff in Hin as [x [Hx1 Hx2]]. apply aremove_in in Hx2 as [_ Hx2]; auto.
    apply in_map_iff. exists x. auto.
  Qed.

  Lemma aremove_absent k m : ~ In k (map fst m) -> aremove N.eqb k m = m.
  Proof.
    induction m as [|[k' v'] m IH]; simpl; auto. intros Hn.
    destruct (N.eqb k k') eqn:E.
    - apply N.eqb_eq in E. subst. exfalso. auto.
    - f_equal. auto.
  Qed.

  Lemma aupdate_keys k v m : map fst (aupdate N.eqb k v m) = map fst m.
  Proof.
    induction m as [|[k' v'] m IH]; simpl; auto.
    destruct (N.eqb k k'); simpl; congruence.
  Qed.

  Lemma aupdate_in k v m x :
    NoDup (map fst m) -> In k (map fst m) ->
    (In x (aupdate N.eqb k v m) <-> x = (k, v) \/ (fst x <> k /\ In x m)).
  Proof.
    induction m as [|[k' v'] m IH]; simpl; [tauto|]. intros Hn Hk.
    inversion Hn as [|? ? Hni Hn']; subst. destruct (N.eqb k k') eqn:E.
    - apply N.eqb_eq in E. subst k'. simpl. split.
      + intros [<-|H]; auto. right. split; auto. intros <-. apply Hni. apply in_map. exact H.
      + intros [->|[H1 [<-|H2]]]; simpl in *; auto; congruence.
    - apply N.eqb_neq in E. destruct Hk as [Hk|Hk]; [congruence|]. simpl.
      rewrite IH by assumption. split.
      + intros [<-|[->|[H1 H2]]]; simpl; auto.
      + intros [->|[H1 [<-|H2]]]; auto.
  Qed.
End AssocFacts.

Lemma NoDup_app_one {A} (l : list A) x : NoDup l -> ~ In x l -> NoDup (l ++ [x]).
Proof.
  induction l as [|y l IH]; simpl; intros Hn Hx.
  - constructor; [auto|constructor].
  - inversion Hn; subst. constructor.
    + rewrite in_app_iff. simpl. intuition.
    + apply IH; auto.
Qed.

(* ---------- the invariant ---------- *)
Definition keys_of (msgs : list (N * lease)) : list ekey :=
  map (fun p => (l_dl (snd p), fst p)) msgs.

Record tr_inv (t : tracker) (na : N) : Prop := {
  ti_nodup : NoDup (map fst (tr_msgs t));
  ti_self : forall a l, In (a, l) (tr_msgs t) -> l_ack l = a;
  ti_sorted : sorted (tr_exp t);
  ti_agree : forall k, In k (tr_exp t) <-> In k (keys_of (tr_msgs t));
  ti_below : forall a l, In (a, l) (tr_msgs t) -> a < na }.

Lemma tr_inv_empty na : tr_inv tr_empty na.
Proof. constructor; simpl; try tauto; constructor. Qed.

Lemma tr_inv_weaken t na na' : tr_inv t na -> na <= na' -> tr_inv t na'.
Proof. intros [A B C D E] H. constructor; auto. intros a l Hin. specialize (E a l Hin). lia. Qed.

Lemma in_keys_of msgs k : In k (keys_of msgs) <-> exists l, In (snd k, l) msgs /\ l_dl l = fst k.
Proof.
  unfold keys_of. rewrite in_map_iff. split.
  - intros [[a l] [<- H]]. simpl. eauto.
  - intros [l [H1 H2]]. exists (snd k, l). simpl. destruct k; simpl in *. subst. auto.
Qed.

(* add: a lease with a fresh ack id *)
Lemma tr_add_inv t na l :
  tr_inv t na -> l_ack l = na -> tr_inv (tr_add l t) (na + 1).
Proof.
  intros [A B C D E] Hl.
  assert (Hfresh : ~ In (l_ack l) (map fst (tr_msgs t))).
  { intros Hin. apply in_map_iff in Hin as [[a x] [Hx1 Hx2]]. simpl in Hx1. subst a.
    specialize (E _ _ Hx2). lia. }
  assert (Hm : map_insert (l_ack l) l (tr_msgs t) = tr_msgs t ++ [(l_ack l, l)]).
  { unfold map_insert, amem. apply alookup_none in Hfresh. rewrite Hfresh. reflexivity. }
  unfold tr_add. rewrite Hm. constructor; simpl.
  - rewrite map_app. simpl. apply NoDup_app_one; auto.
  - intros a x Hin. apply in_app_iff in Hin as [Hin|[Hin|[]]]; auto. injection Hin as <- <-. reflexivity.
  - apply set_insert_sorted; assumption.
  - intros k. rewrite set_insert_in. unfold keys_of. rewrite map_app, in_app_iff. simpl.
    rewrite D. unfold lease_key, keys_of. intuition.
  - intros a x Hin. apply in_app_iff in Hin as [Hin|[Hin|[]]].
    + specialize (E _ _ Hin). lia.
    + injection Hin as <- <-. lia.
Qed.

Lemma alookup_aremove {V} (a b : N) (m : list (N * V)) :
  NoDup (map fst m) ->
  alookup N.eqb b (aremove N.eqb a m) = if N.eqb b a then None else alookup N.eqb b m.
Proof.
  induction m as [|[k v] m IH]; simpl; intros Hn.
  - destruct (N.eqb b a); reflexivity.
  - inversion Hn as [|? ? Hni Hn']; subst. destruct (N.eqb a k) eqn:E1.
    + apply N.eqb_eq in E1. subst k. destruct (N.eqb b a) eqn:E2.
      * apply N.eqb_eq in E2. subst b. apply alookup_none. assumption.
      * reflexivity.
    + simpl. destruct (N.eqb b k) eqn:E3.
      * apply N.eqb_eq in E3. subst k. rewrite N.eqb_sym, E1. reflexivity.
      * apply IH. assumption.
Qed.

Lemma alookup_aupdate {V} (a b : N) (v : V) (m : list (N * V)) :
  In a (map fst m) ->
  alookup N.eqb b (aupdate N.eqb a v m) = if N.eqb b a then Some v else alookup N.eqb b m.
Proof.
  induction m as [|[k x] m IH]; simpl; intros Hin; [tauto|].
  destruct (N.eqb a k) eqn:E1.
  - apply N.eqb_eq in E1. subst k. simpl. destruct (N.eqb b a); reflexivity.
  - simpl. destruct Hin as [Hin|Hin]; [apply N.eqb_neq in E1; congruence|].
    destruct (N.eqb b k) eqn:E2.
    + apply N.eqb_eq in E2. subst k. rewrite N.eqb_sym, E1. reflexivity.
    + auto.
Qed.

Lemma tr_inv_lookup t na a l :
  tr_inv t na -> (alookup N.eqb a (tr_msgs t) = Some l <-> In (a, l) (tr_msgs t)).
Proof.
  intros I. split; [apply alookup_in|apply in_alookup; apply I].
Qed.

Lemma tr_inv_fun t na a l1 l2 :
  tr_inv t na -> In (a, l1) (tr_msgs t) -> In (a, l2) (tr_msgs t) -> l1 = l2.
Proof.
  intros I H1 H2. apply (in_alookup _ _ _ (ti_nodup _ _ I)) in H1, H2. congruence.
Qed.

(* removing one known lease from both structures *)
Lemma remove_lease_inv t na a l :
  tr_inv t na -> In (a, l) (tr_msgs t) ->
  tr_inv {| tr_msgs := aremove N.eqb a (tr_msgs t);
            tr_exp := set_remove (lease_key l) (tr_exp t) |} na.
Proof.
  intros I Hin. pose proof I as [A B C D E].
  assert (Hack : l_ack l = a) by (eapply B; eauto).
  constructor; simpl.
  - apply aremove_keys; assumption.
  - intros b x Hx. apply aremove_in in Hx as [_ Hx]; eauto.
  - apply set_remove_sorted; assumption.
  - intros k. rewrite set_remove_in by assumption. rewrite D, !in_keys_of. unfold lease_key. rewrite Hack.
    split.
    + intros [Hne [x [Hx1 Hx2]]]. exists x. split; auto. apply aremove_in; auto. split; auto. simpl.
      intros Hk. apply Hne. destruct k as [k1 k2]. simpl in *. subst k2.
      rewrite (tr_inv_fun _ _ _ _ _ I Hx1 Hin) in Hx2. congruence.
    + intros [x [Hx1 Hx2]]. apply aremove_in in Hx1 as [Hne Hx1]; auto. simpl in Hne. split; eauto.
      intros ->. simpl in Hne. congruence.
  - intros b x Hx. apply aremove_in in Hx as [_ Hx]; eauto.
Qed.

Lemma tr_remove1_inv t na a : tr_inv t na -> tr_inv (tr_remove1 t a) na.
Proof.
  intros I. unfold tr_remove1. destruct (alookup N.eqb a (tr_msgs t)) as [l|] eqn:E; auto.
  apply remove_lease_inv; auto. apply alookup_in; assumption.
Qed.

Lemma tr_remove_inv ids t na : tr_inv t na -> tr_inv (tr_remove ids t) na.
Proof.
  unfold tr_remove. revert t. induction ids as [|a ids IH]; simpl; auto.
  intros t I. apply IH. apply tr_remove1_inv. assumption.
Qed.

(* what an ack does to the lookup function: exactly the named ids disappear *)
Lemma tr_remove1_lookup t na a b :
  tr_inv t na ->
  alookup N.eqb b (tr_msgs (tr_remove1 t a)) = if N.eqb b a then None else alookup N.eqb b (tr_msgs t).
Proof.
  intros I. unfold tr_remove1. destruct (alookup N.eqb a (tr_msgs t)) as [l|] eqn:E; simpl.
  - apply alookup_aremove. apply I.
  - destruct (N.eqb b a) eqn:E2; auto. apply N.eqb_eq in E2. subst. assumption.
Qed.

Lemma tr_remove_lookup ids t na b :
  tr_inv t na ->
  alookup N.eqb b (tr_msgs (tr_remove ids t)) =
  if existsb (N.eqb b) ids then None else alookup N.eqb b (tr_msgs t).
Proof.
  unfold tr_remove. revert t. induction ids as [|a ids IH]; simpl; auto.
  intros t I. rewrite IH by (apply tr_remove1_inv; assumption).
  rewrite (tr_remove1_lookup _ na) by assumption.
  destruct (N.eqb b a); simpl; destruct (existsb (N.eqb b) ids); reflexivity.
Qed.

(* an ack naming no live id changes nothing at all *)
Lemma tr_remove_inert ids t :
  (forall a, In a ids -> alookup N.eqb a (tr_msgs t) = None) -> tr_remove ids t = t.
Proof.
  unfold tr_remove. revert t. induction ids as [|a ids IH]; simpl; auto.
  intros t H. unfold tr_remove1 at 2. rewrite (H a) by auto. apply IH. auto.
Qed.

(* modify *)
Lemma tr_modify1_inv t na nacked m :
  tr_inv t na -> tr_inv (fst (tr_modify1 (t, nacked) m)) na.
Proof.
  intros I. destruct m as [a nd]. unfold tr_modify1.
  destruct (alookup N.eqb a (tr_msgs t)) as [l|] eqn:E; simpl; auto.
  pose proof (alookup_in _ _ _ E) as Hin.
  pose proof (remove_lease_inv _ _ _ _ I Hin) as R.
  pose proof I as [A B C D E'].
  assert (Hack : l_ack l = a) by eauto.
  destruct nd as [d|]; simpl; [|exact R].
  set (l' := {| l_ack := l_ack l; l_dl := d; l_msg := l_msg l |}).
  assert (Hk : In a (map fst (tr_msgs t))) by (apply in_map_iff; exists (a, l); auto).
  constructor; simpl.
  - rewrite aupdate_keys. assumption.
  - intros b x Hx. apply aupdate_in in Hx as [Hx|[_ Hx]]; eauto. injection Hx as -> ->. exact Hack.
  - apply set_insert_sorted, set_remove_sorted; assumption.
  - intros k. rewrite set_insert_in. rewrite set_remove_in by assumption. rewrite D, !in_keys_of.
    unfold lease_key. simpl. rewrite Hack. split.
    + intros [->|[Hne [x [Hx1 Hx2]]]].
      * exists l'. simpl. split; auto. apply aupdate_in; auto.
      * exists x. split; auto. apply aupdate_in; auto. right. split; auto. simpl. intros Hk2.
        apply Hne. destruct k as [k1 k2]. simpl in *. subst k2.
        rewrite (tr_inv_fun _ _ _ _ _ I Hx1 Hin) in Hx2. congruence.
    + intros [x [Hx1 Hx2]]. apply aupdate_in in Hx1 as [Hx1|[Hne Hx1]]; auto.
      * injection Hx1 as Hs ->. left. destruct k as [k1 k2]. simpl in *. congruence.
      * right. simpl in Hne. split; eauto. intros ->. simpl in Hne. congruence.
  - intros b x Hx. apply aupdate_in in Hx as [Hx|[_ Hx]]; eauto. injection Hx as -> _. eauto.
Qed.

Lemma tr_modify_inv mods t na : tr_inv t na -> tr_inv (fst (tr_modify mods t)) na.
Proof.
  unfold tr_modify. generalize (@nil lease) as acc. revert t.
  induction mods as [|m mods IH]; cbn [fold_left]; auto.
  intros t acc I. pose proof (tr_modify1_inv t na acc m I) as H.
  destruct (tr_modify1 (t, acc) m) as [t' acc']. apply IH. exact H.
Qed.

(* take_expired *)
Lemma take_expired_spec now na exp msgs :
  tr_inv {| tr_msgs := msgs; tr_exp := exp |} na ->
  exists ls e m,
    take_expired now exp msgs = Some (ls, e, m) /\
    tr_inv {| tr_msgs := m; tr_exp := e |} na /\
    (forall a l, In (a, l) msgs -> (l_dl l <= now <-> In l ls) /\ (now < l_dl l <-> In (a, l) m)) /\
    (forall l, In l ls -> In (l_ack l, l) msgs) /\
    (forall a l, In (a, l) m -> In (a, l) msgs).
Proof.
  revert msgs. induction exp as [|[d a] exp IH]; intros msgs I; simpl.
  - exists [], [], msgs. split; [reflexivity|]. split; [assumption|].
    split; [|split; [simpl; tauto|auto]].
    intros b l Hin. exfalso.
    pose proof (proj2 (ti_agree _ _ I (l_dl l, b))) as H. simpl in H. apply H.
    apply in_keys_of. simpl. eauto.
  - destruct (N.ltb now d) eqn:E.
    + apply N.ltb_lt in E. exists [], ((d, a) :: exp), msgs. split; [reflexivity|].
      split; [assumption|]. split; [|split; [simpl; tauto|auto]].
      intros b l Hin.
      assert (Hk : In (l_dl l, b) ((d, a) :: exp)).
      { apply (ti_agree _ _ I). apply in_keys_of. simpl. eauto. }
      assert (d <= l_dl l).
      { destruct Hk as [Hk|Hk]; [injection Hk; lia|].
        pose proof (ti_sorted _ _ I) as S. simpl in S. inversion S as [|? ? _ Hf]; subst.
        rewrite Forall_forall in Hf. specialize (Hf _ Hk). unfold klt in Hf.
        apply key_ltb_spec in Hf. simpl in Hf. lia. }
      split; split; simpl; intros; try lia; try tauto.
    + apply N.ltb_ge in E.
      assert (Hex : exists l, In (a, l) msgs /\ l_dl l = d).
      { apply (in_keys_of msgs (d, a)). apply (ti_agree _ _ I). left; reflexivity. }
      destruct Hex as [l [Hin Hd]].
      pose proof (ti_nodup _ _ I) as ND. simpl in ND.
      rewrite (in_alookup _ _ _ ND Hin).
      pose proof (remove_lease_inv _ _ _ _ I Hin) as R. simpl in R.
      assert (Hack : l_ack l = a) by (eapply (ti_self _ _ I); eauto).
      unfold lease_key in R. rewrite Hd, Hack in R.
      assert (Hkk : key_eqb (d, a) (d, a) = true) by (apply key_eqb_spec; reflexivity).
      rewrite Hkk in R.
      destruct (IH _ R) as (ls & e & m & H1 & H2 & H3 & H4 & H5).
      rewrite H1. exists (l :: ls), e, m. split; [reflexivity|]. split; [assumption|].
      split; [|split].
      * intros b x Hx. destruct (N.eq_dec b a) as [->|Hne].
        -- rewrite (tr_inv_fun _ _ _ _ _ I Hx Hin). split.
           ++ split; intros; [left; reflexivity|lia].
           ++ split; [lia|]. intros Hm. apply H5 in Hm.
              apply aremove_in in Hm as [Hm _]; [|apply I]. simpl in Hm. congruence.
        -- assert (Hx' : In (b, x) (aremove N.eqb a msgs)) by (apply aremove_in; [apply I|auto]).
           destruct (H3 _ _ Hx') as [H3a H3b]. split; [|assumption].
           rewrite H3a. split; [right; assumption|]. intros [<-|Hl]; auto.
           exfalso. apply Hne. rewrite <- Hack. symmetry. eapply (ti_self _ _ I). exact Hx.
      * intros x [<-|Hx]; [rewrite Hack; assumption|].
        apply H4 in Hx. apply aremove_in in Hx as [_ Hx]; [assumption|apply I].
      * intros b x Hx. apply H5 in Hx. apply aremove_in in Hx as [_ Hx]; [assumption|apply I].
Qed.

(* the safety condition of `unwrap_unchecked` *)
Lemma take_expired_defined now t na :
  tr_inv t na -> take_expired now (tr_exp t) (tr_msgs t) <> None.
Proof.
  intros I. destruct t as [msgs exp]. destruct (take_expired_spec now na exp msgs I) as (ls & e & m & H & _).
  simpl. congruence.
Qed.
