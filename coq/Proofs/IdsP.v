(* Message identities at server level: in every reachable state (with message
   counters below 2^32) the messages a subscription holds have pairwise
   distinct ids, all issued by its own topic instance and not above that
   topic's counter.  This discharges the freshness hypotheses of the turn-level
   theorems (C02_final, C03_partition, C09). *)
From Deltio Require Import Model.Base Model.Names Model.Time Model.Codec Model.Paging Model.Sub Model.Server
  Proofs.BaseP Proofs.TimeP Proofs.CodecP Proofs.SubP Proofs.SubTurns Proofs.SubHist Proofs.ServerP Proofs.CtlP
  Proofs.Extra.
Require Import ZifyBool ZifyN ZifyNat Sorting.Permutation Sorting.Sorted.

(* evolution by turns that post nothing *)
Definition evolves_np (s s' : sub) : Prop := exists os, posted os = [] /\ s' = fst (srun s os).

Lemma posted_app a b : posted (a ++ b) = posted a ++ posted b.
Proof. unfold posted. apply flat_map_app. Qed.

Lemma np_refl s : evolves_np s s.
Proof. exists []. split; reflexivity. Qed.

Lemma np_trans a b c : evolves_np a b -> evolves_np b c -> evolves_np a c.
Proof.
  intros [o1 [P1 ->]] [o2 [P2 ->]]. exists (o1 ++ o2). split.
  - rewrite posted_app, P1, P2. reflexivity.
  - rewrite srun_app. reflexivity.
Qed.

Lemma np_step s o : (forall ms, o <> OPost ms) -> evolves_np s (fst (sstep s o)).
Proof.
  intros H. exists [o]. split.
  - destruct o; simpl; auto. exfalso. eapply H. reflexivity.
  - simpl. destruct (sstep s o). reflexivity.
Qed.

Lemma np_pull max now s : evolves_np s (fst (sub_pull max now s)).
Proof. apply (np_step s (OPull max now)). discriminate. Qed.
Lemma np_ack ids s : evolves_np s (sub_ack ids s).
Proof. apply (np_step s (OAck ids)). discriminate. Qed.
Lemma np_modify mods s : evolves_np s (sub_modify mods s).
Proof. apply (np_step s (OMod mods)). discriminate. Qed.
Lemma np_expire now s : evolves_np s (sub_expire now s).
Proof. apply (np_step s (OExpire now)). discriminate. Qed.

Lemma np_evolves s s' : evolves_np s s' -> evolves s s'.
Proof. intros [os [_ E]]. exists os. exact E. Qed.

(* what post-free evolution preserves *)
Lemma np_held os : forall s, sub_inv s -> posted os = [] ->
  (forall m, In m (held (fst (srun s os))) -> In m (held s)) /\
  (NoDup (ids (held s)) -> NoDup (ids (held (fst (srun s os))))).
Proof.
  induction os as [|o os IH]; intros s I P; simpl; [auto|].
  assert (Po : posted [o] = [] /\ posted os = []).
  { change (o :: os) with ([o] ++ os) in P. rewrite posted_app in P. apply app_eq_nil in P. exact P. }
  destruct Po as [Po Pos].
  assert (Hnp : forall ms, o <> OPost ms \/ ms = []).
  { intros ms. destruct o; try (left; discriminate). simpl in Po. rewrite app_nil_r in Po. subst.
    destruct ms; [right; reflexivity|left; discriminate]. }
  pose proof (sstep_inv s o I) as I1.
  assert (Hsub : forall m, In m (held (fst (sstep s o))) -> In m (held s)).
  { intros m Hm. destruct o as [ms| | | |]; try (apply sstep_held_subset in Hm; auto; discriminate).
    simpl in Po. rewrite app_nil_r in Po. subst ms. apply sstep_post_held in Hm. destruct Hm; [assumption|contradiction]. }
  assert (Hnd : NoDup (ids (held s)) -> NoDup (ids (held (fst (sstep s o))))).
  { intros ND. apply sstep_nodup; auto. rewrite Po. simpl. rewrite app_nil_r. assumption. }
  destruct (sstep s o) as [s1 d]. simpl in *.
  destruct (IH s1 I1 Pos) as [H1 H2]. destruct (srun s1 os) as [s2 ds]. simpl in *. split; auto.
Qed.

(* ---------- the invariant ---------- *)
Definition ids_ok (sv : server) (s : sub) : Prop :=
  NoDup (ids (held s)) /\
  forall m, In m (held s) ->
    exists c, m_id m = message_id (s_topic s) c /\ 1 <= c /\
              forall t, In t (sv_topics sv) -> t_uid t = s_topic s -> c <= t_next_msg t.

Definition fits (sv : server) : Prop := forall t, In t (sv_topics sv) -> t_next_msg t < 2 ^ 32.

Definition ids_inv (sv : server) : Prop := forall s, In s (sv_subs sv) -> ids_ok sv s.

Lemma ids_ok_np sv sv' s s' :
  sub_inv s -> evolves_np s s' -> ids_ok sv s ->
  (forall t', In t' (sv_topics sv') -> exists t, In t (sv_topics sv) /\ t_uid t = t_uid t' /\ t_next_msg t <= t_next_msg t') ->
  ids_ok sv' s'.
Proof.
  intros I [os [P ->]] [ND H] Ht. destruct (np_held os s I P) as [Hs Hn]. split; [auto|].
  intros m Hm. destruct (H m (Hs m Hm)) as (c & E & C1 & C2).
  assert (Etopic : s_topic (fst (srun s os)) = s_topic s).
  { destruct (evolves_fields s (fst (srun s os))) as (_ & _ & E3 & _); [exists os; reflexivity|assumption]. }
  exists c. rewrite Etopic. split; [assumption|]. split; [assumption|].
  intros t' Ht' Eu. destruct (Ht t' Ht') as (t & Hin & Eu' & Le). specialize (C2 t Hin). rewrite Eu' in C2.
  specialize (C2 Eu). lia.
Qed.

Lemma ids_ok_new sv n u t a p : ids_ok sv (sub_new n u t a p).
Proof. split; [constructor|]. intros m []. Qed.

(* ---------- post-free steps of the server ---------- *)
Definition subs_step_np (ss ss' : list sub) : Prop :=
  forall s', In s' ss' ->
    (exists s, In s ss /\ evolves_np s s') \/
    (exists n u t a p, evolves_np (sub_new n u t a p) s').

Lemma ssnp_refl ss : subs_step_np ss ss.
Proof. intros s' H. left. exists s'. split; auto. apply np_refl. Qed.

Lemma ssnp_forall2 ss ss' : Forall2 evolves_np ss ss' -> subs_step_np ss ss'.
Proof.
  induction 1 as [|a b l l' E F IH]; intros s' Hin; simpl in *; [tauto|].
  destruct Hin as [<-|Hin].
  - left. exists a. auto.
  - destruct (IH s' Hin) as [[s [H1 H2]]|H2]; [left; exists s; auto|right; exact H2].
Qed.

Lemma ssnp_trans a b c : subs_step_np a b -> subs_step_np b c -> subs_step_np a c.
Proof.
  intros H1 H2 s' Hin. destruct (H2 s' Hin) as [[s [Hs Es]]|(n & u & t & k & p & E)].
  - destruct (H1 s Hs) as [[s0 [Hs0 E0]]|(n & u & t & k & p & E0)].
    + left. exists s0. split; auto. eapply np_trans; eauto.
    + right. exists n, u, t, k, p. eapply np_trans; eauto.
  - right. exists n, u, t, k, p. exact E.
Qed.

Lemma upd_sub_np u f ss : (forall s, evolves_np s (f s)) -> subs_step_np ss (upd_sub u f ss).
Proof.
  intros Hf. apply ssnp_forall2. unfold upd_sub. induction ss as [|s ss IH]; simpl; constructor; auto.
  destruct (N.eqb u (s_uid s)); [apply Hf|apply np_refl].
Qed.

Lemma del_sub_np u ss : subs_step_np ss (del_sub u ss).
Proof. intros s' Hin. apply filter_In in Hin as [Hin _]. left. exists s'. split; auto. apply np_refl. Qed.

Lemma app_new_np ss n u t a p : subs_step_np ss (ss ++ [sub_new n u t a p]).
Proof.
  intros s' Hin. apply in_app_iff in Hin as [Hin|[<-|[]]].
  - left. exists s'. split; auto. apply np_refl.
  - right. exists n, u, t, a, p. apply np_refl.
Qed.

Lemma np_fold_left {A} (f : sub -> A -> sub) (l : list A) :
  (forall x a, evolves_np x (f x a)) -> forall x, evolves_np x (fold_left f l x).
Proof.
  intros H. induction l as [|a l IH]; intros x; simpl; [apply np_refl|].
  eapply np_trans; [apply H|apply IH].
Qed.

Lemma handle_np sv r :
  (forall n m, r <> RPublish n m) -> subs_step_np (sv_subs sv) (sv_subs (fst (fst (handle sv r)))).
Proof.
  intros Hr. destruct r; simpl;
    repeat match goal with
    | |- context [match ?x with _ => _ end] => destruct x eqn:?; simpl
    end;
    try apply ssnp_refl;
    try (apply upd_sub_np; intros;
         first [apply np_ack | apply np_modify | apply np_pull | apply np_refl
               | eapply np_trans; [apply np_ack|apply np_modify]]);
    try apply del_sub_np; try apply app_new_np.
  - exfalso. eapply Hr. reflexivity.
  - apply upd_sub_np. intros s1.
    eapply np_trans; [apply (np_pull 1000 (sv_now sv) s1)|].
    apply np_fold_left. intros x [l0 o]. cbn [fst snd].
    destruct o; try apply np_refl; try apply np_modify.
    match goal with |- context [if ?b then _ else _] => destruct b end; [apply np_ack|apply np_modify].
Qed.

Lemma np_serve fuel now : forall s c, evolves_np s (fst (serve fuel now s c)).
Proof.
  induction fuel as [|f IH]; intros s c; simpl; [apply np_refl|].
  destruct (s_backlog s) as [|m b] eqn:Eb; [apply np_refl|].
  destruct (first_waiter (s_uid s) (c_waiters c)) as [[k rest]|]; [|apply np_refl].
  destruct k as [sid|id max limit].
  - destruct (find_stream sid (c_streams c)) as [st|]; [|apply IH].
    eapply np_trans; [apply (np_pull (st_max st) now s)|apply IH].
  - eapply np_trans; [apply (np_pull max now s)|apply IH].
Qed.

Lemma settle_np touched sv : subs_step_np (sv_subs sv) (sv_subs (settle touched sv)).
Proof.
  unfold settle.
  assert (F : forall ss c, Forall2 evolves_np ss (fst (settle_subs (sv_now sv) touched ss c))).
  { induction ss as [|s ss IH]; intros c; simpl; [constructor|].
    assert (E : evolves_np s (fst (settle_sub (sv_now sv) (touched (s_uid s)) c s))).
    { unfold settle_sub. destruct (actor_runs (sv_now sv) (touched (s_uid s)) c s).
      - eapply np_trans; [apply np_expire|apply np_serve].
      - apply np_serve. }
    destruct (settle_sub (sv_now sv) (touched (s_uid s)) c s) as [s' c1]. simpl in E.
    specialize (IH c1). destruct (settle_subs (sv_now sv) touched ss c1) as [r c2]. simpl in *.
    constructor; assumption. }
  specialize (F (sv_subs sv) (sv_cons sv)).
  destruct (settle_subs (sv_now sv) touched (sv_subs sv) (sv_cons sv)) as [ss c]. simpl in *.
  apply ssnp_forall2. exact F.
Qed.

Lemma settle_topics touched sv : sv_topics (settle touched sv) = sv_topics sv.
Proof. unfold settle. destruct (settle_subs _ _ _ _). reflexivity. Qed.

(* ---------- preservation ---------- *)
Definition topics_ok (sv sv' : server) : Prop :=
  forall t', In t' (sv_topics sv') ->
    (exists t, In t (sv_topics sv) /\ t_uid t = t_uid t' /\ t_next_msg t <= t_next_msg t') \/
    sv_tnext sv < t_uid t'.

Lemma ids_step_np sv sv' :
  Forall sub_inv (sv_subs sv) -> ctl_inv sv -> ids_inv sv ->
  subs_step_np (sv_subs sv) (sv_subs sv') -> topics_ok sv sv' ->
  (forall s', In s' (sv_subs sv') -> s_topic s' <= sv_tnext sv) ->
  ids_inv sv'.
Proof.
  intros FI CI II SS TO TB s' Hs'. destruct (SS s' Hs') as [[s [Hs E]]|(n & u & t & a & p & E)].
  - rewrite Forall_forall in FI. destruct E as [os [P ->]].
    destruct (np_held os s (FI s Hs) P) as [Hsub Hnd]. destruct (II s Hs) as [ND H]. split; [auto|].
    intros m Hm. destruct (H m (Hsub m Hm)) as (c & Ec & C1 & C2).
    assert (Etopic : s_topic (fst (srun s os)) = s_topic s).
    { destruct (evolves_fields s (fst (srun s os))) as (_ & _ & E3 & _); [exists os; reflexivity|assumption]. }
    exists c. rewrite Etopic. split; [assumption|]. split; [assumption|].
    intros t' Ht' Eu. destruct (TO t' Ht') as [(t0 & Hin & Eu' & Le)|Hnew].
    + specialize (C2 t0 Hin). rewrite Eu' in C2. specialize (C2 Eu). lia.
    + specialize (TB _ Hs'). rewrite Etopic in TB. lia.
  - destruct E as [os [P ->]].
    destruct (np_held os _ (sub_new_inv n u t a p) P) as [Hsub Hnd]. split.
    + apply Hnd. constructor.
    + intros m Hm. apply Hsub in Hm. destruct Hm.
Qed.

Lemma topics_ok_same sv sv' :
  map (fun t => (t_uid t, t_next_msg t)) (sv_topics sv') = map (fun t => (t_uid t, t_next_msg t)) (sv_topics sv) ->
  topics_ok sv sv'.
Proof.
  intros E t' Ht'. left. apply (in_map (fun t => (t_uid t, t_next_msg t))) in Ht'. rewrite E in Ht'.
  apply in_map_iff in Ht' as [t [Et Ht]]. injection Et as E1 E2. exists t. repeat split; auto. lia.
Qed.

Lemma topics_ok_sub sv sv' : (forall t', In t' (sv_topics sv') -> In t' (sv_topics sv)) -> topics_ok sv sv'.
Proof. intros H t' Ht'. left. exists t'. repeat split; auto. lia. Qed.

Lemma upd_topic_keys u f ts :
  (forall t, t_uid (f t) = t_uid t /\ t_next_msg (f t) = t_next_msg t) ->
  map (fun t => (t_uid t, t_next_msg t)) (upd_topic u f ts) = map (fun t => (t_uid t, t_next_msg t)) ts.
Proof.
  intros H. unfold upd_topic. rewrite map_map. apply map_ext. intros t.
  destruct (N.eqb u (t_uid t)); auto. destruct (H t) as [-> ->]. reflexivity.
Qed.

Ltac dmatch := repeat match goal with
                     | |- context [match ?x with _ => _ end] => destruct x eqn:?; simpl
                     end.

Lemma handle_topics_ok sv r : (forall n m, r <> RPublish n m) -> topics_ok sv (fst (fst (handle sv r))).
Proof.
  intros Hr. destruct r; simpl.
  - (* create topic *) dmatch; try (apply topics_ok_sub; intros; assumption).
    intros t' Ht'. simpl in Ht'. apply in_app_iff in Ht' as [Ht'|[<-|[]]].
    + left. exists t'. repeat split; auto. lia.
    + right. simpl. lia.
  - dmatch; apply topics_ok_sub; intros; assumption.
  - (* delete topic *) dmatch; try (apply topics_ok_sub; intros; assumption).
    apply topics_ok_sub. intros t' Ht'. simpl in Ht'. apply filter_In in Ht'. tauto.
  - dmatch; apply topics_ok_sub; intros; assumption.
  - dmatch; apply topics_ok_sub; intros; assumption.
  - (* create sub *)
    destruct (parse_topic_name topic); simpl; [|apply topics_ok_sub; intros; assumption].
    destruct (parse_sub_name n); simpl; [|apply topics_ok_sub; intros; assumption].
    destruct (parse_push push); simpl; [|apply topics_ok_sub; intros; assumption].
    destruct (find_topic _ _); simpl; [|apply topics_ok_sub; intros; assumption].
    destruct (negb _); simpl; [apply topics_ok_sub; intros; assumption|].
    destruct (find_sub _ _); simpl; [apply topics_ok_sub; intros; assumption|].
    apply topics_ok_same. simpl. apply upd_topic_keys. intros t0.
    destruct (attached _ (t_subs t0)); simpl; auto.
  - dmatch; apply topics_ok_sub; intros; assumption.
  - (* delete sub *) dmatch; try (apply topics_ok_sub; intros; assumption).
    apply topics_ok_same. simpl. apply upd_topic_keys. intros t0. simpl. auto.
  - dmatch; apply topics_ok_sub; intros; assumption.
  - exfalso. eapply Hr. reflexivity.
  - dmatch; apply topics_ok_sub; intros; assumption.
  - dmatch; apply topics_ok_sub; intros; assumption.
  - dmatch; apply topics_ok_sub; intros; assumption.
  - apply topics_ok_sub; intros; assumption.
  - dmatch; apply topics_ok_sub; intros; assumption.
  - apply topics_ok_sub; intros; assumption.
  - dmatch; apply topics_ok_sub; intros; assumption.
  - dmatch; apply topics_ok_sub; intros; assumption.
  - apply topics_ok_sub; intros; assumption.
  - dmatch; apply topics_ok_sub; intros; assumption.
  - dmatch; apply topics_ok_sub; intros; assumption.
  - dmatch; apply topics_ok_sub; intros; assumption.
  - dmatch; apply topics_ok_sub; intros; assumption.
Qed.

Lemma handle_tnext sv r : (forall n, r <> RCreateTopic n) -> sv_tnext (fst (fst (handle sv r))) = sv_tnext sv.
Proof. intros Hr. destruct r; simpl; dmatch; try reflexivity. exfalso. eapply Hr. reflexivity. Qed.

Lemma handle_create_topic_subs sv n : sv_subs (fst (fst (handle sv (RCreateTopic n)))) = sv_subs sv.
Proof. simpl. dmatch; reflexivity. Qed.

(* every request other than Publish *)
Lemma handle_ids_np sv r :
  (forall n m, r <> RPublish n m) ->
  Forall sub_inv (sv_subs sv) -> ctl_inv sv -> ids_inv sv -> ids_inv (fst (fst (handle sv r))).
Proof.
  intros Hr FI CI II.
  pose proof (handle_ctl sv r CI) as CI'.
  apply (ids_step_np sv); auto.
  - apply handle_np. assumption.
  - apply handle_topics_ok. assumption.
  - intros s' Hs'.
    assert (Dec : (exists n, r = RCreateTopic n) \/ (forall n, r <> RCreateTopic n)).
    { destruct r; try (right; intros; discriminate). left. eauto. }
    destruct Dec as [[n ->]|Hn].
    + rewrite handle_create_topic_subs in Hs'. apply (ci_stopic_bound _ CI). assumption.
    + rewrite <- (handle_tnext sv r Hn). apply (ci_stopic_bound _ CI'). assumption.
Qed.

(* ---------- Publish ---------- *)
Lemma NoDup_app_intro {A} (l1 l2 : list A) :
  NoDup l1 -> NoDup l2 -> (forall x, In x l1 -> In x l2 -> False) -> NoDup (l1 ++ l2).
Proof.
  induction l1 as [|a l1 IH]; simpl; intros N1 N2 D; auto.
  inversion N1 as [|? ? Hn N1']; subst. constructor.
  - rewrite in_app_iff. intros [H|H]; [auto|]. eapply D; eauto.
  - apply IH; auto. intros x H1 H2. eapply D; eauto.
Qed.

Lemma sorted_lt_NoDup l : StronglySorted N.lt l -> NoDup l.
Proof.
  induction 1 as [|a l S IH F]; constructor; auto. intros Hin. rewrite Forall_forall in F.
  specialize (F a Hin). lia.
Qed.

Lemma publish_ids sv n raws tn t :
  parse_topic_name n = Some tn -> find_topic tn (sv_topics sv) = Some t ->
  Forall sub_inv (sv_subs sv) -> ctl_inv sv -> ids_inv sv ->
  t_next_msg t + len_N raws < 2 ^ 32 ->
  ids_inv (fst (fst (handle sv (RPublish n raws)))).
Proof.
  intros Hn Hf FI CI II Hfit. simpl. rewrite Hn, Hf. simpl.
  apply find_topic_some in Hf as [Ht _].
  set (ms := mk_msgs (t_uid t) (t_next_msg t) (sv_ptnext sv) raws).
  destruct (mk_msgs_spec (t_uid t) (sv_ptnext sv) raws (t_next_msg t)) as (Hlen & _ & Hids & _). fold ms in Hlen, Hids.
  assert (Hms : forall m, In m ms -> exists c, m_id m = message_id (t_uid t) c /\ t_next_msg t + 1 <= c /\
                                               c <= t_next_msg t + len_N raws).
  { intros m Hm. apply (in_map m_id) in Hm. rewrite Hids in Hm. apply in_map_iff in Hm as [i [E Hi]].
    apply in_seq in Hi. exists (t_next_msg t + 1 + N.of_nat i). split; [auto|]. unfold len_N. lia. }
  assert (Hnd : NoDup (ids ms)).
  { apply sorted_lt_NoDup. apply mk_msgs_ids_increasing. assumption. }
  (* the topics after the step: t's counter moved, the others are untouched *)
  assert (Htop : forall t', In t' (upd_topic (t_uid t) (fun t0 => set_topic_next t0 (t_next_msg t0 + len_N raws)) (sv_topics sv)) ->
                 exists t0, In t0 (sv_topics sv) /\ t_uid t' = t_uid t0 /\
                            t_next_msg t' = if N.eqb (t_uid t) (t_uid t0) then t_next_msg t0 + len_N raws else t_next_msg t0).
  { intros t' Ht'. apply upd_topic_in in Ht' as [t0 [H0 ->]]. exists t0. split; auto.
    destruct (N.eqb (t_uid t) (t_uid t0)); simpl; auto. }
  intros s' Hs'. simpl in Hs'. apply in_map_iff in Hs' as [s [Es Hs]].
  destruct (II s Hs) as [ND H]. rewrite Forall_forall in FI. pose proof (FI s Hs) as Is.
  destruct (existsb (N.eqb (s_uid s)) (map snd (t_subs t))) eqn:Etarget.
  - (* a target of the publish *)
    apply (attached_uid_iff sv t s CI Ht Hs) in Etarget.
    subst s'. unfold sub_post. destruct (s_deleted s) eqn:Hd.
    + (* (deleted flags never occur in this model's states; the clause is here for totality) *)
      split; [assumption|]. intros m Hm. destruct (H m Hm) as (c & E & C1 & C2). exists c. repeat split; auto.
      intros t' Ht' Eu. destruct (Htop t' Ht') as (t0 & H0 & Eu0 & En). specialize (C2 t0 H0).
      rewrite Eu0 in Eu. specialize (C2 Eu). destruct (N.eqb (t_uid t) (t_uid t0)); lia.
    + assert (P : Permutation (held (set_backlog_tr s (s_backlog s ++ ms) (s_tr s) (s_next_ack s))) (held s ++ ms)).
      { unfold held, out_msgs. simpl. rewrite <- !app_assoc. apply Permutation_app_head. apply Permutation_app_comm. }
      split.
      * eapply Permutation_NoDup; [symmetry; apply perm_ids; exact P|]. unfold ids. rewrite map_app.
        apply NoDup_app_intro; auto.
        intros i Hi1 Hi2. apply in_map_iff in Hi1 as [m1 [E1 Hm1]]. apply in_map_iff in Hi2 as [m2 [E2 Hm2]].
        destruct (H m1 Hm1) as (c1 & Ec1 & C1 & C2). destruct (Hms m2 Hm2) as (c2 & Ec2 & D1 & D2).
        specialize (C2 t Ht (eq_sym Etarget)).
        rewrite Etarget in Ec1. assert (message_id (t_uid t) c1 = message_id (t_uid t) c2) by congruence.
        apply message_id_injective in H0; lia.
      * intros m Hm. simpl. eapply Permutation_in in Hm; [|exact P]. apply in_app_iff in Hm as [Hm|Hm].
        -- destruct (H m Hm) as (c & E & C1 & C2). exists c. repeat split; auto.
           intros t' Ht' Eu. destruct (Htop t' Ht') as (t0 & H0 & Eu0 & En). specialize (C2 t0 H0).
           rewrite Eu0 in Eu. specialize (C2 Eu). destruct (N.eqb (t_uid t) (t_uid t0)); lia.
        -- destruct (Hms m Hm) as (c & E & D1 & D2). exists c. rewrite Etarget. repeat split; auto; try lia.
           intros t' Ht' Eu. destruct (Htop t' Ht') as (t0 & H0 & Eu0 & En).
           assert (t0 = t) by (eapply uid_unique_t; eauto; [apply CI|congruence]). subst t0.
           rewrite N.eqb_refl in En. lia.
  - (* not attached: untouched; its own topic's counter did not go down *)
    subst s'. split; [assumption|]. intros m Hm. destruct (H m Hm) as (c & E & C1 & C2). exists c. repeat split; auto.
    intros t' Ht' Eu. destruct (Htop t' Ht') as (t0 & H0 & Eu0 & En). specialize (C2 t0 H0).
    rewrite Eu0 in Eu. specialize (C2 Eu). destruct (N.eqb (t_uid t) (t_uid t0)); lia.
Qed.

(* ---------- all histories whose message counters stay below 2^32 ---------- *)
Inductive reachable_fit : server -> Prop :=
| rf_init : reachable_fit init_server
| rf_step sv r : reachable_fit sv -> fits (fst (api_step sv r)) -> reachable_fit (fst (api_step sv r)).

Lemma reachable_fit_reachable sv : reachable_fit sv -> reachable sv.
Proof. induction 1; constructor; auto. Qed.

(* C02/C03/C09: in every such state the messages each subscription holds have pairwise distinct
   ids, issued by its own topic instance, not above that topic's counter *)
Theorem reachable_ids sv : reachable_fit sv -> ids_inv sv.
Proof.
  induction 1 as [|sv r R IH Hfit].
  - intros s [].
  - pose proof (reachable_fit_reachable _ R) as R0.
    pose proof (reachable_sub_inv _ R0) as FI. pose proof (reachable_ctl _ R0) as CI.
    unfold api_step in *. destruct (handle sv r) as [[sv1 p] tch] eqn:Eh. simpl in *.
    assert (I1 : ids_inv sv1 /\ Forall sub_inv (sv_subs sv1) /\ ctl_inv sv1).
    { assert (E1 : sv1 = fst (fst (handle sv r))) by (rewrite Eh; reflexivity).
      split; [|split].
      - assert (Dec : (exists n m, r = RPublish n m) \/ (forall n m, r <> RPublish n m)).
        { destruct r; try (right; intros; discriminate). left. eauto. }
        destruct Dec as [[n [raws ->]]|Hnp].
        + (* publish: the counter of the topic fits afterwards *)
          simpl in Eh. destruct (parse_topic_name n) as [tn|] eqn:Hn; [|injection Eh as <- _ _; assumption].
          destruct (find_topic tn (sv_topics sv)) as [t|] eqn:Hf; [|injection Eh as <- _ _; assumption].
          rewrite E1. apply (publish_ids sv n raws tn t); auto.
          (* the updated topic is in the final state, which fits *)
          pose proof Hf as Hf'. apply find_topic_some in Hf' as [Ht _].
          assert (Hin : In (set_topic_next t (t_next_msg t + len_N raws)) (sv_topics (settle tch sv1))).
          { rewrite settle_topics. injection Eh as <- _ _. simpl. unfold upd_topic. apply in_map_iff.
            exists t. rewrite N.eqb_refl. auto. }
          specialize (Hfit _ Hin). simpl in Hfit. exact Hfit.
        + rewrite E1. apply handle_ids_np; auto.
      - rewrite E1. eapply subs_step_inv; [exact FI|apply handle_subs_step].
      - rewrite E1. apply handle_ctl. assumption. }
    destruct I1 as (II1 & FI1 & CI1).
    apply (ids_step_np sv1); auto.
    + apply settle_np.
    + apply topics_ok_same. rewrite settle_topics. reflexivity.
    + intros s' Hs'. pose proof (settle_ctl tch sv1 CI1) as CI2.
      pose proof (ci_stopic_bound _ CI2 s' Hs') as B. unfold settle in B.
      destruct (settle_subs _ _ _ _) in B. simpl in B. exact B.
Qed.

(* in particular no two held messages of a subscription share an id, whatever happened before *)
Corollary reachable_held_distinct sv s :
  reachable_fit sv -> In s (sv_subs sv) -> NoDup (ids (held s)).
Proof. intros R Hs. apply (reachable_ids sv R s Hs). Qed.
