(* Histories of one subscription actor: any sequence of turns.  The server
   model applies exactly these turns (Proofs/ServerP.v), so what is proved
   here for every turn sequence holds for every subscription of every server
   history. *)
From Deltio Require Import Model.Base Model.Time Model.Codec Model.Sub
  Proofs.BaseP Proofs.TimeP Proofs.CodecP Proofs.SubP Proofs.SubTurns.
Require Import ZifyBool ZifyN ZifyNat Sorting.Permutation Sorting.Sorted.

Inductive sop :=
| OPost (ms : list msg)
| OPull (max now : N)
| OAck (ids : list N)
| OMod (mods : list (N * option N))
| OExpire (now : N).

Definition sstep (s : sub) (o : sop) : sub * list lease :=
  match o with
  | OPost ms => (sub_post ms s, [])
  | OPull max now => sub_pull max now s
  | OAck ids => (sub_ack ids s, [])
  | OMod mods => (sub_modify mods s, [])
  | OExpire now => (sub_expire now s, [])
  end.

(* final state and the deliveries of every step *)
Fixpoint srun (s : sub) (os : list sop) : sub * list (list lease) :=
  match os with
  | [] => (s, [])
  | o :: os' => let (s1, d) := sstep s o in
                let (s2, ds) := srun s1 os' in (s2, d :: ds)
  end.

Definition posted (os : list sop) : list msg :=
  flat_map (fun o => match o with OPost ms => ms | _ => [] end) os.

Lemma sstep_inv s o : sub_inv s -> sub_inv (fst (sstep s o)).
Proof.
  destruct o; simpl; intros I.
  - apply sub_post_inv; assumption.
  - apply sub_pull_inv; assumption.
  - apply sub_ack_inv; assumption.
  - apply sub_modify_inv; assumption.
  - apply sub_expire_inv; assumption.
Qed.

Lemma srun_inv os : forall s, sub_inv s -> sub_inv (fst (srun s os)).
Proof.
  induction os as [|o os IH]; intros s I; simpl; auto.
  pose proof (sstep_inv s o I) as I1. destruct (sstep s o) as [s1 d]. simpl in I1.
  specialize (IH s1 I1). destruct (srun s1 os) as [s2 ds]. exact IH.
Qed.

(* deletion flag never changes inside these turns *)
Lemma sstep_deleted s o : s_deleted (fst (sstep s o)) = s_deleted s.
Proof.
  destruct o; simpl.
  - unfold sub_post. destruct (s_deleted s) eqn:E; simpl; auto.
  - unfold sub_pull. destruct (s_deleted s) eqn:E; simpl; auto.
    destruct lease_out as [[ls t'] na']. simpl. auto.
  - unfold sub_ack. destruct (s_deleted s) eqn:E; simpl; auto.
  - unfold sub_modify. destruct (s_deleted s) eqn:E; simpl; auto.
    destruct tr_modify as [t' n]. simpl. auto.
  - unfold sub_expire. destruct take_expired as [[[ls e] m]|]; reflexivity.
Qed.

(* ---------- C03: ack ids are fresh over the whole history ---------- *)
Lemma sstep_next_ack s o : sub_inv s -> s_next_ack s <= s_next_ack (fst (sstep s o)).
Proof.
  intros I. destruct o; simpl.
  - unfold sub_post. destruct (s_deleted s); simpl; lia.
  - destruct (s_deleted s) eqn:Hd.
    + unfold sub_pull. rewrite Hd. simpl. lia.
    + pose proof (sub_pull_spec max now s I Hd) as H. destruct (sub_pull max now s) as [s' ls].
      destruct H as (_ & _ & _ & _ & H5 & _). simpl. lia.
  - unfold sub_ack. destruct (s_deleted s); simpl; lia.
  - unfold sub_modify. destruct (s_deleted s); simpl; [lia|]. destruct tr_modify. simpl. lia.
  - unfold sub_expire. destruct take_expired as [[[ls e] m]|]; simpl; lia.
Qed.

Lemma sstep_acks_range s o l :
  sub_inv s -> In l (snd (sstep s o)) -> s_next_ack s <= l_ack l < s_next_ack (fst (sstep s o)).
Proof.
  intros I. destruct o; simpl; try tauto. apply sub_pull_fresh. assumption.
Qed.

Lemma sstep_acks_sorted s o : sub_inv s -> StronglySorted N.lt (map l_ack (snd (sstep s o))).
Proof.
  intros I. destruct o; simpl; try constructor.
  destruct (s_deleted s) eqn:Hd.
  { unfold sub_pull. rewrite Hd. constructor. }
  pose proof (sub_pull_spec max now s I Hd) as H. destruct (sub_pull max now s) as [s' ls].
  destruct H as (_ & _ & _ & H4 & _). simpl. rewrite H4.
  generalize (s_next_ack s) as b. generalize 0%nat as st. generalize (length ls) as n.
  induction n as [|n IH]; intros st b; simpl; constructor; auto.
  apply Forall_forall. intros x Hx. apply in_map_iff in Hx as [i [<- Hi]]. apply in_seq in Hi. lia.
Qed.

(* Every ack id ever handed out by one subscription is larger than all earlier ones. *)
Theorem ack_ids_increasing os : forall s,
  sub_inv s ->
  StronglySorted N.lt (map l_ack (concat (snd (srun s os)))) /\
  (forall l, In l (concat (snd (srun s os))) -> s_next_ack s <= l_ack l).
Proof.
  induction os as [|o os IH]; intros s I; simpl.
  - split; [constructor|tauto].
  - pose proof (sstep_inv s o I) as I1. pose proof (sstep_acks_range s o) as R.
    pose proof (sstep_acks_sorted s o I) as S1. pose proof (sstep_next_ack s o I) as Mono.
    destruct (sstep s o) as [s1 d]. simpl in *.
    destruct (IH s1 I1) as [S2 L2]. destruct (srun s1 os) as [s2 ds]. simpl in *.
    split.
    + rewrite map_app. clear IH.
      assert (R' : forall l, In l d -> l_ack l < s_next_ack s1) by (intros l Hl; apply R; auto).
      clear R. induction d as [|x d IHd]; simpl; auto.
      inversion S1 as [|? ? S1' F1]; subst. constructor.
      * apply IHd; auto. intros l Hl. apply R'. right. assumption.
      * apply Forall_app. split; auto. apply Forall_forall. intros y Hy.
        apply in_map_iff in Hy as [l [<- Hl]]. specialize (L2 l Hl).
        specialize (R' x (or_introl eq_refl)). lia.
    + intros l Hl. apply in_app_iff in Hl as [Hl|Hl].
      * pose proof (sstep_acks_range_aux := I). specialize (R l I Hl). lia.
      * specialize (L2 l Hl). lia.
Qed.

(* ---------- lookups after modify ---------- *)
Definition relabel (l : lease) (d : N) : lease := {| l_ack := l_ack l; l_dl := d; l_msg := l_msg l |}.

Lemma tr_modify1_lookup t na acc a nd b :
  tr_inv t na ->
  alookup N.eqb b (tr_msgs (fst (tr_modify1 (t, acc) (a, nd)))) =
  if N.eqb b a then
    match alookup N.eqb a (tr_msgs t), nd with
    | Some l, Some d => Some (relabel l d)
    | _, _ => None
    end
  else alookup N.eqb b (tr_msgs t).
Proof.
  intros I. unfold tr_modify1. destruct (alookup N.eqb a (tr_msgs t)) as [l|] eqn:E.
  - pose proof (alookup_in _ _ _ E) as Hin.
    assert (Hk : In a (map fst (tr_msgs t))) by (apply in_map_iff; exists (a, l); auto).
    destruct nd as [d|]; simpl.
    + rewrite alookup_aupdate by assumption. destruct (N.eqb b a); reflexivity.
    + rewrite alookup_aremove by apply I. destruct (N.eqb b a); reflexivity.
  - simpl. destruct (N.eqb b a) eqn:E2; auto. apply N.eqb_eq in E2. subst. rewrite E. destruct nd; reflexivity.
Qed.

(* a modification list that names no live lease changes nothing *)
Lemma tr_modify_inert mods t :
  (forall a nd, In (a, nd) mods -> alookup N.eqb a (tr_msgs t) = None) ->
  tr_modify mods t = (t, []).
Proof.
  unfold tr_modify. generalize (@nil lease) as acc.
  induction mods as [|[a nd] mods IH]; intros acc H; cbn [fold_left]; auto.
  unfold tr_modify1 at 2. rewrite (H a nd) by (left; reflexivity). apply IH.
  intros b nb Hb. apply (H b nb). right. assumption.
Qed.

Lemma sub_modify_inert mods s :
  (forall a nd, In (a, nd) mods -> live s a = None) -> sub_modify mods s = s.
Proof.
  intros H. unfold sub_modify. destruct (s_deleted s); auto.
  rewrite tr_modify_inert by exact H. simpl. rewrite app_nil_r. destruct s; reflexivity.
Qed.

(* C05: one modification of a live lease *)
Lemma sub_modify_one s a nd l :
  sub_inv s -> s_deleted s = false -> live s a = Some l ->
  let s' := sub_modify [(a, nd)] s in
  s_next_ack s' = s_next_ack s /\
  (forall b, b <> a -> live s' b = live s b) /\
  match nd with
  | Some d => live s' a = Some (relabel l d) /\ s_backlog s' = s_backlog s
  | None => live s' a = None /\ s_backlog s' = s_backlog s ++ [l_msg l]
  end.
Proof.
  intros I Hd Hl. unfold sub_modify, live in *. rewrite Hd. unfold tr_modify. cbn [fold_left].
  pose proof (fun b => tr_modify1_lookup (s_tr s) _ [] a nd b I) as L.
  assert (Hn : snd (tr_modify1 (s_tr s, []) (a, nd)) = match nd with Some _ => [] | None => [l] end).
  { unfold tr_modify1. rewrite Hl. destruct nd; reflexivity. }
  destruct (tr_modify1 (s_tr s, []) (a, nd)) as [t' nacked]. simpl in *. subst nacked.
  split; [reflexivity|]. split.
  - intros b Hb. rewrite L. apply N.eqb_neq in Hb. rewrite Hb. reflexivity.
  - specialize (L a). rewrite N.eqb_refl, Hl in L. destruct nd; simpl; split; auto. apply app_nil_r.
Qed.

(* ---------- C04: expiry ---------- *)
Lemma sub_expire_spec now s :
  sub_inv s ->
  let s' := sub_expire now s in
  s_next_ack s' = s_next_ack s /\
  (forall a l, live s a = Some l ->
     (now < l_dl l -> live s' a = Some l) /\
     (l_dl l <= now -> live s' a = None /\ In (l_msg l) (s_backlog s'))) /\
  (forall a l, live s' a = Some l -> live s a = Some l /\ now < l_dl l) /\
  (exists back, s_backlog s' = s_backlog s ++ back /\
                forall m, In m back -> exists a l, live s a = Some l /\ l_dl l <= now /\ l_msg l = m).
Proof.
  intros I. unfold sub_expire, live, sub_inv in *. destruct (s_tr s) as [msgs exp] eqn:Et. simpl in *.
  destruct (take_expired_spec now _ exp msgs I) as (ls & e & m & H1 & H2 & H3 & H4 & H5).
  rewrite H1. simpl. split; [reflexivity|].
  pose proof (ti_nodup _ _ I) as ND. simpl in ND. pose proof (ti_nodup _ _ H2) as ND2. simpl in ND2.
  split; [|split].
  - intros a l Hl. apply alookup_in in Hl. destruct (H3 a l Hl) as [Ha Hb]. split.
    + intros Hlt. apply in_alookup; auto. apply Hb. assumption.
    + intros Hle. split.
      * destruct (alookup N.eqb a m) as [x|] eqn:E; auto. apply alookup_in in E.
        pose proof (H5 _ _ E) as E'. assert (x = l) by (apply (in_alookup _ _ _ ND) in E', Hl; congruence).
        subst x. apply Hb in E. lia.
      * apply in_app_iff. right. apply in_map. apply Ha. assumption.
  - intros a l Hl. apply alookup_in in Hl. pose proof (H5 _ _ Hl) as Hin. split.
    + apply in_alookup; auto.
    + apply (H3 a l Hin). assumption.
  - exists (map l_msg ls). split; [reflexivity|]. intros x Hx. apply in_map_iff in Hx as [l [<- Hl]].
    pose proof (H4 l Hl) as Hin. exists (l_ack l), l. split; [apply in_alookup; auto|]. split; auto.
    apply (H3 _ _ Hin). assumption.
Qed.

(* a turn that neither names lease a nor expires it leaves it alone *)
Definition touches (o : sop) (a : N) (dl : N) : bool :=
  match o with
  | OPost _ | OPull _ _ => false
  | OAck ids => existsb (N.eqb a) ids
  | OMod mods => existsb (fun m => N.eqb a (fst m)) mods
  | OExpire now => N.leb dl now
  end.

Lemma tr_modify_untouched mods : forall t na a,
  tr_inv t na -> existsb (fun m => N.eqb a (fst m)) mods = false ->
  alookup N.eqb a (tr_msgs (fst (tr_modify mods t))) = alookup N.eqb a (tr_msgs t).
Proof.
  unfold tr_modify. generalize (@nil lease) as acc.
  induction mods as [|[b nd] mods IH]; intros acc t na a I H; cbn [fold_left]; auto.
  simpl in H. apply orb_false_iff in H as [H1 H2].
  pose proof (tr_modify1_lookup t na acc b nd a I) as L. pose proof (tr_modify1_inv t na acc (b, nd) I) as I1.
  destruct (tr_modify1 (t, acc) (b, nd)) as [t1 acc1]. simpl in *.
  rewrite (IH acc1 t1 na a I1 H2). rewrite L, H1. reflexivity.
Qed.

Lemma lease_stable s o a l :
  sub_inv s -> live s a = Some l -> touches o a (l_dl l) = false ->
  live (fst (sstep s o)) a = Some l.
Proof.
  intros I Hl Ht. assert (Hd : s_deleted s = false \/ s_deleted s = true) by (destruct (s_deleted s); auto).
  destruct o; simpl in *.
  - unfold sub_post, live in *. destruct (s_deleted s); assumption.
  - destruct Hd as [Hd|Hd].
    + pose proof (sub_pull_spec max now s I Hd) as H. destruct (sub_pull max now s) as [s' ls].
      destruct H as (_ & _ & _ & _ & _ & _ & H7). simpl. unfold live in *. rewrite H7.
      clear - Hl. induction (tr_msgs (s_tr s)) as [|[k x] m IH]; simpl in *; [discriminate|].
      destruct (N.eqb a k); auto.
    + unfold sub_pull. rewrite Hd. assumption.
  - destruct Hd as [Hd|Hd].
    + destruct (sub_ack_frame ids s I Hd) as (_ & _ & H). rewrite H, Ht. assumption.
    + unfold sub_ack. rewrite Hd. assumption.
  - unfold sub_modify. destruct (s_deleted s); [assumption|].
    pose proof (tr_modify_untouched mods (s_tr s) _ a I Ht) as H. destruct (tr_modify mods (s_tr s)) as [t' n].
    unfold live in *. simpl in *. congruence.
  - apply N.leb_gt in Ht. destruct (sub_expire_spec now s I) as (_ & H & _). apply (H a l Hl). assumption.
Qed.

(* ---------- identities of messages ---------- *)
Lemma NoDup_app_disjoint {A} (l1 l2 : list A) x : NoDup (l1 ++ l2) -> In x l1 -> In x l2 -> False.
Proof.
  induction l1 as [|y l1 IH]; simpl; [tauto|]. intros ND [->|H1] H2.
  - inversion ND as [|? ? Hn _]; subst. apply Hn. apply in_app_iff. auto.
  - inversion ND; subst. eauto.
Qed.

Lemma NoDup_app_l {A} (l1 l2 : list A) : NoDup (l1 ++ l2) -> NoDup l1.
Proof. induction l1 as [|y l1 IH]; simpl; intros ND; [constructor|]. inversion ND; subst. constructor; auto.
  intros H. apply H1. apply in_app_iff. auto. Qed.

Lemma NoDup_app_r {A} (l1 l2 : list A) : NoDup (l1 ++ l2) -> NoDup l2.
Proof. induction l1 as [|y l1 IH]; simpl; intros ND; auto. inversion ND; subst. auto. Qed.

Definition ids (ms : list msg) : list N := map m_id ms.

(* While the ids a subscription holds are pairwise distinct, a leased message
   is not in the backlog, so no pull can hand it out (C03 exclusive lease). *)
Lemma leased_not_in_backlog s a l :
  NoDup (ids (held s)) -> live s a = Some l -> ~ In (m_id (l_msg l)) (ids (s_backlog s)).
Proof.
  unfold held, ids, live. rewrite map_app. intros ND Hl Hin. apply alookup_in in Hl.
  apply (NoDup_app_disjoint _ _ (m_id (l_msg l)) ND); auto.
  unfold out_msgs. rewrite map_map. apply in_map_iff. exists (a, l). auto.
Qed.

(* Turns other than a post never bring a message in: what is held afterwards
   was held before. *)
Lemma sstep_held_subset s o m :
  sub_inv s -> (forall ms, o <> OPost ms) -> In m (held (fst (sstep s o))) -> In m (held s).
Proof.
  intros I Hnp. destruct o; simpl.
  - exfalso. eapply Hnp; reflexivity.
  - intros H. eapply Permutation_in; [apply sub_pull_held; assumption|exact H].
  - intros H. destruct (sub_ack_held ids0 s I) as [gone [P _]].
    eapply Permutation_in; [symmetry; exact P|]. apply in_app_iff. auto.
  - intros H. eapply Permutation_in; [apply sub_modify_held; assumption|exact H].
  - intros H. eapply Permutation_in; [apply sub_expire_held; assumption|exact H].
Qed.

Lemma sstep_post_held s ms m :
  In m (held (fst (sstep s (OPost ms)))) -> In m (held s) \/ In m ms.
Proof.
  simpl. unfold sub_post. destruct (s_deleted s) eqn:Hd; auto.
  unfold held, out_msgs. simpl. rewrite !in_app_iff. tauto.
Qed.

(* deliveries come out of what was held *)
Lemma sstep_delivers_held s o l :
  sub_inv s -> In l (snd (sstep s o)) -> In (l_msg l) (s_backlog s).
Proof.
  intros I. destruct o; simpl; try tauto.
  destruct (s_deleted s) eqn:Hd.
  { unfold sub_pull. rewrite Hd. simpl. tauto. }
  pose proof (sub_pull_spec max now s I Hd) as H. destruct (sub_pull max now s) as [s' ls].
  destruct H as (H1 & _). simpl. intros Hl. apply (in_map l_msg) in Hl. rewrite H1 in Hl.
  rewrite <- (skip_take_N (pull_count max (len_N (s_backlog s))) (s_backlog s)). apply in_app_iff. auto.
Qed.

(* NoDup of held ids is preserved as long as posts bring new ids *)
Lemma perm_ids a b : Permutation a b -> Permutation (ids a) (ids b).
Proof. apply Permutation_map. Qed.

Lemma sstep_nodup s o :
  sub_inv s -> NoDup (ids (held s) ++ ids (posted [o])) -> NoDup (ids (held (fst (sstep s o)))).
Proof.
  intros I ND. destruct o; simpl in *; rewrite ?app_nil_r in ND.
  - unfold sub_post. destruct (s_deleted s) eqn:Hd; [apply NoDup_app_l in ND; assumption|].
    unfold held, out_msgs, ids in *. simpl. rewrite !map_app in *.
    eapply Permutation_NoDup; [|exact ND]. rewrite <- !app_assoc. apply Permutation_app_head.
    apply Permutation_app_comm.
  - eapply Permutation_NoDup; [symmetry; apply perm_ids, sub_pull_held; assumption|assumption].
  - destruct (sub_ack_held ids0 s I) as [gone [P _]]. apply perm_ids in P. unfold ids in P. rewrite map_app in P.
    eapply Permutation_NoDup in ND; [|exact P]. apply NoDup_app_r in ND. assumption.
  - eapply Permutation_NoDup; [symmetry; apply perm_ids, sub_modify_held; assumption|assumption].
  - eapply Permutation_NoDup; [symmetry; apply perm_ids, sub_expire_held; assumption|assumption].
Qed.

(* ---------- C02: an acknowledged message is never delivered again ---------- *)

(* a message id that is neither held nor posted later is never delivered *)
Lemma absent_never_delivered os : forall s i,
  sub_inv s -> ~ In i (ids (held s)) -> ~ In i (ids (posted os)) ->
  forall l, In l (concat (snd (srun s os))) -> m_id (l_msg l) <> i.
Proof.
  induction os as [|o os IH]; intros s i I Hh Hp l; simpl; [tauto|].
  pose proof (sstep_inv s o I) as I1. pose proof (sstep_delivers_held s o) as D.
  assert (Hh1 : ~ In i (ids (held (fst (sstep s o))))).
  { intros Hin. apply in_map_iff in Hin as [m [Hm Hin]].
    destruct o as [ms| | | |].
    - apply sstep_post_held in Hin as [Hin|Hin].
      + apply Hh. apply in_map_iff. eauto.
      + apply Hp. simpl. unfold ids. rewrite map_app. apply in_app_iff. left. apply in_map_iff. eauto.
    - apply sstep_held_subset in Hin; auto; [|discriminate]. apply Hh. apply in_map_iff. eauto.
    - apply sstep_held_subset in Hin; auto; [|discriminate]. apply Hh. apply in_map_iff. eauto.
    - apply sstep_held_subset in Hin; auto; [|discriminate]. apply Hh. apply in_map_iff. eauto.
    - apply sstep_held_subset in Hin; auto; [|discriminate]. apply Hh. apply in_map_iff. eauto. }
  assert (Hp1 : ~ In i (ids (posted os))).
  { intros Hin. apply Hp. simpl. unfold ids in *. rewrite map_app. apply in_app_iff. auto. }
  destruct (sstep s o) as [s1 d]. simpl in *.
  specialize (IH s1 i I1 Hh1 Hp1). destruct (srun s1 os) as [s2 ds]. simpl in *.
  intros Hl. apply in_app_iff in Hl as [Hl|Hl]; [|apply IH; assumption].
  intros E. apply Hh. specialize (D l I Hl). unfold held, ids. rewrite map_app. apply in_app_iff. left.
  rewrite <- E. apply in_map. assumption.
Qed.

(* After an Ack that names a live lease, that message is gone from the subscription. *)
Lemma acked_gone s acks a l :
  sub_inv s -> s_deleted s = false -> NoDup (ids (held s)) ->
  In a acks -> live s a = Some l -> ~ In (m_id (l_msg l)) (ids (held (sub_ack acks s))).
Proof.
  intros I Hd ND Ha Hl Hin.
  destruct (sub_ack_frame acks s I Hd) as (Hb & _ & Hlk).
  unfold held, ids in Hin. rewrite map_app in Hin. apply in_app_iff in Hin as [Hin|Hin].
  - rewrite Hb in Hin. eapply leased_not_in_backlog; eauto.
  - unfold out_msgs in Hin. rewrite map_map in Hin. apply in_map_iff in Hin as [[b x] [Hx1 Hx2]]. simpl in Hx1.
    pose proof (sub_ack_inv acks s I) as I'.
    assert (Hx3 : live (sub_ack acks s) b = Some x) by (apply in_alookup; [apply I'|assumption]).
    rewrite Hlk in Hx3. destruct (existsb (N.eqb b) acks) eqn:Eb; [discriminate|].
    (* (b,x) and (a,l) are both live in s with the same message id: same entry *)
    assert (b <> a).
    { intros ->. assert (existsb (N.eqb a) acks = true) by (apply existsb_exists; exists a; split; auto; apply N.eqb_refl).
      congruence. }
    unfold live in *. apply alookup_in in Hx3, Hl.
    unfold held, ids, out_msgs in ND. rewrite map_app, map_map in ND. apply NoDup_app_r in ND.
    clear - ND Hx3 Hl Hx1 H.
    induction (tr_msgs (s_tr s)) as [|[k y] m IH]; simpl in *; [tauto|].
    inversion ND as [|? ? Hn ND']; subst.
    destruct Hx3 as [E1|E1], Hl as [E2|E2].
    + congruence.
    + injection E1 as -> ->. apply Hn. rewrite Hx1. apply in_map_iff. exists (a, l). auto.
    + injection E2 as -> ->. apply Hn. rewrite <- Hx1. apply in_map_iff. exists (b, x). auto.
    + auto.
Qed.

(* C02, over every continuation: once an Ack naming a live lease has been
   processed, no later turn sequence delivers that message again - provided
   later posts never repeat its id (a topic never reuses an id: CodecP,
   ServerP). *)
Theorem acked_never_redelivered s acks a l os :
  sub_inv s -> s_deleted s = false -> NoDup (ids (held s)) ->
  In a acks -> live s a = Some l -> ~ In (m_id (l_msg l)) (ids (posted os)) ->
  forall l', In l' (concat (snd (srun (sub_ack acks s) os))) -> m_id (l_msg l') <> m_id (l_msg l).
Proof.
  intros I Hd ND Ha Hl Hp. apply absent_never_delivered; auto.
  - apply sub_ack_inv. assumption.
  - eapply acked_gone; eauto.
Qed.

(* ---------- C01: conservation over a whole history ---------- *)
Theorem srun_conservation os : forall s,
  sub_inv s -> s_deleted s = false ->
  exists gone, Permutation (held s ++ posted os) (gone ++ held (fst (srun s os))).
Proof.
  induction os as [|o os IH]; intros s I Hd; simpl.
  - exists []. rewrite app_nil_r. reflexivity.
  - pose proof (sstep_inv s o I) as I1. pose proof (sstep_deleted s o) as D1.
    assert (P1 : exists g1, Permutation (held s ++ posted [o]) (g1 ++ held (fst (sstep s o)))).
    { destruct o; simpl; rewrite ?app_nil_r.
      - exists []. simpl. symmetry. apply sub_post_held. assumption.
      - exists []. simpl. symmetry. apply sub_pull_held. assumption.
      - destruct (sub_ack_held ids0 s I) as [g [P _]]. exists g. exact P.
      - exists []. simpl. symmetry. apply sub_modify_held. assumption.
      - exists []. simpl. symmetry. apply sub_expire_held. assumption. }
    destruct P1 as [g1 P1]. simpl in P1. rewrite app_nil_r in P1.
    destruct (sstep s o) as [s1 d]. simpl in *. rewrite Hd in D1.
    destruct (IH s1 I1 D1) as [g2 P2]. destruct (srun s1 os) as [s2 ds]. simpl in *.
    exists (g1 ++ g2). rewrite app_assoc. rewrite P1. rewrite <- !app_assoc. apply Permutation_app_head.
    exact P2.
Qed.

(* C01/C04: once every deadline has passed, everything held is back in the queue *)
Lemma expire_all now s :
  sub_inv s -> (forall a l, live s a = Some l -> l_dl l <= now) ->
  tr_msgs (s_tr (sub_expire now s)) = [] /\ Permutation (s_backlog (sub_expire now s)) (held s).
Proof.
  intros I H. destruct (sub_expire_spec now s I) as (_ & _ & H3 & _).
  assert (E : tr_msgs (s_tr (sub_expire now s)) = []).
  { destruct (tr_msgs (s_tr (sub_expire now s))) as [|[a l] m] eqn:Em; auto. exfalso.
    pose proof (sub_expire_inv now s I) as I'.
    assert (Hl : live (sub_expire now s) a = Some l).
    { apply in_alookup; [apply I'|]. rewrite Em. left. reflexivity. }
    destruct (H3 a l Hl) as [Hl0 Hlt]. specialize (H a l Hl0). lia. }
  split; auto. pose proof (sub_expire_held now s I) as P. unfold held at 1, out_msgs in P. rewrite E in P.
  simpl in P. rewrite app_nil_r in P. exact P.
Qed.
