(* Corollaries of the actor-model invariants at ARBITRARY reachable states (not
   only quiescent ones), added after the delegated development: what a caller
   may rely on once its CreateSubscription has returned. *)
From Coq Require Import List NArith Arith Bool Lia.
Import ListNotations.
From Deltio Require Import Model.ConcActors Proofs.ConcActorsP.

(* CreateSubscription answers its caller when the attach task ends (the caller
   awaits the task).  So "the create has returned" implies "no attach task of
   this subscription is unfinished".  From then on, at every reachable state,
   under every interleaving with other requests, arrivals and drops: the
   subscription is attached to its topic unless it has been marked deleted or
   its topic is dead - so every Publish that the topic handles from now on
   posts to it (C01: attached throughout every later Publish; C10: once a
   create has returned every later request observes it). *)
Theorem created_is_attached : forall cfg st,
  reachable cfg st ->
  forall s sb, nth_error (subs st) s = Some sb ->
    ~ attach_pending st s ->
    s_deleted sb = false -> topic_alive st (s_topic sb) = true ->
    attached st s sb.
Proof.
  intros cfg st R s sb Hs Hp Hd Ha.
  destruct (inv_c16_reachable R) as (_ & _ & _ & _ & _ & I).
  destruct (I _ _ Hs) as [A|[D|[L|P]]]; auto; try congruence; try contradiction.
Qed.

(* the premise is not vacuous: a create that ran to completion *)
Example created_is_attached_witness :
  exists st sb, reachable (cfg_fixed 16) st /\ nth_error (subs st) 0 = Some sb /\
    ~ attach_pending st 0 /\ s_deleted sb = false /\ topic_alive st (s_topic sb) = true /\
    nth_error (clients st) 0 = Some (CDone true).
Proof.
  destruct (run (cfg_fixed 16) init [LArrive ANewTopic; LArrive (ACreate 0); LHSend 0; LTDeq 0]) as [st|] eqn:E;
    [|vm_compute in E; discriminate].
  exists st. vm_compute in E. injection E as <-.
  eexists. split.
  - eapply run_reachable with (ls := [LArrive ANewTopic; LArrive (ACreate 0); LHSend 0; LTDeq 0]);
      [apply reach_init|vm_compute; reflexivity].
  - split; [reflexivity|]. split.
    + intros (h & hp & Hh & Hs & Hp). destruct h as [|h]; cbn in Hh.
      * injection Hh as <-. apply Hp. reflexivity.
      * destruct h; discriminate.
    + repeat split; reflexivity.
Qed.
Print Assumptions created_is_attached.

(* Nothing ever gets in front of a request that sits in a topic's mailbox: across any step (arrivals, drops, other
   actors' turns) the requests ahead of it stay the same or lose their head by the topic's own dequeue; what arrives
   goes behind it.  So a request at position p is taken after exactly p+1 dequeues of its topic, however many
   requests keep arriving: bounded overtaking, which "bounded work between two environment events" alone does not
   give under a load that never stops. *)
Theorem no_overtaking_topic : forall cfg st l st' t tp pre r post,
  step cfg st l = Some st' -> nth_error (topics st) t = Some tp ->
  t_mbox tp = pre ++ r :: post ->
  exists tp', nth_error (topics st') t = Some tp' /\
    ((exists new, t_mbox tp' = pre ++ r :: post ++ new) \/
     (l = LTDeq t /\ exists m pre', pre = m :: pre' /\ t_mbox tp' = pre' ++ r :: post) \/
     (l = LTDeq t /\ pre = [] /\ t_mbox tp' = post)).
Proof.
  intros cfg st l st' t tp pre r post Hs Hn Hm.
  destruct (@C16_effect_topic cfg st l st' t tp Hs Hn) as [tp' [Hn' [[new Hnew]|[Hl [m Hdeq]]]]].
  - exists tp'. split; [exact Hn'|]. left. exists new. rewrite Hnew, Hm. rewrite <- app_assoc. reflexivity.
  - exists tp'. split; [exact Hn'|]. rewrite Hm in Hdeq. destruct pre as [|p pre'].
    + right. right. cbn in Hdeq. injection Hdeq as _ Hpost. auto.
    + right. left. cbn in Hdeq. injection Hdeq as Hp Hrest. split; [exact Hl|]. exists p, pre'. split; [reflexivity|].
      symmetry. exact Hrest.
Qed.

(* the same for a subscription's mailbox (which is also cleared when the subscription's actor exits) *)
Theorem no_overtaking_sub : forall cfg st l st' s sb pre r post,
  step cfg st l = Some st' -> nth_error (subs st) s = Some sb ->
  s_mbox sb = pre ++ r :: post ->
  exists sb', nth_error (subs st') s = Some sb' /\
    ((exists new, s_mbox sb' = pre ++ r :: post ++ new) \/
     (l = LSDeq s /\ exists m pre', pre = m :: pre' /\ s_mbox sb' = pre' ++ r :: post) \/
     (l = LSDeq s /\ pre = [] /\ s_mbox sb' = post) \/
     (l = LSFinish s /\ s_phase sb' = SExited /\ s_mbox sb' = [])).
Proof.
  intros cfg st l st' s sb pre r post Hs Hn Hm.
  destruct (@C16_effect_sub cfg st l st' s sb Hs Hn) as [sb' [Hn' [[new Hnew]|[[Hl [m Hdeq]]|Hfin]]]].
  - exists sb'. split; [exact Hn'|]. left. exists new. rewrite Hnew, Hm. rewrite <- app_assoc. reflexivity.
  - exists sb'. split; [exact Hn'|]. rewrite Hm in Hdeq. destruct pre as [|p pre'].
    + right. right. left. cbn in Hdeq. injection Hdeq as _ Hpost. auto.
    + right. left. cbn in Hdeq. injection Hdeq as Hp Hrest. split; [exact Hl|]. exists p, pre'. split; [reflexivity|].
      symmetry. exact Hrest.
  - exists sb'. split; [exact Hn'|]. right. right. right. exact Hfin.
Qed.
