(* Proofs about Model/Mailbox.v: with the orderly shutdown (New) no message is ever stranded and everybody who got
   a slot gets an answer; with the plain drop (Old) a stranded message is reachable with one sender. *)
From Coq Require Import List Arith Bool Lia.
Import ListNotations.
From Deltio Require Import Model.Mailbox.

Lemma filter_set_nth (f : sender -> bool) (l : list sender) i old x :
  nth_error l i = Some old ->
  length (filter f (set_nth l i x)) + (if f old then 1 else 0) =
  length (filter f l) + (if f x then 1 else 0).
Proof.
  revert i. induction l as [|y r IH]; intros i Hn.
  - destruct i; discriminate.
  - destruct i as [|k]; cbn in Hn.
    + injection Hn as ->. cbn. destruct (f old), (f x); cbn; lia.
    + specialize (IH k Hn). cbn. destruct (f y); cbn; lia.
Qed.

Lemma nth_set_nth_same (l : list sender) i x old :
  nth_error l i = Some old -> nth_error (set_nth l i x) i = Some x.
Proof.
  revert i. induction l as [|y r IH]; intros i Hn; destruct i; cbn in *; try discriminate; auto.
Qed.

Lemma nth_set_nth_other (l : list sender) i j x :
  i <> j -> nth_error (set_nth l i x) j = nth_error l j.
Proof.
  revert i j. induction l as [|y r IH]; intros i j Hne; destruct i, j; cbn; auto; try congruence.
Qed.

Lemma reserved_pos (s : state) i : nth_error (senders s) i = Some SReserved -> 0 < reserved s.
Proof.
  unfold reserved. generalize (senders s). intros l. revert i.
  induction l as [|y r IH]; intros i Hn; destruct i; cbn in *; try discriminate.
  - injection Hn as ->. cbn. lia.
  - specialize (IH i Hn). destruct (is_reserved y); cbn; lia.
Qed.

Lemma reserved_exists (s : state) : 0 < reserved s -> exists i, nth_error (senders s) i = Some SReserved.
Proof.
  unfold reserved. generalize (senders s). intros l.
  induction l as [|y r IH]; cbn; intros H; [lia|].
  destruct y; cbn in H; try (destruct (IH H) as [i Hi]; exists (S i); exact Hi).
  exists 0. reflexivity.
Qed.

Definition running (r : rx) : bool := match r with RRunning => true | _ => false end.

Record inv (p : proto) (s : state) : Prop := {
  i_closed : closed s = negb (running (rcv s));
  i_pushed : forall i, nth_error (senders s) i = Some SPushed -> In i (queue s ++ received s);
  i_gone : p = New -> rcv s = RGone -> queue s = [] /\ reserved s = 0
}.

Lemma nth_repeat_idle n i x : nth_error (repeat SIdle n) i = Some x -> x = SIdle.
Proof.
  revert i. induction n as [|n IH]; intros i H; destruct i; cbn in H; try discriminate.
  - injection H as <-. reflexivity.
  - eapply IH; eauto.
Qed.

Lemma inv_init p n : inv p (init n).
Proof.
  constructor; cbn.
  - reflexivity.
  - intros i H. apply nth_repeat_idle in H. discriminate.
  - intros _ H. discriminate.
Qed.

Lemma inv_step p K s l s' : inv p s -> step p K s l = Some s' -> inv p s'.
Proof.
  intros [Hc Hp Hg] Hs. destruct l as [i|i|i| | | |]; unfold step in Hs.
  - (* reserve *)
    destruct (nth_error (senders s) i) as [[| | |]|] eqn:Hn; try discriminate.
    destruct (negb (closed s) && Nat.ltb (length (queue s) + reserved s) K) eqn:Hb; [|discriminate].
    injection Hs as <-. apply andb_prop in Hb. destruct Hb as [Hcl _]. apply negb_true_iff in Hcl.
    constructor; cbn.
    + exact Hc.
    + intros j Hj. destruct (Nat.eq_dec i j) as [->|Hne].
      * rewrite (nth_set_nth_same _ _ _ _ Hn) in Hj. discriminate.
      * rewrite (nth_set_nth_other _ _ _ _ Hne) in Hj. auto.
    + intros Hnew Hr. rewrite Hc, Hr in Hcl. discriminate.
  - (* refuse *)
    destruct (nth_error (senders s) i) as [[| | |]|] eqn:Hn; try discriminate.
    destruct (closed s) eqn:Hcl; [|discriminate]. injection Hs as <-.
    constructor; cbn.
    + rewrite Hcl. exact Hc.
    + intros j Hj. destruct (Nat.eq_dec i j) as [->|Hne].
      * rewrite (nth_set_nth_same _ _ _ _ Hn) in Hj. discriminate.
      * rewrite (nth_set_nth_other _ _ _ _ Hne) in Hj. auto.
    + intros Hnew Hr. destruct (Hg Hnew Hr) as [Hq Hres]. split; [exact Hq|].
      unfold reserved in *. cbn.
      pose proof (filter_set_nth is_reserved (senders s) i SIdle SRefused Hn) as H. cbn in H. lia.
  - (* push *)
    destruct (nth_error (senders s) i) as [[| | |]|] eqn:Hn; try discriminate.
    injection Hs as <-. constructor; cbn.
    + exact Hc.
    + intros j Hj. destruct (Nat.eq_dec i j) as [->|Hne].
      * rewrite <- app_assoc. apply in_or_app. right. apply in_or_app. left. left. reflexivity.
      * rewrite (nth_set_nth_other _ _ _ _ Hne) in Hj. specialize (Hp j Hj).
        apply in_app_or in Hp. destruct Hp as [Hq|Hr].
        -- apply in_or_app. left. apply in_or_app. left. exact Hq.
        -- apply in_or_app. right. exact Hr.
    + intros Hnew Hr. destruct (Hg Hnew Hr) as [_ Hres].
      pose proof (reserved_pos s i Hn). lia.
  - (* serve *)
    destruct (rcv s) eqn:Hr; try discriminate. destruct (queue s) as [|m q] eqn:Hq; [discriminate|].
    injection Hs as <-. constructor; cbn.
    + exact Hc.
    + intros j Hj. specialize (Hp j Hj). cbn in Hp.
      destruct Hp as [<-|Hp].
      * apply in_or_app. right. apply in_or_app. right. left. reflexivity.
      * apply in_app_or in Hp. destruct Hp as [H1|H1].
        -- apply in_or_app. left. exact H1.
        -- apply in_or_app. right. apply in_or_app. left. exact H1.
    + intros _ H. discriminate.
  - (* close *)
    destruct (rcv s) eqn:Hr; try discriminate. injection Hs as <-. constructor; cbn.
    + reflexivity.
    + exact Hp.
    + intros _ H. discriminate.
  - (* pop *)
    destruct (rcv s) eqn:Hr; try discriminate. destruct (queue s) as [|m q] eqn:Hq; [discriminate|].
    injection Hs as <-. constructor; cbn.
    + exact Hc.
    + intros j Hj. specialize (Hp j Hj). cbn in Hp.
      destruct Hp as [<-|Hp].
      * apply in_or_app. right. apply in_or_app. right. left. reflexivity.
      * apply in_app_or in Hp. destruct Hp as [H1|H1].
        -- apply in_or_app. left. exact H1.
        -- apply in_or_app. right. apply in_or_app. left. exact H1.
    + intros _ H. discriminate.
  - (* gone *)
    destruct (rcv s) eqn:Hr; try discriminate. destruct (queue s) as [|m q] eqn:Hq; [|discriminate].
    destruct p.
    + injection Hs as <-. constructor; cbn.
      * cbn in Hc. exact Hc.
      * intros j Hj. specialize (Hp j Hj). exact Hp.
      * intros H. discriminate.
    + destruct (Nat.eqb (reserved s) 0) eqn:He; [|discriminate]. injection Hs as <-.
      apply Nat.eqb_eq in He. constructor; cbn.
      * cbn in Hc. exact Hc.
      * intros j Hj. specialize (Hp j Hj). exact Hp.
      * intros _ _. split; [reflexivity|]. unfold reserved in *. cbn. exact He.
Qed.

Lemma inv_run p K s ls s' : inv p s -> run p K s ls = Some s' -> inv p s'.
Proof.
  revert s. induction ls as [|l r IH]; intros s Hi Hr; cbn in Hr.
  - injection Hr as <-. exact Hi.
  - destruct (step p K s l) as [s1|] eqn:Hs; [|discriminate]. eapply IH; [|exact Hr]. eapply inv_step; eauto.
Qed.

Lemma inv_reachable p K n s : reachable p K n s -> inv p s.
Proof. intros [ls Hr]. eapply inv_run; [apply inv_init|exact Hr]. Qed.

(* ---- the orderly shutdown ---- *)

Theorem new_never_stranded K n s : reachable New K n s -> ~ stranded s.
Proof.
  intros Hr [Hg [Hq|Hres]]; destruct (i_gone _ _ (inv_reachable _ _ _ _ Hr) eq_refl Hg) as [Hq0 Hr0].
  - contradiction.
  - lia.
Qed.

(* everybody who was let in has been taken out by the receiver (served, or - during the shutdown - dropped, which
   the caller sees as the 'closed' error): nobody waits for ever *)
Theorem new_everyone_answered K n s i :
  reachable New K n s -> rcv s = RGone ->
  match nth_error (senders s) i with
  | Some SPushed => answered s i
  | Some SReserved => False
  | _ => True
  end.
Proof.
  intros Hr Hg. pose proof (inv_reachable _ _ _ _ Hr) as Hi.
  destruct (i_gone _ _ Hi eq_refl Hg) as [Hq Hres].
  destruct (nth_error (senders s) i) as [[| | |]|] eqn:Hn; auto.
  - pose proof (reserved_pos s i Hn). lia.
  - pose proof (i_pushed _ _ Hi i Hn) as H. rewrite Hq in H. exact H.
Qed.

(* the shutdown always gets on: while the receiver is closing down some step is enabled ... *)
Theorem new_drain_progress K s : rcv s = RDraining -> exists l s', step New K s l = Some s'.
Proof.
  intros Hr. destruct (queue s) as [|m q] eqn:Hq.
  - destruct (Nat.eq_dec (reserved s) 0) as [He|Hne].
    + exists LGone. eexists. cbn. rewrite Hr, Hq, He. reflexivity.
    + destruct (reserved_exists s) as [i Hi]; [lia|]. exists (LPush i). eexists. cbn. rewrite Hi. reflexivity.
  - exists LPop. eexists. cbn. rewrite Hr, Hq. reflexivity.
Qed.

(* ... and it ends: after the close every step other than the last one uses up a message, a slot or a sender *)
Definition is_idle (x : sender) : bool := match x with SIdle => true | _ => false end.
Definition drain_measure (s : state) : nat :=
  2 * reserved s + length (queue s) + length (filter is_idle (senders s)).

Theorem new_drain_decreases p K s l s' :
  inv p s -> closed s = true -> step p K s l = Some s' -> l <> LGone -> drain_measure s' < drain_measure s.
Proof.
  intros Hi Hcl Hs Hl. unfold drain_measure. destruct l as [i|i|i| | | |]; unfold step in Hs.
  - destruct (nth_error (senders s) i) as [[| | |]|]; try discriminate. rewrite Hcl in Hs. cbn in Hs. discriminate.
  - destruct (nth_error (senders s) i) as [[| | |]|] eqn:Hn; try discriminate. rewrite Hcl in Hs. injection Hs as <-.
    unfold reserved; cbn.
    pose proof (filter_set_nth is_reserved (senders s) i SIdle SRefused Hn) as H1.
    pose proof (filter_set_nth is_idle (senders s) i SIdle SRefused Hn) as H2. cbn in H1, H2. lia.
  - destruct (nth_error (senders s) i) as [[| | |]|] eqn:Hn; try discriminate. injection Hs as <-.
    unfold reserved; cbn. rewrite app_length. cbn.
    pose proof (filter_set_nth is_reserved (senders s) i SReserved SPushed Hn) as H1.
    pose proof (filter_set_nth is_idle (senders s) i SReserved SPushed Hn) as H2. cbn in H1, H2. lia.
  - destruct (rcv s) eqn:Hr; try discriminate. rewrite (i_closed _ _ Hi), Hr in Hcl. discriminate.
  - destruct (rcv s) eqn:Hr; try discriminate. rewrite (i_closed _ _ Hi), Hr in Hcl. discriminate.
  - destruct (rcv s) eqn:Hr; try discriminate. destruct (queue s) as [|m q] eqn:Hq; [discriminate|].
    injection Hs as <-. unfold reserved; cbn. lia.
  - contradiction.
Qed.

(* ---- the plain drop ---- *)

Definition old_schedule : list label := [LReserve 0; LClose; LGone; LPush 0].

Theorem old_strands :
  exists s, run Old 1 (init 1) old_schedule = Some s /\ stranded s /\
            nth_error (senders s) 0 = Some SPushed /\ ~ answered s 0.
Proof.
  eexists. split; [vm_compute; reflexivity|]. split; [|split].
  - split; [reflexivity|]. left. discriminate.
  - reflexivity.
  - intros [].
Qed.

(* the same schedule under the orderly shutdown: the receiver cannot leave while the slot is outstanding; it takes
   the late message out and only then goes *)
Theorem new_same_schedule :
  run New 1 (init 1) [LReserve 0; LClose; LGone] = None /\
  exists s, run New 1 (init 1) [LReserve 0; LClose; LPush 0; LPop; LGone] = Some s /\
            rcv s = RGone /\ answered s 0.
Proof.
  split; [vm_compute; reflexivity|]. eexists. split; [vm_compute; reflexivity|]. split; [reflexivity|].
  left. reflexivity.
Qed.
