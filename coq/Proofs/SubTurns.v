(* What each subscription-actor turn does: invariant preservation, frame
   conditions, conservation of messages.  Everything here is per actor; the
   server model applies these turns one at a time. *)
From Deltio Require Import Model.Base Model.Time Model.Codec Model.Sub Proofs.BaseP Proofs.TimeP Proofs.CodecP Proofs.SubP.
Require Import ZifyBool ZifyN ZifyNat Sorting.Permutation.

Definition sub_inv (s : sub) : Prop := tr_inv (s_tr s) (s_next_ack s).

Definition out_msgs (s : sub) : list msg := map (fun p => l_msg (snd p)) (tr_msgs (s_tr s)).
(* every message the subscription currently holds: queued or leased *)
Definition held (s : sub) : list msg := s_backlog s ++ out_msgs s.
Definition live (s : sub) (a : N) : option lease := alookup N.eqb a (tr_msgs (s_tr s)).

Lemma sub_new_inv n uid topic ackdl push : sub_inv (sub_new n uid topic ackdl push).
Proof. apply tr_inv_empty. Qed.

(* ---------- skip/take bridges ---------- *)
Lemma skip_take_N {A} n (l : list A) : take_N n l ++ skip_N n l = l.
Proof.
  revert n; induction l as [|x l IH]; intros n; simpl; [reflexivity|].
  destruct (N.eqb n 0); simpl; [reflexivity|]. f_equal. apply IH.
Qed.

Lemma take_N_len {A} n (l : list A) : len_N (take_N n l) = N.min n (len_N l).
Proof.
  unfold len_N. revert n; induction l as [|x l IH]; intros n; simpl; [lia|].
  destruct (N.eqb n 0) eqn:E; simpl; [lia|]. specialize (IH (n - 1)). lia.
Qed.

(* ---------- lease_out ---------- *)
Lemma lease_out_spec dl ms : forall na t,
  tr_inv t na ->
  let '(ls, t', na') := lease_out dl na ms t in
  tr_inv t' na' /\ na' = na + len_N ms /\ map l_msg ls = ms /\
  map l_ack ls = map (fun i => na + N.of_nat i) (seq 0 (length ms)) /\
  (forall l, In l ls -> l_dl l = dl) /\
  tr_msgs t' = tr_msgs t ++ map (fun l => (l_ack l, l)) ls.
Proof.
  induction ms as [|m ms IH]; intros na t I; cbn [lease_out].
  - unfold len_N; simpl. rewrite app_nil_r. split; [assumption|]. split; [lia|]. split; [reflexivity|].
    split; [reflexivity|]. split; [intros l []|reflexivity].
  - set (l := {| l_ack := na; l_dl := dl; l_msg := m |}).
    assert (I1 : tr_inv (tr_add l t) (na + 1)) by (apply tr_add_inv; auto).
    specialize (IH (na + 1) (tr_add l t) I1).
    destruct (lease_out dl (na + 1) ms (tr_add l t)) as [[ls t'] na'].
    destruct IH as (H1 & H2 & H3 & H4 & H5 & H6).
    split; [assumption|]. split; [unfold len_N in *; simpl length; lia|].
    split; [simpl; congruence|]. split.
    + cbn [map seq length]. f_equal; [simpl; lia|]. rewrite H4. rewrite <- seq_shift, map_map.
      apply map_ext. intros i. lia.
    + split.
      * intros x [<-|Hx]; auto.
      * rewrite H6. unfold tr_add at 1. cbn [tr_msgs].
        assert (Hfresh : alookup N.eqb (l_ack l) (tr_msgs t) = None).
        { apply alookup_none. intros Hin. apply in_map_iff in Hin as [[a x] [Hx1 Hx2]].
          simpl in Hx1. subst a. pose proof (ti_below _ _ I _ _ Hx2). simpl in *. lia. }
        unfold map_insert, amem. rewrite Hfresh. rewrite <- app_assoc. reflexivity.
Qed.

(* ---------- invariant preservation ---------- *)
Lemma sub_post_inv ms s : sub_inv s -> sub_inv (sub_post ms s).
Proof. unfold sub_post, sub_inv. destruct (s_deleted s); auto. Qed.

Lemma sub_pull_inv max now s : sub_inv s -> sub_inv (fst (sub_pull max now s)).
Proof.
  unfold sub_pull, sub_inv. intros I. destruct (s_deleted s); auto.
  pose proof (lease_out_spec (round_deadline (now + s_ackdl s * ns_per_s))
                (take_N (pull_count max (len_N (s_backlog s))) (s_backlog s)) _ _ I) as H.
  destruct lease_out as [[ls t'] na']. simpl. apply H.
Qed.

Lemma sub_ack_inv ids s : sub_inv s -> sub_inv (sub_ack ids s).
Proof. unfold sub_ack, sub_inv. destruct (s_deleted s); auto. simpl. apply tr_remove_inv. Qed.

Lemma sub_modify_inv mods s : sub_inv s -> sub_inv (sub_modify mods s).
Proof.
  unfold sub_modify, sub_inv. intros I. destruct (s_deleted s); auto.
  pose proof (tr_modify_inv mods _ _ I) as H. destruct (tr_modify mods (s_tr s)) as [t' nacked]. exact H.
Qed.

Lemma sub_expire_inv now s : sub_inv s -> sub_inv (sub_expire now s).
Proof.
  unfold sub_expire, sub_inv. intros I. destruct (s_tr s) as [msgs exp] eqn:Et. simpl.
  destruct (take_expired_spec now _ exp msgs I) as (ls & e & m & H1 & H2 & _).
  rewrite H1. simpl. exact H2.
Qed.

(* C02: the unwrap_unchecked in take_expired is never reached with None *)
Lemma sub_expire_defined now s :
  sub_inv s -> take_expired now (tr_exp (s_tr s)) (tr_msgs (s_tr s)) <> None.
Proof. apply take_expired_defined. Qed.

(* ---------- C02: acknowledgement frame ---------- *)
Lemma sub_ack_frame ids s :
  sub_inv s -> s_deleted s = false ->
  let s' := sub_ack ids s in
  s_backlog s' = s_backlog s /\ s_next_ack s' = s_next_ack s /\
  (forall b, live s' b = if existsb (N.eqb b) ids then None else live s b).
Proof.
  intros I Hd. unfold sub_ack, live. rewrite Hd. simpl. repeat split.
  intros b. apply (tr_remove_lookup _ _ (s_next_ack s)). exact I.
Qed.

Lemma sub_ack_inert ids s :
  (forall a, In a ids -> live s a = None) -> sub_ack ids s = s.
Proof.
  intros H. unfold sub_ack. destruct (s_deleted s); auto.
  rewrite tr_remove_inert by exact H. destruct s; reflexivity.
Qed.

(* ---------- pull ---------- *)
Lemma sub_pull_spec max now s :
  sub_inv s -> s_deleted s = false ->
  let k := pull_count max (len_N (s_backlog s)) in
  let '(s', ls) := sub_pull max now s in
  map l_msg ls = take_N k (s_backlog s) /\
  s_backlog s' = skip_N k (s_backlog s) /\
  len_N ls = k /\
  map l_ack ls = map (fun i => s_next_ack s + N.of_nat i) (seq 0 (length ls)) /\
  s_next_ack s' = s_next_ack s + k /\
  (forall l, In l ls -> l_dl l = round_deadline (now + s_ackdl s * ns_per_s)) /\
  tr_msgs (s_tr s') = tr_msgs (s_tr s) ++ map (fun l => (l_ack l, l)) ls.
Proof.
  intros I Hd. unfold sub_pull. rewrite Hd.
  set (k := pull_count max (len_N (s_backlog s))).
  pose proof (lease_out_spec (round_deadline (now + s_ackdl s * ns_per_s))
                (take_N k (s_backlog s)) _ _ I) as H.
  destruct lease_out as [[ls t'] na']. destruct H as (H1 & H2 & H3 & H4 & H5 & H6). simpl.
  assert (Hlen : len_N ls = k).
  { pose proof (take_N_len k (s_backlog s)) as TL. unfold len_N in *.
    rewrite <- (map_length l_msg ls). rewrite H3.
    pose proof (pull_count_le_backlog max (N.of_nat (length (s_backlog s)))) as PB. fold k in PB. lia. }
  split; [exact H3|]. split; [reflexivity|]. split; [exact Hlen|]. split.
  { rewrite H4. rewrite <- (map_length l_msg ls). rewrite H3. reflexivity. }
  split.
  { rewrite H2. f_equal. rewrite <- H3. unfold len_N in *. rewrite map_length. exact Hlen. }
  split; [exact H5|exact H6].
Qed.

(* C03: ack ids handed out by a pull are new and the counter only grows *)
Lemma sub_pull_fresh max now s l :
  sub_inv s -> In l (snd (sub_pull max now s)) ->
  s_next_ack s <= l_ack l < s_next_ack (fst (sub_pull max now s)).
Proof.
  intros I Hin. destruct (s_deleted s) eqn:Hd.
  { unfold sub_pull in Hin. rewrite Hd in Hin. simpl in Hin. tauto. }
  pose proof (sub_pull_spec max now s I Hd) as H. destruct (sub_pull max now s) as [s' ls].
  destruct H as (_ & _ & H3 & H4 & H5 & _). cbn [fst snd] in *.
  apply (in_map l_ack) in Hin. rewrite H4 in Hin. apply in_map_iff in Hin as [i [Hi1 Hi2]].
  apply in_seq in Hi2. unfold len_N in *. lia.
Qed.

(* C15: the size of a batch *)
Lemma sub_pull_count max now s :
  sub_inv s -> s_deleted s = false ->
  len_N (snd (sub_pull max now s)) = pull_count max (len_N (s_backlog s)).
Proof.
  intros I Hd. pose proof (sub_pull_spec max now s I Hd) as H.
  destruct (sub_pull max now s) as [s' ls]. simpl. apply H.
Qed.

(* ---------- conservation: no turn loses or invents a message ---------- *)
Lemma out_msgs_app s ls t' :
  tr_msgs t' = tr_msgs (s_tr s) ++ map (fun l => (l_ack l, l)) ls ->
  map (fun p => l_msg (snd p)) (tr_msgs t') = out_msgs s ++ map l_msg ls.
Proof. intros ->. unfold out_msgs. rewrite map_app, map_map. reflexivity. Qed.

Lemma sub_post_held ms s : s_deleted s = false -> Permutation (held (sub_post ms s)) (held s ++ ms).
Proof.
  intros Hd. unfold sub_post, held, out_msgs. rewrite Hd. simpl.
  rewrite <- !app_assoc. apply Permutation_app_head. apply Permutation_app_comm.
Qed.

Lemma sub_pull_held max now s :
  sub_inv s -> Permutation (held (fst (sub_pull max now s))) (held s).
Proof.
  intros I. destruct (s_deleted s) eqn:Hd.
  { unfold sub_pull. rewrite Hd. reflexivity. }
  pose proof (sub_pull_spec max now s I Hd) as H. destruct (sub_pull max now s) as [s' ls].
  destruct H as (H1 & H2 & _ & _ & _ & _ & H7). simpl.
  unfold held. rewrite H2. unfold out_msgs at 1. rewrite (out_msgs_app s ls _ H7), H1.
  set (k := pull_count max (len_N (s_backlog s))).
  transitivity ((take_N k (s_backlog s) ++ skip_N k (s_backlog s)) ++ out_msgs s);
    [|rewrite skip_take_N; reflexivity].
  rewrite app_assoc. etransitivity; [apply Permutation_app_comm|]. rewrite app_assoc. reflexivity.
Qed.

Lemma aremove_perm {V} a (v : V) m :
  NoDup (map fst m) -> In (a, v) m -> Permutation m ((a, v) :: aremove N.eqb a m).
Proof.
  induction m as [|[k x] m IH]; simpl; [tauto|]. intros Hn Hin.
  inversion Hn as [|? ? Hni Hn']; subst. destruct (N.eqb a k) eqn:E.
  - apply N.eqb_eq in E. subst k. destruct Hin as [Hin|Hin].
    + injection Hin as ->. reflexivity.
    + exfalso. apply Hni. apply in_map_iff. exists (a, v). auto.
  - destruct Hin as [Hin|Hin]; [injection Hin as -> ->; rewrite N.eqb_refl in E; discriminate|].
    rewrite perm_swap. apply perm_skip. apply IH; assumption.
Qed.

Definition msgs_of (m : list (N * lease)) : list msg := map (fun p => l_msg (snd p)) m.

(* an ack removes exactly the messages of the live leases it names *)
Lemma tr_remove1_msgs t na a :
  tr_inv t na ->
  Permutation (msgs_of (tr_msgs t))
              (match alookup N.eqb a (tr_msgs t) with Some l => [l_msg l] | None => [] end
               ++ msgs_of (tr_msgs (tr_remove1 t a))).
Proof.
  intros I. unfold tr_remove1. destruct (alookup N.eqb a (tr_msgs t)) as [l|] eqn:E; simpl; [|reflexivity].
  apply alookup_in in E. pose proof (aremove_perm a l _ (ti_nodup _ _ I) E) as P.
  apply (Permutation_map (fun p => l_msg (snd p))) in P. exact P.
Qed.

Lemma tr_modify1_msgs t na nacked m :
  tr_inv t na ->
  let '(t', nacked') := tr_modify1 (t, nacked) m in
  Permutation (msgs_of (tr_msgs t) ++ map l_msg nacked) (msgs_of (tr_msgs t') ++ map l_msg nacked').
Proof.
  intros I. destruct m as [a nd]. unfold tr_modify1.
  destruct (alookup N.eqb a (tr_msgs t)) as [l|] eqn:E; [|reflexivity].
  apply alookup_in in E. destruct nd as [d|].
  - cbn [tr_msgs]. apply Permutation_app_tail.
    (* updating the deadline does not change the message *)
    assert (H : msgs_of (aupdate N.eqb a {| l_ack := l_ack l; l_dl := d; l_msg := l_msg l |} (tr_msgs t))
                = msgs_of (tr_msgs t)).
    { pose proof (ti_nodup _ _ I) as Hn. revert E Hn. generalize (tr_msgs t) as m.
      induction m as [|[k x] m IH]; simpl; [tauto|]. intros Hin Hn.
      inversion Hn as [|? ? Hni Hn']; subst. destruct (N.eqb a k) eqn:Ek.
      - apply N.eqb_eq in Ek. subst k. destruct Hin as [Hin|Hin].
        + injection Hin as ->. reflexivity.
        + exfalso. apply Hni. apply in_map_iff. exists (a, l). auto.
      - destruct Hin as [Hin|Hin]; [injection Hin as -> ->; rewrite N.eqb_refl in Ek; discriminate|].
        simpl. f_equal. apply IH; assumption. }
    rewrite H. reflexivity.
  - cbn [tr_msgs]. pose proof (aremove_perm a l _ (ti_nodup _ _ I) E) as P.
    apply (Permutation_map (fun p => l_msg (snd p))) in P. fold (msgs_of (tr_msgs t)) in P.
    rewrite map_app. cbn [map]. rewrite P. cbn [app]. rewrite app_assoc.
    apply Permutation_cons_append.
Qed.

Lemma tr_modify_msgs mods t na :
  tr_inv t na ->
  let '(t', nacked) := tr_modify mods t in
  Permutation (msgs_of (tr_msgs t)) (msgs_of (tr_msgs t') ++ map l_msg nacked).
Proof.
  unfold tr_modify. intros I.
  assert (G : forall mods t acc, tr_inv t na ->
            let '(t', acc') := fold_left tr_modify1 mods (t, acc) in
            Permutation (msgs_of (tr_msgs t) ++ map l_msg acc) (msgs_of (tr_msgs t') ++ map l_msg acc')).
  { clear. induction mods as [|m mods IH]; intros t acc I; cbn [fold_left]; [reflexivity|].
    pose proof (tr_modify1_msgs t na acc m I) as P. pose proof (tr_modify1_inv t na acc m I) as I'.
    destruct (tr_modify1 (t, acc) m) as [t1 acc1]. simpl in I'.
    specialize (IH t1 acc1 I'). destruct (fold_left tr_modify1 mods (t1, acc1)) as [t2 acc2].
    rewrite P. exact IH. }
  specialize (G mods t [] I). destruct (fold_left tr_modify1 mods (t, [])) as [t' acc'].
  simpl in G. rewrite app_nil_r in G. exact G.
Qed.

(* nack / modify moves messages between the two parts, never in or out *)
Lemma sub_modify_held mods s : sub_inv s -> Permutation (held (sub_modify mods s)) (held s).
Proof.
  intros I. unfold sub_modify. destruct (s_deleted s); [reflexivity|].
  pose proof (tr_modify_msgs mods _ _ I) as P. destruct (tr_modify mods (s_tr s)) as [t' nacked].
  unfold held, out_msgs. simpl. fold (msgs_of (tr_msgs t')). fold (msgs_of (tr_msgs (s_tr s))).
  rewrite P. rewrite <- !app_assoc. apply Permutation_app_head. apply Permutation_app_comm.
Qed.

Lemma take_expired_msgs now na exp msgs :
  tr_inv {| tr_msgs := msgs; tr_exp := exp |} na ->
  forall ls e m, take_expired now exp msgs = Some (ls, e, m) ->
  Permutation (msgs_of msgs) (map l_msg ls ++ msgs_of m).
Proof.
  revert msgs. induction exp as [|[d a] exp IH]; intros msgs I ls e m; simpl.
  - intros H; injection H as <- <- <-. reflexivity.
  - destruct (N.ltb now d); [intros H; injection H as <- <- <-; reflexivity|].
    destruct (alookup N.eqb a msgs) as [l|] eqn:E; [|discriminate].
    apply alookup_in in E.
    pose proof (remove_lease_inv _ _ _ _ I E) as R. simpl in R.
    assert (Hk : In (d, a) (keys_of msgs)) by (apply (ti_agree _ _ I); left; reflexivity).
    apply in_keys_of in Hk as [l2 [Hl2 Hd2]]. simpl in *.
    pose proof (ti_nodup _ _ I) as ND. simpl in ND.
    assert (l2 = l) by (apply (in_alookup _ _ _ ND) in Hl2, E; congruence). subst l2.
    assert (Hack : l_ack l = a) by (eapply (ti_self _ _ I); eauto).
    unfold lease_key in R. rewrite Hd2, Hack in R.
    assert (Hkk : key_eqb (d, a) (d, a) = true) by (apply key_eqb_spec; reflexivity).
    rewrite Hkk in R.
    destruct (take_expired now exp (aremove N.eqb a msgs)) as [[[ls' e'] m']|] eqn:T; [|discriminate].
    intros H; injection H as <- <- <-. specialize (IH _ R _ _ _ T).
    pose proof (aremove_perm a l _ ND E) as P.
    apply (Permutation_map (fun p => l_msg (snd p))) in P. fold (msgs_of msgs) in P.
    rewrite P. simpl. apply perm_skip. exact IH.
Qed.

Lemma sub_expire_held now s : sub_inv s -> Permutation (held (sub_expire now s)) (held s).
Proof.
  intros I. unfold sub_expire, sub_inv in *. destruct (s_tr s) as [msgs exp] eqn:Et. simpl.
  destruct (take_expired now exp msgs) as [[[ls e] m]|] eqn:T; [|unfold held, out_msgs; rewrite Et; reflexivity].
  pose proof (take_expired_msgs now _ exp msgs I _ _ _ T) as P.
  unfold held, out_msgs. simpl. rewrite Et. simpl. fold (msgs_of msgs). fold (msgs_of m).
  rewrite P. rewrite <- !app_assoc. reflexivity.
Qed.

(* an ack never touches the backlog; what it removes are messages of live leases named in it *)
Lemma sub_ack_held ids s :
  sub_inv s -> exists gone, Permutation (held s) (gone ++ held (sub_ack ids s)) /\
                            (forall m, In m gone -> exists a l, In a ids /\ live s a = Some l /\ l_msg l = m).
Proof.
  intros I. unfold sub_ack. destruct (s_deleted s); [exists []; split; [reflexivity|simpl; tauto]|].
  unfold held, out_msgs, live, sub_inv in *. simpl.
  revert I. generalize (s_tr s) as t. unfold tr_remove.
  induction ids as [|a ids IH]; intros t I; cbn [fold_left].
  - exists []. split; [reflexivity|simpl; tauto].
  - pose proof (tr_remove1_msgs t _ a I) as P. pose proof (tr_remove1_inv t _ a I) as I1.
    destruct (IH _ I1) as [gone [P2 G2]].
    exists (match alookup N.eqb a (tr_msgs t) with Some l => [l_msg l] | None => [] end ++ gone). split.
    + unfold msgs_of in P. rewrite P.
      rewrite (Permutation_app_comm (s_backlog s)). rewrite <- !app_assoc.
      apply Permutation_app_head. rewrite (Permutation_app_comm _ (s_backlog s)). exact P2.
    + intros m Hm. apply in_app_iff in Hm as [Hm|Hm].
      * destruct (alookup N.eqb a (tr_msgs t)) as [l|] eqn:E; [|simpl in Hm; tauto].
        destruct Hm as [<-|[]]. exists a, l. simpl. auto.
      * destruct (G2 m Hm) as (b & l & Hb & Hl & Hm'). exists b, l. split; [right; assumption|]. split; auto.
        rewrite (tr_remove1_lookup _ _ a b I) in Hl. destruct (N.eqb b a); [discriminate|assumption].
Qed.
