(* Facts about the byte-string helpers of Model/Base.v. *)
From Deltio Require Import Model.Base.

Lemma str_eqb_eq a b : str_eqb a b = true <-> a = b.
Proof.
  revert b; induction a as [|x a IH]; intros [|y b]; simpl; split; intros H; try congruence; auto.
  - apply andb_true_iff in H as [H1 H2]. apply N.eqb_eq in H1. apply IH in H2. congruence.
  - injection H as -> ->. rewrite N.eqb_refl. simpl. apply IH. reflexivity.
Qed.

Lemma str_eqb_refl a : str_eqb a a = true.
Proof. apply str_eqb_eq; reflexivity. Qed.

Lemma str_eqb_neq a b : str_eqb a b = false <-> a <> b.
Proof.
  split; intros H.
  - intros E. apply str_eqb_eq in E. congruence.
  - destruct (str_eqb a b) eqn:E; auto. apply str_eqb_eq in E. contradiction.
Qed.

Lemma strip_prefix_spec p s r : strip_prefix p s = Some r <-> s = p ++ r.
Proof.
  revert s; induction p as [|c p IH]; intros s; simpl.
  - split; intros H; congruence.
  - destruct s as [|d s].
    + split; intros H; discriminate.
    + destruct (N.eqb c d) eqn:E.
      * apply N.eqb_eq in E; subst d. rewrite IH. split; intros H; congruence.
      * apply N.eqb_neq in E. split; intros H; try discriminate. injection H as H1 H2. congruence.
Qed.

Lemma strip_prefix_app p r : strip_prefix p (p ++ r) = Some r.
Proof. apply strip_prefix_spec; reflexivity. Qed.

Lemma split_once_spec c s a b :
  split_once c s = Some (a, b) <-> s = a ++ c :: b /\ ~ In c a.
Proof.
  revert a b; induction s as [|d s IH]; intros a b; simpl.
  - split; [discriminate|]. intros [H _]. destruct a; discriminate.
  - destruct (N.eqb c d) eqn:E.
    + apply N.eqb_eq in E; subst d. split.
      * intros H; injection H as <- <-. split; auto.
      * intros [H Hn]. destruct a as [|x a]; simpl in H.
        -- injection H as ->. reflexivity.
        -- injection H as -> _. exfalso; apply Hn; left; reflexivity.
    + apply N.eqb_neq in E. destruct (split_once c s) as [[a' b']|] eqn:S.
      * specialize (IH a' b'). destruct IH as [IH _]. specialize (IH eq_refl) as [-> Hn]. split.
        -- intros H; injection H as <- <-. split; auto. simpl. intros [H|H]; auto.
        -- intros [H Hn']. destruct a as [|x a]; simpl in H.
           ++ injection H as H _. congruence.
           ++ injection H as -> H. 
              assert (Sa : split_once c (a' ++ c :: b') = Some (a, b)).
              { rewrite H. clear - Hn'. revert Hn'. induction a as [|y a IHa]; intros Hn'; simpl.
                - rewrite N.eqb_refl. reflexivity.
                - destruct (N.eqb c y) eqn:E2.
                  + apply N.eqb_eq in E2. exfalso. apply Hn'. right; left; auto.
                  + rewrite IHa; auto. intros [H|H]; apply Hn'; [left|right; right]; auto. }
              rewrite S in Sa. injection Sa as -> ->. reflexivity.
      * split; [discriminate|]. intros [H Hn]. destruct a as [|x a]; simpl in H.
        -- injection H as H _. congruence.
        -- injection H as -> H. exfalso.
           assert (Sa : split_once c s = Some (a, b)).
           { rewrite H. clear - Hn. revert Hn. induction a as [|y a IHa]; intros Hn; simpl.
             - rewrite N.eqb_refl. reflexivity.
             - destruct (N.eqb c y) eqn:E2.
               + apply N.eqb_eq in E2. exfalso. apply Hn. right; left; auto.
               + rewrite IHa; auto. intros [H|H]; apply Hn; [left|right; right]; auto. }
           congruence.
Qed.

Lemma split_once_app c a b : ~ In c a -> split_once c (a ++ c :: b) = Some (a, b).
Proof. intros H. apply split_once_spec. auto. Qed.

Lemma is_nil_true {A} (l : list A) : is_nil l = true <-> l = [].
Proof. destruct l; simpl; split; congruence. Qed.
Lemma is_nil_false {A} (l : list A) : is_nil l = false <-> l <> [].
Proof. destruct l; simpl; split; congruence. Qed.
