(* Proofs about Model/Locks.v: threads whose programs follow a rank discipline never
   deadlock, under any granting policy that hands a free lock to one of its waiters. *)
From Coq Require Import List Arith Bool Lia.
Import ListNotations.
From Deltio Require Import Model.Locks.

Section LocksP.
Variable lock : Type.
Variable lock_eq_dec : forall a b : lock, {a = b} + {a <> b}.
Variable rank : lock -> nat.

Notation thread := (thread lock).
Notation state := (state lock).
Notation prog := (prog lock).
Notation disciplined := (disciplined lock lock_eq_dec rank).
Notation step := (step lock lock_eq_dec).
Notation reachable := (reachable lock lock_eq_dec).

Definition inv (s : state) : Prop := Forall (fun t => disciplined (held t) (rest t)) s.

Lemma inv_init (ps : list prog) : Forall (disciplined []) ps -> inv (init lock ps).
Proof.
  unfold inv, init. intros H. induction H as [|p ps Hp _ IH]; cbn; constructor; auto.
Qed.

Lemma Forall_set_nth (P : thread -> Prop) (s : state) i t :
  Forall P s -> P t -> Forall P (set_nth lock s i t).
Proof.
  intros Hs Ht. revert i. induction Hs as [|x r Hx Hr IH]; intros i; cbn.
  - destruct i; constructor.
  - destruct i as [|k]; constructor; auto.
Qed.

Lemma nth_error_Forall (P : thread -> Prop) (s : state) i t :
  Forall P s -> nth_error s i = Some t -> P t.
Proof.
  intros Hs Hn. apply nth_error_In in Hn. rewrite Forall_forall in Hs. auto.
Qed.

Lemma inv_step g s s' : inv s -> step g s s' -> inv s'.
Proof.
  intros Hi Hs. destruct Hs as [s i t l m p Hn Hr Hg | s i t l p Hn Hr].
  - apply Forall_set_nth; [exact Hi|]. cbn.
    pose proof (nth_error_Forall _ _ _ _ Hi Hn) as Ht. cbn in Ht. rewrite Hr in Ht. cbn in Ht. tauto.
  - apply Forall_set_nth; [exact Hi|]. cbn.
    pose proof (nth_error_Forall _ _ _ _ Hi Hn) as Ht. cbn in Ht. rewrite Hr in Ht. cbn in Ht. tauto.
Qed.

Lemma inv_reachable g ps s :
  Forall (disciplined []) ps -> reachable g (init lock ps) s -> inv s.
Proof.
  intros Hp Hr. induction Hr as [|s s' _ IH Hs].
  - apply inv_init; exact Hp.
  - eapply inv_step; eauto.
Qed.

(* a thread that holds something is not finished *)
Lemma holder_unfinished h p : disciplined h p -> h <> [] -> p <> [].
Proof. intros Hd Hh Hp. subst p. cbn in Hd. contradiction. Qed.

Definition want_rank (t : thread) : nat :=
  match wants lock t with Some (l, _) => rank l | None => 0 end.

Lemma want_rank_le_max (s : state) t :
  In t s -> want_rank t <= list_max (map want_rank s).
Proof.
  induction s as [|x r IH]; intros Hin; [contradiction|].
  change (list_max (map want_rank (x :: r))) with (Nat.max (want_rank x) (list_max (map want_rank r))).
  destruct Hin as [->|Hin]; [lia|]. specialize (IH Hin). lia.
Qed.

Lemma holder_dec (s : state) (l : lock) :
  (exists t, In t s /\ holds lock t l) \/ (forall t, In t s -> ~ holds lock t l).
Proof.
  induction s as [|x r IH].
  - right. intros t [].
  - destruct (in_dec lock_eq_dec l (held x)) as [Hx|Hx].
    + left. exists x. split; [left; reflexivity|exact Hx].
    + destruct IH as [[t [Hin Hh]]|Hn].
      * left. exists t. split; [right; exact Hin|exact Hh].
      * right. intros t [->|Hin]; [exact Hx|apply Hn; exact Hin].
Qed.

Lemma In_nth_error_ex (s : state) t : In t s -> exists i, nth_error s i = Some t.
Proof. apply In_nth_error. Qed.

(* the core: from any waiting thread one finds a step, by climbing the ranks *)
Lemma progress_from_waiter g (s : state) :
  grants_free lock g -> inv s ->
  forall n t l m, In t s -> wants lock t = Some (l, m) ->
    list_max (map want_rank s) - rank l <= n ->
    exists s', step g s s'.
Proof.
  intros Hg Hi n. induction n as [|n IH]; intros t l m Hin Hw Hn.
  - (* l has maximal rank among wanted locks *)
    destruct (holder_dec s l) as [[h [Hhin Hh]]|Hfree].
    + (* its holder is unfinished; it releases, or wants something higher: impossible *)
      pose proof Hi as Hi'. unfold inv in Hi'. rewrite Forall_forall in Hi'.
      pose proof (Hi' h Hhin) as Hd.
      destruct (rest h) as [|a q] eqn:Hr.
      * cbn in Hd. unfold holds in Hh. rewrite Hd in Hh. contradiction.
      * destruct a as [l' m'|l'].
        -- cbn in Hd. destruct Hd as [Hlt _]. rewrite Forall_forall in Hlt.
           specialize (Hlt l Hh).
           assert (Hwh : want_rank h = rank l') by (unfold want_rank, wants; rewrite Hr; reflexivity).
           pose proof (want_rank_le_max s h Hhin). lia.
        -- destruct (In_nth_error_ex s h Hhin) as [i Hi2].
           eexists. eapply step_rel; eauto.
    + destruct (In_nth_error_ex s t Hin) as [i Hi2].
      destruct (Hg s l Hfree) as [j [u [mu [Hj [Hwu Hgr]]]]].
      { exists i, t, m. split; assumption. }
      unfold wants in Hwu. destruct (rest u) as [|a q] eqn:Hr; [discriminate|].
      destruct a as [l2 m2|l2]; [|discriminate]. injection Hwu as -> ->.
      eexists. eapply step_acq; eauto.
  - destruct (holder_dec s l) as [[h [Hhin Hh]]|Hfree].
    + pose proof Hi as Hi'. unfold inv in Hi'. rewrite Forall_forall in Hi'.
      pose proof (Hi' h Hhin) as Hd.
      destruct (rest h) as [|a q] eqn:Hr.
      * cbn in Hd. unfold holds in Hh. rewrite Hd in Hh. contradiction.
      * destruct a as [l' m'|l'].
        -- cbn in Hd. destruct Hd as [Hlt _]. rewrite Forall_forall in Hlt.
           specialize (Hlt l Hh).
           apply (IH h l' m' Hhin).
           ++ unfold wants. rewrite Hr. reflexivity.
           ++ lia.
        -- destruct (In_nth_error_ex s h Hhin) as [i Hi2].
           eexists. eapply step_rel; eauto.
    + destruct (In_nth_error_ex s t Hin) as [i Hi2].
      destruct (Hg s l Hfree) as [j [u [mu [Hj [Hwu Hgr]]]]].
      { exists i, t, m. split; assumption. }
      unfold wants in Hwu. destruct (rest u) as [|a q] eqn:Hr; [discriminate|].
      destruct a as [l2 m2|l2]; [|discriminate]. injection Hwu as -> ->.
      eexists. eapply step_acq; eauto.
Qed.

Theorem progress g (s : state) :
  grants_free lock g -> inv s -> unfinished lock s -> exists s', step g s s'.
Proof.
  intros Hg Hi [t [Hin Hne]].
  destruct (rest t) as [|a q] eqn:Hr; [contradiction|].
  destruct a as [l m|l].
  - eapply (progress_from_waiter g s Hg Hi _ t l m Hin).
    + unfold wants. rewrite Hr. reflexivity.
    + apply Nat.le_refl.
  - destruct (In_nth_error_ex s t Hin) as [i Hi2].
    eexists. eapply step_rel; eauto.
Qed.

Theorem no_deadlock g (ps : list prog) (s : state) :
  grants_free lock g ->
  Forall (disciplined []) ps ->
  reachable g (init lock ps) s ->
  unfinished lock s ->
  exists s', step g s s'.
Proof.
  intros Hg Hp Hr Hu. apply progress; auto. eapply inv_reachable; eauto.
Qed.

(* every step consumes one action: executions are finite, so "never stuck" means
   every thread runs to its end *)
Definition remaining (s : state) : nat := list_sum (map (fun t => length (rest t)) s).

Lemma remaining_cons (x : thread) (r : state) : remaining (x :: r) = length (rest x) + remaining r.
Proof. reflexivity. Qed.

Lemma remaining_set_nth (s : state) i t u :
  nth_error s i = Some t ->
  remaining (set_nth lock s i u) + length (rest t) = remaining s + length (rest u).
Proof.
  revert i. induction s as [|x r IH]; intros i Hn.
  - destruct i; discriminate.
  - destruct i as [|k].
    + cbn in Hn. injection Hn as ->. cbn [set_nth]. rewrite !remaining_cons. lia.
    + cbn in Hn. specialize (IH k Hn). cbn [set_nth]. rewrite !remaining_cons. lia.
Qed.

Theorem step_decreases g s s' : step g s s' -> remaining s' < remaining s.
Proof.
  intros Hs. destruct Hs as [s i t l m p Hn Hr Hg | s i t l p Hn Hr].
  - pose proof (remaining_set_nth s i t (mkThread (l :: held t) p) Hn) as H. cbn in H. rewrite Hr in H. cbn in H. lia.
  - pose proof (remaining_set_nth s i t (mkThread (remove lock_eq_dec l (held t)) p) Hn) as H. cbn in H. rewrite Hr in H. cbn in H. lia.
Qed.

(* from edges to ranks *)
Lemma nests_disciplined (edges : list (lock * lock)) h p :
  edges_ok lock rank edges = true ->
  nests_within lock lock_eq_dec edges h p -> disciplined h p.
Proof.
  intros He. unfold edges_ok in He. rewrite forallb_forall in He.
  revert h. induction p as [|a q IH]; intros h Hn; cbn in *; [exact Hn|].
  destruct a as [l m|l].
  - destruct Hn as [Hf Hq]. split; [|apply IH; exact Hq].
    rewrite Forall_forall in *. intros x Hx. specialize (Hf x Hx).
    specialize (He (x, l) Hf). cbn in He. apply Nat.ltb_lt in He. exact He.
  - destruct Hn as [Hi Hq]. split; [exact Hi|apply IH; exact Hq].
Qed.

Theorem no_deadlock_edges g (edges : list (lock * lock)) (ps : list prog) (s : state) :
  grants_free lock g ->
  edges_ok lock rank edges = true ->
  Forall (nests_within lock lock_eq_dec edges []) ps ->
  reachable g (init lock ps) s ->
  unfinished lock s ->
  exists s', step g s s'.
Proof.
  intros Hg He Hp Hr Hu. apply (no_deadlock g ps s Hg); [|exact Hr|exact Hu].
  rewrite Forall_forall in Hp. rewrite Forall_forall. intros p Hin.
  apply (nests_disciplined edges [] p He). apply Hp. exact Hin.
Qed.

(* the two policies satisfy the assumption *)
Lemma mutex_policy_grants_free : grants_free lock (mutex_policy lock).
Proof.
  intros s l Hfree [i [t [m [Hn Hw]]]]. exists i, t, m. repeat split; auto.
Qed.

Lemma any_policy_grants_free : grants_free lock (any_policy lock).
Proof.
  intros s l _ [i [t [m [Hn Hw]]]]. exists i, t, m. repeat split; auto.
Qed.

End LocksP.

(* without the discipline the theorem fails: the classic two-lock embrace *)
Definition ab : prog nat := [Acq 1 MW; Acq 2 MW; Rel 2; Rel 1].
Definition ba : prog nat := [Acq 2 MW; Acq 1 MW; Rel 1; Rel 2].
Definition embrace : state nat := [mkThread [1] [Acq 2 MW; Rel 2; Rel 1]; mkThread [2] [Acq 1 MW; Rel 1; Rel 2]].

Definition embrace_mid : state nat := [mkThread [1] [Acq 2 MW; Rel 2; Rel 1]; mkThread [] ba].

Lemma embrace_step1 : step nat Nat.eq_dec (mutex_policy nat) (init nat [ab; ba]) embrace_mid.
Proof.
  change embrace_mid with
    (set_nth nat (init nat [ab; ba]) 0 (mkThread (1 :: held (mkThread [] ab)) [Acq 2 MW; Rel 2; Rel 1])).
  apply (step_acq nat Nat.eq_dec (mutex_policy nat) (init nat [ab; ba]) 0 (mkThread [] ab) 1 MW
           [Acq 2 MW; Rel 2; Rel 1]); try reflexivity.
  intros t [<-|[<-|[]]]; unfold holds; cbn; tauto.
Qed.

Lemma embrace_step2 : step nat Nat.eq_dec (mutex_policy nat) embrace_mid embrace.
Proof.
  change embrace with
    (set_nth nat embrace_mid 1 (mkThread (2 :: held (mkThread [] ba)) [Acq 1 MW; Rel 1; Rel 2])).
  apply (step_acq nat Nat.eq_dec (mutex_policy nat) embrace_mid 1 (mkThread [] ba) 2 MW
           [Acq 1 MW; Rel 1; Rel 2]); try reflexivity.
  intros t [<-|[<-|[]]]; unfold holds; cbn; intuition congruence.
Qed.

Lemma embrace_reachable : reachable nat Nat.eq_dec (mutex_policy nat) (init nat [ab; ba]) embrace.
Proof.
  eapply reach_step; [eapply reach_step; [apply reach_refl|apply embrace_step1]|apply embrace_step2].
Qed.

Lemma embrace_stuck : unfinished nat embrace /\ forall s', ~ step nat Nat.eq_dec (mutex_policy nat) embrace s'.
Proof.
  split.
  - exists (mkThread [1] [Acq 2 MW; Rel 2; Rel 1]). split; [left; reflexivity|discriminate].
  - intros s' Hs. inversion Hs as [s i t l m p Hn Hr Hg | s i t l p Hn Hr]; subst.
    + destruct i as [|[|k]]; cbn in Hn; try (destruct k; discriminate).
      * injection Hn as <-. cbn in Hr. injection Hr as <- <- <-.
        apply (Hg (mkThread [2] [Acq 1 MW; Rel 1; Rel 2])); [right; left; reflexivity|left; reflexivity].
      * injection Hn as <-. cbn in Hr. injection Hr as <- <- <-.
        apply (Hg (mkThread [1] [Acq 2 MW; Rel 2; Rel 1])); [left; reflexivity|left; reflexivity].
    + destruct i as [|[|k]]; cbn in Hn; try (destruct k; discriminate).
      * injection Hn as <-. cbn in Hr. discriminate.
      * injection Hn as <-. cbn in Hr. discriminate.
Qed.

(* closed statements (the forms the property files restate) *)
Theorem locks_no_deadlock :
  forall (lock : Type) (dec : forall a b : lock, {a = b} + {a <> b}) (rank : lock -> nat)
         (g : policy lock) (ps : list (prog lock)) (s : state lock),
    grants_free lock g ->
    Forall (disciplined lock dec rank []) ps ->
    reachable lock dec g (init lock ps) s ->
    unfinished lock s ->
    exists s', step lock dec g s s'.
Proof. intros lock dec rank. exact (no_deadlock lock dec rank). Qed.

Theorem locks_no_deadlock_edges :
  forall (lock : Type) (dec : forall a b : lock, {a = b} + {a <> b}) (rank : lock -> nat)
         (g : policy lock) (edges : list (lock * lock)) (ps : list (prog lock)) (s : state lock),
    grants_free lock g ->
    edges_ok lock rank edges = true ->
    Forall (nests_within lock dec edges []) ps ->
    reachable lock dec g (init lock ps) s ->
    unfinished lock s ->
    exists s', step lock dec g s s'.
Proof. intros lock dec rank. exact (no_deadlock_edges lock dec rank). Qed.

Theorem locks_step_decreases :
  forall (lock : Type) (dec : forall a b : lock, {a = b} + {a <> b})
         (g : policy lock) (s s' : state lock),
    step lock dec g s s' -> remaining lock s' < remaining lock s.
Proof. intros lock dec. exact (step_decreases lock dec). Qed.

Theorem locks_policies :
  forall (lock : Type), grants_free lock (mutex_policy lock) /\ grants_free lock (any_policy lock).
Proof. intros lock. split; [apply mutex_policy_grants_free|apply any_policy_grants_free]. Qed.

Theorem locks_embrace_refuted :
  reachable nat Nat.eq_dec (mutex_policy nat) (init nat [ab; ba]) embrace /\
  unfinished nat embrace /\
  forall s', ~ step nat Nat.eq_dec (mutex_policy nat) embrace s'.
Proof. split; [exact embrace_reachable|exact embrace_stuck]. Qed.

(* the hypotheses are satisfiable: two threads that nest in rank order *)
Example locks_disciplined_example :
  Forall (disciplined nat Nat.eq_dec (fun l => l) []) [ab; [Acq 1 MR; Rel 1; Acq 2 MW; Rel 2]].
Proof. repeat constructor; cbn; auto. Qed.
