(* C14: one push pass over one subscription. *)
From Deltio Require Import Model.Base Model.Names Model.Time Model.Codec Model.Paging Model.Sub Model.Server
  Proofs.BaseP Proofs.TimeP Proofs.CodecP Proofs.SubP Proofs.SubTurns Proofs.SubHist Proofs.ServerP Proofs.CtlP
  Proofs.Extra.
Require Import ZifyBool ZifyN ZifyNat Sorting.Permutation.

Definition settle_one (x : sub) (p : lease * outcome) : sub :=
  match snd p with
  | OHang => x
  | o => if accepted o then sub_ack [l_ack (fst p)] x else sub_modify [(l_ack (fst p), None)] x
  end.

Lemma settle_one_inv x p : sub_inv x -> sub_inv (settle_one x p).
Proof.
  intros I. unfold settle_one. destruct (snd p); auto;
    try (apply sub_modify_inv; assumption).
  destruct (accepted (OStatus c)); [apply sub_ack_inv|apply sub_modify_inv]; assumption.
Qed.

Lemma settle_one_deleted x p : s_deleted (settle_one x p) = s_deleted x.
Proof.
  unfold settle_one. destruct (snd p); auto.
  - destruct (accepted (OStatus c)).
    + apply (sstep_deleted x (OAck [l_ack (fst p)])).
    + apply (sstep_deleted x (OMod [(l_ack (fst p), None)])).
  - apply (sstep_deleted x (OMod [(l_ack (fst p), None)])).
  - apply (sstep_deleted x (OMod [(l_ack (fst p), None)])).
Qed.

(* what one POST outcome does to its own lease and to the others *)
Lemma settle_one_spec x l o :
  sub_inv x -> s_deleted x = false -> live x (l_ack l) = Some l ->
  let x' := settle_one x (l, o) in
  (forall b, b <> l_ack l -> live x' b = live x b) /\
  (exists back, s_backlog x' = s_backlog x ++ back) /\
  match o with
  | OHang => live x' (l_ack l) = Some l
  | _ => live x' (l_ack l) = None /\
         (if accepted o then s_backlog x' = s_backlog x else s_backlog x' = s_backlog x ++ [l_msg l])
  end.
Proof.
  intros I Hd Hl. unfold settle_one. cbn [fst snd].
  assert (Hack : forall acc, acc = true ->
            let x' := sub_ack [l_ack l] x in
            (forall b, b <> l_ack l -> live x' b = live x b) /\ (exists back, s_backlog x' = s_backlog x ++ back) /\
            live x' (l_ack l) = None /\ s_backlog x' = s_backlog x).
  { intros _ _. destruct (sub_ack_frame [l_ack l] x I Hd) as (Hb & _ & Hk). split; [|split; [|split]].
    - intros b Hb'. rewrite Hk. simpl. apply N.eqb_neq in Hb'. rewrite Hb'. reflexivity.
    - exists []. rewrite app_nil_r. assumption.
    - rewrite Hk. simpl. rewrite N.eqb_refl. reflexivity.
    - assumption. }
  assert (Hnack : let x' := sub_modify [(l_ack l, None)] x in
            (forall b, b <> l_ack l -> live x' b = live x b) /\ (exists back, s_backlog x' = s_backlog x ++ back) /\
            live x' (l_ack l) = None /\ s_backlog x' = s_backlog x ++ [l_msg l]).
  { destruct (sub_modify_one x (l_ack l) None l I Hd Hl) as (_ & Ho & Hn & Hb). split; [|split; [|split]]; auto.
    exists [l_msg l]. assumption. }
  destruct o as [c| | |].
  - destruct (accepted (OStatus c)) eqn:Ea.
    + destruct (Hack true eq_refl) as (A & B & C & D). cbv zeta. split; [exact A|split; [exact B|split; [exact C|exact D]]].
    + destruct Hnack as (A & B & C & D). cbv zeta. split; [exact A|split; [exact B|split; [exact C|exact D]]].
  - destruct Hnack as (A & B & C & D). cbv zeta. cbn [accepted]. split; [exact A|split; [exact B|split; [exact C|exact D]]].
  - destruct Hnack as (A & B & C & D). cbv zeta. cbn [accepted]. split; [exact A|split; [exact B|split; [exact C|exact D]]].
  - cbv zeta. split; [auto|]. split; [exists []; rewrite app_nil_r; reflexivity|exact Hl].
Qed.

(* The whole pass: every POSTed message ends up according to what its endpoint did. *)
Theorem push_pass_spec : forall (posts : list (lease * outcome)) x,
  sub_inv x -> s_deleted x = false ->
  NoDup (map (fun p => l_ack (fst p)) posts) ->
  (forall p, In p posts -> live x (l_ack (fst p)) = Some (fst p)) ->
  let x' := fold_left settle_one posts x in
  sub_inv x' /\
  (forall b, ~ In b (map (fun p => l_ack (fst p)) posts) -> live x' b = live x b) /\
  (forall l o, In (l, o) posts ->
     match o with
     | OHang => live x' (l_ack l) = Some l                       (* no answer: stays leased until its deadline *)
     | _ => live x' (l_ack l) = None /\
            (accepted o = false -> In (l_msg l) (s_backlog x')) (* not accepted: queued for the next pass *)
     end).
Proof.
  induction posts as [|[l o] posts IH]; intros x I Hd ND Hlive; simpl.
  - split; [assumption|]. split; [auto|]. intros l o [].
  - inversion ND as [|? ? Hn ND']; subst.
    assert (Hl : live x (l_ack l) = Some l) by (apply (Hlive (l, o)); left; reflexivity).
    pose proof (settle_one_spec x l o I Hd Hl) as (Hother & [back Hback] & Hself).
    pose proof (settle_one_inv x (l, o) I) as I1.
    assert (Hd1 : s_deleted (settle_one x (l, o)) = false) by (rewrite settle_one_deleted; assumption).
    assert (Hlive1 : forall p, In p posts -> live (settle_one x (l, o)) (l_ack (fst p)) = Some (fst p)).
    { intros p Hp. rewrite Hother; [apply Hlive; right; assumption|].
      intros E. apply Hn. simpl. rewrite <- E. apply in_map_iff. exists p. auto. }
    destruct (IH (settle_one x (l, o)) I1 Hd1 ND' Hlive1) as (J1 & J2 & J3).
    split; [assumption|]. split.
    + intros b Hb. rewrite J2 by (intros H; apply Hb; right; assumption).
      apply Hother. intros ->. apply Hb. left. reflexivity.
    + intros l2 o2 [E|Hin]; [|apply J3; assumption]. injection E as <- <-.
      assert (Hni : ~ In (l_ack l) (map (fun p => l_ack (fst p)) posts)) by exact Hn.
      (* the rest of the pass does not touch this lease and only appends to the backlog *)
      assert (Happ : forall ps y, sub_inv y -> s_deleted y = false ->
                (forall p, In p ps -> live y (l_ack (fst p)) = Some (fst p)) ->
                NoDup (map (fun p => l_ack (fst p)) ps) ->
                exists more, s_backlog (fold_left settle_one ps y) = s_backlog y ++ more).
      { clear. induction ps as [|[l0 o0] ps IHp]; intros y Iy Dy Ly NDy; simpl; [exists []; rewrite app_nil_r; reflexivity|].
        inversion NDy as [|? ? Hn0 ND0]; subst.
        assert (Hl0 : live y (l_ack l0) = Some l0) by (apply (Ly (l0, o0)); left; reflexivity).
        pose proof (settle_one_spec y l0 o0 Iy Dy Hl0) as (Ho0 & [b0 Hb0] & _).
        destruct (IHp (settle_one y (l0, o0))) as [more Hm].
        - apply settle_one_inv; assumption.
        - rewrite settle_one_deleted; assumption.
        - intros p Hp. rewrite Ho0; [apply Ly; right; assumption|].
          intros E. apply Hn0. simpl. rewrite <- E. apply in_map_iff. exists p. auto.
        - assumption.
        - exists (b0 ++ more). rewrite Hm, Hb0, app_assoc. reflexivity. }
      destruct (Happ posts (settle_one x (l, o)) I1 Hd1 Hlive1 ND') as [more Hmore].
      rewrite (J2 (l_ack l) Hni). destruct o as [c| | |]; try exact Hself.
      * destruct Hself as [S1 S2]. split; [assumption|]. intros Ha. rewrite Ha in S2.
        rewrite Hmore, S2. apply in_app_iff. left. apply in_app_iff. right. left. reflexivity.
      * destruct Hself as [S1 S2]. split; [assumption|]. intros _. simpl in S2.
        rewrite Hmore, S2. apply in_app_iff. left. apply in_app_iff. right. left. reflexivity.
      * destruct Hself as [S1 S2]. split; [assumption|]. intros _. simpl in S2.
        rewrite Hmore, S2. apply in_app_iff. left. apply in_app_iff. right. left. reflexivity.
Qed.

(* the accepted statuses, exactly *)
Lemma accepted_status c :
  accepted (OStatus c) = true <-> (c = 102 \/ c = 200 \/ c = 201 \/ c = 202 \/ c = 204).
Proof. unfold accepted. cbn [existsb]. lia. Qed.

Lemma accepted_spec o :
  accepted o = true <-> exists c, o = OStatus c /\ (c = 102 \/ c = 200 \/ c = 201 \/ c = 202 \/ c = 204).
Proof.
  destruct o as [c| | |].
  - rewrite accepted_status. split; [intros H; exists c; auto|]. intros [c' [E H]]. injection E as <-. assumption.
  - split; [discriminate|]. intros [c' [E _]]. discriminate.
  - split; [discriminate|]. intros [c' [E _]]. discriminate.
  - split; [discriminate|]. intros [c' [E _]]. discriminate.
Qed.

(* a pass acts on the registered subscription only, through ordinary actor turns *)
Theorem push_pass_handle sv sn script s :
  find_sub sn (sv_subs sv) = Some s ->
  let posts := combine (snd (sub_pull 1000 (sv_now sv) s))
                       (script ++ repeat (OStatus 200) (length (snd (sub_pull 1000 (sv_now sv) s)))) in
  snd (fst (handle sv (RPushSub sn script))) = PPushed posts /\
  sv_topics (fst (fst (handle sv (RPushSub sn script)))) = sv_topics sv /\
  sv_reg (fst (fst (handle sv (RPushSub sn script)))) = sv_reg sv.
Proof. intros H. simpl. rewrite H. simpl. auto. Qed.

(* subscriptions that are not in the registry are never pushed: the driver of a round
   walks the registry, which by CtlP.registry_exact holds exactly the live push subscriptions *)
Theorem push_absent sv sn script :
  find_sub sn (sv_subs sv) = None -> handle sv (RPushSub sn script) = (sv, PPushed [], no_touch).
Proof. intros H. simpl. rewrite H. reflexivity. Qed.
