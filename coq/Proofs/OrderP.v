(* C08, the per-subscription part: on every subscription the FIRST deliveries
   of messages occur in publish order, the messages of one Publish request
   staying contiguous and in request order; only redeliveries may appear out
   of order.

   Formally: for every sequence of actor turns, the sequence of message ids in
   order of first delivery is a PREFIX of the sequence of posted ids. *)
From Deltio Require Import Model.Base Model.Time Model.Codec Model.Sub Proofs.BaseP Proofs.TimeP Proofs.CodecP Proofs.SubP Proofs.SubTurns Proofs.SubHist.
Require Import ZifyBool ZifyN ZifyNat Sorting.Permutation Sorting.Sorted.

(* the ids of first deliveries, in delivery order: keep an id the first time it occurs *)
Fixpoint firsts (seen : list N) (l : list N) : list N :=
  match l with
  | [] => []
  | x :: l' => if existsb (N.eqb x) seen then firsts seen l' else x :: firsts (x :: seen) l'
  end.

Definition delivered_ids (s : sub) (os : list sop) : list N :=
  map (fun l => m_id (l_msg l)) (concat (snd (srun s os))).

(* the elements of l that are not in D, in order *)
Definition undel (D l : list N) : list N := filter (fun i => negb (existsb (N.eqb i) D)) l.

(* ---------- list facts ---------- *)
Lemma mem_in x l : existsb (N.eqb x) l = true <-> In x l.
Proof.
  rewrite existsb_exists. split.
  - intros [y [H1 H2]]. apply N.eqb_eq in H2. subst. assumption.
  - intros H. exists x. split; [assumption|apply N.eqb_refl].
Qed.

Lemma mem_ext x l1 l2 : (In x l1 <-> In x l2) -> existsb (N.eqb x) l1 = existsb (N.eqb x) l2.
Proof.
  intros H. destruct (existsb (N.eqb x) l1) eqn:E1, (existsb (N.eqb x) l2) eqn:E2; auto.
  - apply mem_in in E1. apply H in E1. apply mem_in in E1. congruence.
  - apply mem_in in E2. apply H in E2. apply mem_in in E2. congruence.
Qed.

Lemma firsts_ext l : forall s1 s2, (forall x, In x s1 <-> In x s2) -> firsts s1 l = firsts s2 l.
Proof.
  induction l as [|x l IH]; intros s1 s2 H; simpl; auto.
  rewrite (mem_ext x s1 s2 (H x)). destruct (existsb (N.eqb x) s2); [apply IH; assumption|].
  f_equal. apply IH. intros y. simpl. rewrite H. tauto.
Qed.

Lemma firsts_app l1 : forall seen l2,
  firsts seen (l1 ++ l2) = firsts seen l1 ++ firsts (l1 ++ seen) l2.
Proof.
  induction l1 as [|x l1 IH]; intros seen l2; simpl; auto.
  destruct (existsb (N.eqb x) seen) eqn:E.
  - rewrite IH. f_equal. apply firsts_ext. intros y. simpl. apply mem_in in E.
    rewrite !in_app_iff. split; [tauto|]. intros [Hy|Hy]; [subst; auto|assumption].
  - simpl. f_equal. rewrite IH. f_equal. apply firsts_ext. intros y. simpl.
    rewrite !in_app_iff. simpl. tauto.
Qed.

Lemma undel_nil D : undel D [] = [].
Proof. reflexivity. Qed.

Lemma undel_app D l1 l2 : undel D (l1 ++ l2) = undel D l1 ++ undel D l2.
Proof. apply filter_app. Qed.

Lemma undel_ext D1 D2 l : (forall i, In i l -> (In i D1 <-> In i D2)) -> undel D1 l = undel D2 l.
Proof.
  intros H. unfold undel. apply filter_ext_in. intros i Hi. f_equal. apply mem_ext. auto.
Qed.

Lemma undel_all_in D l : (forall i, In i l -> In i D) -> undel D l = [].
Proof.
  induction l as [|a l IH]; simpl; intros H; auto.
  assert (E : existsb (N.eqb a) D = true) by (apply mem_in; apply H; auto).
  rewrite E. simpl. apply IH. auto.
Qed.

Lemma undel_none_in D l : (forall i, In i l -> ~ In i D) -> undel D l = l.
Proof.
  induction l as [|a l IH]; simpl; intros H; auto.
  destruct (existsb (N.eqb a) D) eqn:E.
  - apply mem_in in E. exfalso. eapply H; eauto.
  - simpl. f_equal. auto.
Qed.

Lemma firsts_nodup l : forall D, NoDup l -> firsts D l = undel D l.
Proof.
  induction l as [|x l IH]; intros D ND; simpl; auto.
  inversion ND as [|? ? Hn ND']; subst.
  destruct (existsb (N.eqb x) D) eqn:E; simpl; [auto|].
  f_equal. rewrite IH by assumption. apply undel_ext. intros i Hi. simpl.
  split; [intros [E'|?]; [subst; contradiction|assumption]|auto].
Qed.

Lemma ids_app a b : ids (a ++ b) = ids a ++ ids b.
Proof. apply map_app. Qed.

Lemma In_firstn_nodup (P : list N) : forall n k,
  NoDup P -> (k < length P)%nat -> In (nth k P 0) (firstn n P) -> (k < n)%nat.
Proof.
  induction P as [|x P IH]; intros n k ND Hk Hin; simpl in *; [lia|].
  destruct n as [|n]; simpl in Hin; [tauto|].
  destruct k as [|k]; [lia|].
  inversion ND as [|? ? Hn ND']; subst.
  destruct Hin as [Hin|Hin].
  - exfalso. apply Hn. rewrite Hin. apply nth_In. lia.
  - specialize (IH n k ND' ltac:(lia) Hin). lia.
Qed.

Lemma nth_firstn_lt (P : list N) : forall n j, (j < n)%nat -> nth j (firstn n P) 0 = nth j P 0.
Proof.
  induction P as [|x P IH]; intros n j H.
  - rewrite firstn_nil. reflexivity.
  - destruct n as [|n]; [lia|]. destruct j as [|j]; simpl; auto. apply IH. lia.
Qed.

(* ---------- every leased id has been delivered ---------- *)
Definition leased_in (s : sub) (D : list N) : Prop :=
  forall a l, In (a, l) (tr_msgs (s_tr s)) -> In (m_id (l_msg l)) D.

Lemma tr_modify1_leased (D : list N) t na acc m :
  tr_inv t na ->
  (forall a l, In (a, l) (tr_msgs t) -> In (m_id (l_msg l)) D) ->
  (forall l, In l acc -> In (m_id (l_msg l)) D) ->
  (forall a l, In (a, l) (tr_msgs (fst (tr_modify1 (t, acc) m))) -> In (m_id (l_msg l)) D) /\
  (forall l, In l (snd (tr_modify1 (t, acc) m)) -> In (m_id (l_msg l)) D).
Proof.
  intros I H1 H2. destruct m as [a nd]. unfold tr_modify1.
  destruct (alookup N.eqb a (tr_msgs t)) as [l|] eqn:E; [|simpl; auto].
  pose proof (alookup_in _ _ _ E) as Hin. destruct nd as [d|]; simpl.
  - split; auto. intros b x Hx.
    apply aupdate_in in Hx; [|apply I|apply in_map_iff; exists (a, l); auto].
    destruct Hx as [Hx|[_ Hx]]; [|eauto]. injection Hx as -> ->. simpl. eauto.
  - split.
    + intros b x Hx. apply aremove_in in Hx as [_ Hx]; [eauto|apply I].
    + intros x Hx. apply in_app_iff in Hx as [Hx|[<-|[]]]; eauto.
Qed.

Lemma tr_modify_leased (D : list N) na mods : forall t acc,
  tr_inv t na ->
  (forall a l, In (a, l) (tr_msgs t) -> In (m_id (l_msg l)) D) ->
  (forall l, In l acc -> In (m_id (l_msg l)) D) ->
  (forall a l, In (a, l) (tr_msgs (fst (fold_left tr_modify1 mods (t, acc)))) -> In (m_id (l_msg l)) D) /\
  (forall l, In l (snd (fold_left tr_modify1 mods (t, acc))) -> In (m_id (l_msg l)) D).
Proof.
  induction mods as [|m mods IH]; intros t acc I H1 H2; cbn [fold_left]; [simpl; auto|].
  pose proof (tr_modify1_leased D t na acc m I H1 H2) as [G1 G2].
  pose proof (tr_modify1_inv t na acc m I) as I1.
  destruct (tr_modify1 (t, acc) m) as [t1 acc1]. simpl in *. apply IH; assumption.
Qed.

(* modify / expire change the backlog only by appending already-delivered messages *)
Lemma sub_modify_order mods s D :
  sub_inv s -> s_deleted s = false -> leased_in s D ->
  leased_in (sub_modify mods s) D /\
  exists back, s_backlog (sub_modify mods s) = s_backlog s ++ back /\
               forall m, In m back -> In (m_id m) D.
Proof.
  intros I Hd L. unfold sub_modify. rewrite Hd.
  pose proof (tr_modify_leased D _ mods (s_tr s) [] I L ltac:(simpl; tauto)) as [G1 G2].
  unfold tr_modify. destruct (fold_left tr_modify1 mods (s_tr s, [])) as [t' nacked]. simpl in *.
  split; [exact G1|]. exists (map l_msg nacked). split; [reflexivity|].
  intros m Hm. apply in_map_iff in Hm as [l [<- Hl]]. auto.
Qed.

Lemma sub_expire_order now s D :
  sub_inv s -> leased_in s D ->
  leased_in (sub_expire now s) D /\
  exists back, s_backlog (sub_expire now s) = s_backlog s ++ back /\
               forall m, In m back -> In (m_id m) D.
Proof.
  intros I L. destruct (sub_expire_spec now s I) as (_ & _ & H3 & back & Hb & Hback).
  pose proof (sub_expire_inv now s I) as I'. split.
  - intros a l Hin.
    assert (Hl : live (sub_expire now s) a = Some l) by (unfold live; apply in_alookup; [apply I'|exact Hin]).
    destruct (H3 a l Hl) as [Hl0 _]. unfold live in Hl0. apply alookup_in in Hl0. eapply L; eauto.
  - exists back. split; [exact Hb|]. intros m Hm. destruct (Hback m Hm) as (a & l & Hl & _ & <-).
    unfold live in Hl. apply alookup_in in Hl. eapply L; eauto.
Qed.

Lemma sub_ack_order acks s D :
  sub_inv s -> s_deleted s = false -> leased_in s D ->
  leased_in (sub_ack acks s) D /\ s_backlog (sub_ack acks s) = s_backlog s.
Proof.
  intros I Hd L. destruct (sub_ack_frame acks s I Hd) as (Hb & _ & Hlk). split; [|exact Hb].
  pose proof (sub_ack_inv acks s I) as I'. intros a l Hin.
  assert (Hl : live (sub_ack acks s) a = Some l) by (unfold live; apply in_alookup; [apply I'|exact Hin]).
  rewrite Hlk in Hl. destruct (existsb (N.eqb a) acks); [discriminate|].
  unfold live in Hl. apply alookup_in in Hl. eapply L; eauto.
Qed.

(* ---------- one turn ---------- *)
Definition posted1 (o : sop) : list msg := match o with OPost ms => ms | _ => [] end.

Lemma posted_cons o os : posted (o :: os) = posted1 o ++ posted os.
Proof. reflexivity. Qed.

Lemma delivered_cons s o os :
  delivered_ids s (o :: os) =
  map (fun l => m_id (l_msg l)) (snd (sstep s o)) ++ delivered_ids (fst (sstep s o)) os.
Proof.
  unfold delivered_ids. cbn [srun]. destruct (sstep s o) as [s1 d]. cbn [fst snd].
  destruct (srun s1 os) as [s2 ds]. cbn [fst snd concat]. apply map_app.
Qed.

Lemma sstep_conserve s o :
  sub_inv s -> s_deleted s = false ->
  exists g, Permutation (held s ++ posted1 o) (g ++ held (fst (sstep s o))).
Proof.
  intros I Hd. destruct o as [ms|max now|acks|mods|now]; simpl; rewrite ?app_nil_r.
  - exists []. simpl. symmetry. apply sub_post_held. assumption.
  - exists []. simpl. symmetry. apply sub_pull_held. assumption.
  - destruct (sub_ack_held acks s I) as [g [P _]]. exists g. exact P.
  - exists []. simpl. symmetry. apply sub_modify_held. assumption.
  - exists []. simpl. symmetry. apply sub_expire_held. assumption.
Qed.

Lemma sstep_order s o D :
  sub_inv s -> s_deleted s = false -> leased_in s D -> NoDup (ids (held s)) ->
  (forall i, In i (ids (posted1 o)) -> ~ In i D) ->
  leased_in (fst (sstep s o)) (map (fun l => m_id (l_msg l)) (snd (sstep s o)) ++ D) /\
  firsts D (map (fun l => m_id (l_msg l)) (snd (sstep s o)))
    = undel D (map (fun l => m_id (l_msg l)) (snd (sstep s o))) /\
  undel D (ids (s_backlog s)) ++ ids (posted1 o)
    = undel D (map (fun l => m_id (l_msg l)) (snd (sstep s o)))
      ++ undel (map (fun l => m_id (l_msg l)) (snd (sstep s o)) ++ D) (ids (s_backlog (fst (sstep s o)))) /\
  (forall i, In i (map (fun l => m_id (l_msg l)) (snd (sstep s o))) -> In i (ids (held s))).
Proof.
  intros I Hd L ND Hp. destruct o as [ms|max now|acks|mods|now]; cbn [sstep posted1 fst snd map app];
    rewrite ?undel_nil; cbn [app].
  - (* post *)
    unfold sub_post. rewrite Hd. cbn [set_backlog_tr s_backlog].
    split; [exact L|]. split; [reflexivity|]. split; [|simpl; tauto].
    rewrite ids_app, undel_app. f_equal. symmetry. apply undel_none_in. exact Hp.
  - (* pull *)
    pose proof (sub_pull_spec max now s I Hd) as H. destruct (sub_pull max now s) as [s' ls].
    destruct H as (H1 & H2 & _ & _ & _ & _ & H7). cbn [fst snd].
    pose proof (skip_take_N (pull_count max (len_N (s_backlog s))) (s_backlog s)) as ST.
    remember (take_N (pull_count max (len_N (s_backlog s))) (s_backlog s)) as T.
    remember (skip_N (pull_count max (len_N (s_backlog s))) (s_backlog s)) as K.
    assert (Ed : map (fun l => m_id (l_msg l)) ls = ids T).
    { rewrite <- H1. unfold ids. rewrite map_map. reflexivity. }
    rewrite Ed, H2.
    assert (NDb : NoDup (ids T ++ ids K)).
    { unfold held in ND. rewrite ids_app in ND. apply NoDup_app_l in ND.
      rewrite <- ST, ids_app in ND. exact ND. }
    split; [|split; [|split]].
    + intros a l Hin. rewrite H7 in Hin. apply in_app_iff. apply in_app_iff in Hin as [Hin|Hin].
      * right. eapply L; eauto.
      * left. apply in_map_iff in Hin as [x [Hx Hin]]. injection Hx as <- <-.
        rewrite <- Ed. apply in_map_iff. exists x. auto.
    + apply firsts_nodup. apply NoDup_app_l in NDb. exact NDb.
    + unfold ids at 2. cbn [map]. rewrite app_nil_r. rewrite <- ST at 1.
      rewrite ids_app, undel_app. f_equal. apply undel_ext. intros i Hi. rewrite in_app_iff.
      split; auto. intros [Hi2|Hi2]; auto. exfalso. eapply (NoDup_app_disjoint _ _ i NDb); eauto.
    + intros i Hi. unfold held. rewrite ids_app, in_app_iff. left. rewrite <- ST.
      rewrite ids_app, in_app_iff. left. exact Hi.
  - (* ack *)
    destruct (sub_ack_order acks s D I Hd L) as [L1 Hb]. rewrite Hb.
    split; [exact L1|]. split; [reflexivity|]. split; [|simpl; tauto].
    unfold ids at 2. cbn [map]. rewrite app_nil_r. reflexivity.
  - (* modify *)
    destruct (sub_modify_order mods s D I Hd L) as (L1 & back & Hb & Hback). rewrite Hb.
    split; [exact L1|]. split; [reflexivity|]. split; [|simpl; tauto].
    unfold ids at 2. cbn [map]. rewrite app_nil_r. rewrite ids_app, undel_app.
    rewrite (undel_all_in D (ids back)); [rewrite app_nil_r; reflexivity|].
    intros i Hi. apply in_map_iff in Hi as [m [<- Hm]]. auto.
  - (* expire *)
    destruct (sub_expire_order now s D I L) as (L1 & back & Hb & Hback). rewrite Hb.
    split; [exact L1|]. split; [reflexivity|]. split; [|simpl; tauto].
    unfold ids at 2. cbn [map]. rewrite app_nil_r. rewrite ids_app, undel_app.
    rewrite (undel_all_in D (ids back)); [rewrite app_nil_r; reflexivity|].
    intros i Hi. apply in_map_iff in Hi as [m [<- Hm]]. auto.
Qed.

(* ---------- the general statement: any start state, any set D of ids
   already delivered that covers the leased ones ---------- *)
Theorem first_deliveries_prefix_gen : forall os s D,
  sub_inv s -> s_deleted s = false -> leased_in s D ->
  NoDup (ids (held s) ++ ids (posted os)) ->
  (forall i, In i (ids (posted os)) -> ~ In i D) ->
  exists n, firsts D (delivered_ids s os)
            = firstn n (undel D (ids (s_backlog s)) ++ ids (posted os)).
Proof.
  induction os as [|o os IH]; intros s D I Hd L ND Hp.
  - exists 0%nat. reflexivity.
  - rewrite delivered_cons. rewrite posted_cons in *. rewrite ids_app in *.
    assert (NDh : NoDup (ids (held s))) by (apply NoDup_app_l in ND; exact ND).
    assert (Hp1 : forall i, In i (ids (posted1 o)) -> ~ In i D).
    { intros i Hi. apply Hp. apply in_app_iff. auto. }
    destruct (sstep_order s o D I Hd L NDh Hp1) as (L1 & F1 & B1 & Dh).
    pose proof (sstep_inv s o I) as I1. pose proof (sstep_deleted s o) as Hd1. rewrite Hd in Hd1.
    destruct (sstep_conserve s o I Hd) as [g Pg].
    remember (fst (sstep s o)) as s1.
    remember (map (fun l => m_id (l_msg l)) (snd (sstep s o))) as d.
    assert (ND1 : NoDup (ids (held s1) ++ ids (posted os))).
    { rewrite app_assoc in ND. rewrite <- ids_app in ND.
      eapply Permutation_NoDup in ND; [|apply Permutation_app_tail; apply perm_ids; exact Pg].
      rewrite ids_app, <- app_assoc in ND. apply NoDup_app_r in ND. exact ND. }
    assert (Hp2 : forall i, In i (ids (posted os)) -> ~ In i (d ++ D)).
    { intros i Hi Hin. apply in_app_iff in Hin as [Hin|Hin].
      - apply Dh in Hin. eapply (NoDup_app_disjoint _ _ i ND); eauto. apply in_app_iff. auto.
      - eapply Hp; eauto. apply in_app_iff. auto. }
    destruct (IH s1 (d ++ D) I1 Hd1 L1 ND1 Hp2) as [n Hn].
    exists (length (undel D d) + n)%nat. rewrite firsts_app, Hn, F1.
    rewrite app_assoc, B1, <- app_assoc. symmetry. apply firstn_app_2.
Qed.

(* a start state that already holds messages: not counting what is leased at
   the start, first deliveries follow queue order then publish order *)
Theorem first_deliveries_prefix_held os s :
  sub_inv s -> s_deleted s = false ->
  NoDup (ids (held s) ++ ids (posted os)) ->
  exists n, firsts (ids (out_msgs s)) (delivered_ids s os)
            = firstn n (ids (s_backlog s) ++ ids (posted os)).
Proof.
  intros I Hd ND.
  assert (L : leased_in s (ids (out_msgs s))).
  { intros a l Hin. unfold ids, out_msgs. rewrite map_map. apply in_map_iff. exists (a, l). auto. }
  assert (Hp : forall i, In i (ids (posted os)) -> ~ In i (ids (out_msgs s))).
  { intros i Hi Hin. eapply (NoDup_app_disjoint _ _ i ND); eauto.
    unfold held. rewrite ids_app. apply in_app_iff. auto. }
  destruct (first_deliveries_prefix_gen os s _ I Hd L ND Hp) as [n Hn]. exists n. rewrite Hn.
  rewrite undel_none_in; [reflexivity|].
  intros i Hi Hin. apply NoDup_app_l in ND. unfold held in ND. rewrite ids_app in ND.
  eapply (NoDup_app_disjoint _ _ i ND); eauto.
Qed.

(* ---------- C08 ---------- *)
Theorem first_deliveries_in_publish_order : forall os s,
  sub_inv s -> s_deleted s = false -> s_backlog s = [] -> tr_msgs (s_tr s) = [] ->
  NoDup (ids (posted os)) ->
  exists n, firsts [] (delivered_ids s os) = firstn n (ids (posted os)).
Proof.
  intros os s I Hd Hb Ht ND.
  assert (Hh : held s = []) by (unfold held, out_msgs; rewrite Hb, Ht; reflexivity).
  assert (L : leased_in s []) by (intros a l Hin; rewrite Ht in Hin; destruct Hin).
  destruct (first_deliveries_prefix_gen os s [] I Hd L) as [n Hn].
  - rewrite Hh. exact ND.
  - intros i _ [].
  - exists n. rewrite Hn, Hb. reflexivity.
Qed.

(* ---------- corollaries ---------- *)

(* the set of first-delivered messages is downward closed in publish order, and
   the position of a message among the first deliveries is its publish position *)
Corollary first_deliveries_downward_closed os s j k :
  sub_inv s -> s_deleted s = false -> s_backlog s = [] -> tr_msgs (s_tr s) = [] ->
  NoDup (ids (posted os)) ->
  (j <= k)%nat -> (k < length (ids (posted os)))%nat ->
  In (nth k (ids (posted os)) 0) (firsts [] (delivered_ids s os)) ->
  (k < length (firsts [] (delivered_ids s os)))%nat /\
  nth j (firsts [] (delivered_ids s os)) 0 = nth j (ids (posted os)) 0.
Proof.
  intros I Hd Hb Ht ND Hjk Hk Hin.
  destruct (first_deliveries_in_publish_order os s I Hd Hb Ht ND) as [n Hn]. rewrite Hn in *.
  pose proof (In_firstn_nodup _ n k ND Hk Hin) as Hkn. split.
  - rewrite firstn_length. lia.
  - apply nth_firstn_lt. lia.
Qed.

(* i < j < k positions in the publish sequence (in particular three messages of
   one Publish request): if the messages at i and k are first-delivered, so is
   the one at j, and the three are first-delivered in the order i, j, k (at
   exactly these positions of the first-delivery sequence). *)
Corollary publish_batches_contiguous os s i j k :
  sub_inv s -> s_deleted s = false -> s_backlog s = [] -> tr_msgs (s_tr s) = [] ->
  NoDup (ids (posted os)) ->
  (i < j < k)%nat -> (k < length (ids (posted os)))%nat ->
  In (nth i (ids (posted os)) 0) (firsts [] (delivered_ids s os)) ->
  In (nth k (ids (posted os)) 0) (firsts [] (delivered_ids s os)) ->
  In (nth j (ids (posted os)) 0) (firsts [] (delivered_ids s os)) /\
  (k < length (firsts [] (delivered_ids s os)))%nat /\
  nth i (firsts [] (delivered_ids s os)) 0 = nth i (ids (posted os)) 0 /\
  nth j (firsts [] (delivered_ids s os)) 0 = nth j (ids (posted os)) 0 /\
  nth k (firsts [] (delivered_ids s os)) 0 = nth k (ids (posted os)) 0.
Proof.
  intros I Hd Hb Ht ND Hijk Hk _ Hin.
  destruct (first_deliveries_downward_closed os s i k I Hd Hb Ht ND ltac:(lia) Hk Hin) as [Hlen Ei].
  destruct (first_deliveries_downward_closed os s j k I Hd Hb Ht ND ltac:(lia) Hk Hin) as [_ Ej].
  destruct (first_deliveries_downward_closed os s k k I Hd Hb Ht ND ltac:(lia) Hk Hin) as [_ Ek].
  split; [|auto]. rewrite <- Ej. apply nth_In. lia.
Qed.

Lemma posted_app a b : posted (a ++ b) = posted a ++ posted b.
Proof. induction a as [|o a IH]; simpl; auto. rewrite IH. apply app_assoc. Qed.

(* the first-delivered part of one Publish batch is a prefix of the batch and
   forms one contiguous block of the first-delivery sequence, after the
   first deliveries of everything published before and before anything
   published later *)
Corollary publish_batch_block os1 ms os2 s :
  sub_inv s -> s_deleted s = false -> s_backlog s = [] -> tr_msgs (s_tr s) = [] ->
  NoDup (ids (posted (os1 ++ OPost ms :: os2))) ->
  exists n,
    firsts [] (delivered_ids s (os1 ++ OPost ms :: os2)) =
      firstn n (ids (posted os1))
      ++ firstn (n - length (posted os1)) (ids ms)
      ++ firstn (n - length (posted os1) - length ms) (ids (posted os2)).
Proof.
  intros I Hd Hb Ht ND.
  destruct (first_deliveries_in_publish_order _ s I Hd Hb Ht ND) as [n Hn]. exists n. rewrite Hn.
  rewrite posted_app, posted_cons. cbn [posted1]. rewrite !ids_app, !firstn_app.
  unfold ids. rewrite !map_length. reflexivity.
Qed.

(* the leases of first deliveries *)
Fixpoint first_leases (seen : list N) (ls : list lease) : list lease :=
  match ls with
  | [] => []
  | l :: ls' => if existsb (N.eqb (m_id (l_msg l))) seen then first_leases seen ls'
                else l :: first_leases (m_id (l_msg l) :: seen) ls'
  end.

Lemma first_leases_ids ls : forall seen,
  map (fun l => m_id (l_msg l)) (first_leases seen ls) = firsts seen (map (fun l => m_id (l_msg l)) ls).
Proof.
  induction ls as [|l ls IH]; intros seen; simpl; auto.
  destruct (existsb (N.eqb (m_id (l_msg l))) seen); simpl; rewrite IH; reflexivity.
Qed.

Lemma first_leases_in ls : forall seen l, In l (first_leases seen ls) -> In l ls.
Proof.
  induction ls as [|x ls IH]; intros seen l; simpl; auto.
  destruct (existsb (N.eqb (m_id (l_msg x))) seen); simpl; intros H.
  - right. eapply IH; eauto.
  - destruct H as [H|H]; auto. right. eapply IH; eauto.
Qed.

Lemma first_leases_sorted ls : forall seen,
  StronglySorted N.lt (map l_ack ls) -> StronglySorted N.lt (map l_ack (first_leases seen ls)).
Proof.
  induction ls as [|x ls IH]; intros seen S; simpl; [constructor|].
  simpl in S. inversion S as [|? ? S' F]; subst.
  destruct (existsb (N.eqb (m_id (l_msg x))) seen); [auto|]. simpl. constructor; [auto|].
  rewrite Forall_forall in *. intros y Hy. apply in_map_iff in Hy as [l [<- Hl]].
  apply first_leases_in in Hl. apply F. apply in_map. assumption.
Qed.

(* along the first deliveries (which are in publish order) the ack ids strictly increase *)
Corollary first_delivery_ack_ids_increase os s :
  sub_inv s -> s_deleted s = false -> s_backlog s = [] -> tr_msgs (s_tr s) = [] ->
  NoDup (ids (posted os)) ->
  (exists n, map (fun l => m_id (l_msg l)) (first_leases [] (concat (snd (srun s os))))
             = firstn n (ids (posted os))) /\
  StronglySorted N.lt (map l_ack (first_leases [] (concat (snd (srun s os))))).
Proof.
  intros I Hd Hb Ht ND. split.
  - rewrite first_leases_ids. apply (first_deliveries_in_publish_order os s I Hd Hb Ht ND).
  - apply first_leases_sorted. apply (ack_ids_increasing os s I).
Qed.

(* ---------- a concrete history: the redelivery is out of order, the first deliveries are not ---------- *)
Definition ex_msg (i : N) : msg := {| m_id := i; m_data := []; m_attrs := []; m_pt := 0 |}.
Definition ex_sub : sub := sub_new ([], []) 1 1 10 None.
Definition ex_hist : list sop :=
  [ OPost [ex_msg 1; ex_msg 2; ex_msg 3];
    OPull 1 0;
    OMod [(1, None)];            (* nack the lease just handed out (ack id 1) *)
    OPost [ex_msg 4; ex_msg 5];
    OPull 10 0 ].

Example ex_redelivery_out_of_order :
  delivered_ids ex_sub ex_hist = [1; 2; 3; 1; 4; 5] /\
  firsts [] (delivered_ids ex_sub ex_hist) = [1; 2; 3; 4; 5] /\
  firsts [] (delivered_ids ex_sub ex_hist) = firstn 5 (ids (posted ex_hist)).
Proof. vm_compute. repeat split. Qed.

Print Assumptions first_deliveries_in_publish_order.
Print Assumptions publish_batches_contiguous.
Print Assumptions first_delivery_ack_ids_increase.
