(* ConcActorsP: proofs about the actor model of Model/ConcActors.v.

   Main results (all for every capacity K >= 1, any number of topics, subscriptions,
   clients and requests, any schedule; LArrive and LDrop steps are part of [reachable]):

     C07_progress                 drain = true: something outstanding => a server step is enabled
     C07_bounded                  a run of server steps from a reachable state has at most
                                  [measure st] steps ([measure_step]: each one decreases it)
     C07_terminates               drain = true: quiescence with nothing outstanding is reached
                                  within [measure st] server steps
     C07_refuted_without_drain    drain = false, K = 2 (and _16: K = 16): a reachable state with
                                  a Publish and a Delete pending and no server step enabled
     C16_attached                 drain = true: at quiescence a stored, non-deleted subscription
                                  whose topic is alive is attached to it
     C16_no_wedge                 progress after any continuation (drops included)
     C16_effect_sub / _topic      mailboxes are FIFO queues that only the owner dequeues
     C16_drop_local               LDrop changes nothing but the dropped client task
     C16_effect_independent       server steps do not depend on the client tasks
     quiescent_iff_idle           quiescent <-> busyb = false (reachable, drain = true)
     C11_attached_only_live       drain = true, guard = true: at quiescence the attachment list
                                  of a live topic holds only stored, undeleted subscriptions
                                  created on it (converse of C16_attached)
     C11_quiescent_exact          ... hence it is exactly that set
     C11_refuted_without_guard    drain = true, guard = false, K = 2: a reachable quiescent state
                                  with an exited subscription attached to a live topic, after
                                  which a Publish ends CDone false
   All the C07/C16 results hold for both values of [guard]; only the C11 results need it.
     C08_posts_in_publish_order   every reachable state, any flags: what a subscription has been
                                  given (handled posts then queued posts) is strictly
                                  increasing in the topic's Publish sequence numbers, bounded
                                  by the topic's counter, and the Publish in progress has
                                  one post task per subscription, sent at most once
     C08_no_duplicate, C08_log_in_publish_order   corollaries
     C08_refuted_without_await    the variant [xstep] (topic does not wait for its post
                                  tasks): a reachable state with log [1; 0]
   and examples by vm_compute at the end. *)

From Coq Require Import List NArith Arith Bool Lia Sorted.
Import ListNotations.
From Deltio Require Import Model.ConcActors.
Set Implicit Arguments.

Section ListLib.
Variable A : Type.
Implicit Types (l : list A) (x y z : A) (i j : nat).

Lemma set_length : forall l i x, length (set i x l) = length l.
Proof. induction l; destruct i; simpl; intros; auto. Qed.

Lemma nth_set_eq : forall l i x, i < length l -> nth_error (set i x l) i = Some x.
Proof. induction l; destruct i; simpl; intros; try lia; auto. apply IHl; lia. Qed.

Lemma nth_set_neq : forall l i j x, i <> j -> nth_error (set i x l) j = nth_error l j.
Proof. induction l; destruct i, j; simpl; intros; try congruence; auto. Qed.

Lemma nth_Some_lt : forall l i x, nth_error l i = Some x -> i < length l.
Proof. intros. apply nth_error_Some. congruence. Qed.

Lemma nth_set_inv : forall l i j x z, nth_error (set i x l) j = Some z ->
  (j = i /\ z = x) \/ (j <> i /\ nth_error l j = Some z).
Proof.
  intros. destruct (Nat.eq_dec j i) as [->|N].
  - left. split; auto. assert (i < length l).
    { apply nth_Some_lt in H. now rewrite set_length in H. }
    rewrite nth_set_eq in H by auto. congruence.
  - right. split; auto. rewrite nth_set_neq in H; auto.
Qed.

Lemma nth_snoc_inv : forall l x j z, nth_error (l ++ [x]) j = Some z ->
  nth_error l j = Some z \/ (j = length l /\ z = x).
Proof.
  intros. destruct (Nat.lt_ge_cases j (length l)).
  - rewrite nth_error_app1 in H by auto. auto.
  - rewrite nth_error_app2 in H by auto. right.
    destruct (j - length l) eqn:E; simpl in H.
    + split; [lia|congruence].
    + destruct n; discriminate.
Qed.

Lemma nth_snoc_old : forall l x j z, nth_error l j = Some z -> nth_error (l ++ [x]) j = Some z.
Proof. intros. rewrite nth_error_app1; auto. eapply nth_Some_lt; eauto. Qed.

Lemma nth_snoc_new : forall l x, nth_error (l ++ [x]) (length l) = Some x.
Proof. intros. rewrite nth_error_app2 by lia. now rewrite Nat.sub_diag. Qed.

Lemma nth_set_same : forall l i x y, nth_error l i = Some y -> nth_error (set i x l) i = Some x.
Proof. intros. apply nth_set_eq. eapply nth_Some_lt; eauto. Qed.
End ListLib.

Ltac destr_match H :=
  match type of H with
  | context [match ?x with _ => _ end] =>
      lazymatch x with
      | context [match _ with _ => _ end] => fail
      | _ => destruct x eqn:?
      end
  end.

Ltac step_inv H :=
  unfold step, step_arrive, step_drop, step_csend, step_hsend, step_tdeq, step_post,
    step_tfinish, step_sdeq, step_ssend, step_sfinish in H;
  repeat (destr_match H; try discriminate H);
  injection H as H; subst.


Lemma ex_nth_set : forall A (P : A -> Prop) l t x0 x' j,
  nth_error l t = Some x0 -> (P x0 -> P x') ->
  (exists x, nth_error l j = Some x /\ P x) ->
  exists x, nth_error (set t x' l) j = Some x /\ P x.
Proof.
  intros A P l t x0 x' j Ht Hp [x [Hx HP]].
  destruct (Nat.eq_dec t j) as [->|N].
  - exists x'. split. eapply nth_set_same; eauto. apply Hp. congruence.
  - exists x. split; auto. rewrite nth_set_neq; auto.
Qed.

Lemma ex_nth_snoc : forall A (P : A -> Prop) l y j,
  (exists x, nth_error l j = Some x /\ P x) ->
  exists x, nth_error (l ++ [y]) j = Some x /\ P x.
Proof. intros A P l y j [x [Hx HP]]. exists x. split; auto. now apply nth_snoc_old. Qed.

Ltac inv_nth :=
  repeat match goal with
  | H : nth_error (set _ _ _) _ = Some _ |- _ =>
      apply nth_set_inv in H as [[-> ->]|[? H]]
  | H : nth_error (_ ++ [_]) _ = Some _ |- _ =>
      apply nth_snoc_inv in H as [H|[-> ->]]
  end.

Ltac sproj := cbn [topics subs clients helpers t_mbox t_phase t_atts t_alive
                   s_mbox s_phase s_deleted s_topic s_exists s_log t_seq h_sub h_topic h_caller h_pc] in *.

(* answer_remove *)
Lemma answer_remove_inv : forall s ss j z,
  nth_error (answer_remove s ss) j = Some z ->
  (nth_error ss j = Some z /\ (j = s -> forall stash, s_phase z <> SDel WaitReply stash)) \/
  (j = s /\ exists sb stash, nth_error ss s = Some sb /\ s_phase sb = SDel WaitReply stash /\
     z = {| s_mbox := s_mbox sb; s_phase := SDel Replied stash; s_deleted := s_deleted sb;
            s_topic := s_topic sb; s_exists := s_exists sb; s_log := s_log sb |}).
Proof.
  unfold answer_remove. intros s ss j z H.
  destruct (nth_error ss s) as [sb|] eqn:E.
  2:{ left. split; auto. intros ->. congruence. }
  destruct (s_phase sb) as [|d stash|] eqn:Ep.
  1,3: left; split; auto; intros -> st0; congruence.
  destruct d.
  1,3: left; split; auto; intros -> st0; congruence.
  apply nth_set_inv in H as [[-> ->]|[? H]].
  - right. split; auto. exists sb, stash. auto.
  - left. split; auto.
Qed.

Lemma finish_helper_inv : forall h hs j z,
  nth_error (finish_helper h hs) j = Some z ->
  (nth_error hs j = Some z /\ j <> h) \/
  (j = h /\ exists hp, nth_error hs h = Some hp /\
     z = {| h_sub := h_sub hp; h_topic := h_topic hp; h_caller := h_caller hp; h_pc := HDone |}).
Proof.
  unfold finish_helper. intros h hs j z H.
  destruct (nth_error hs h) as [hp|] eqn:E.
  - apply nth_set_inv in H as [[-> ->]|[? H]]; auto.
    right. split; auto. exists hp. auto.
  - left. split; auto. intros ->. congruence.
Qed.

(* ---------- invariant: an exited actor has an empty mailbox ---------- *)
Definition inv_exit (st : state) : Prop :=
  forall s sb, nth_error (subs st) s = Some sb -> s_phase sb = SExited -> s_mbox sb = [].

Lemma sub_open_true : forall sb, sub_open sb = true -> s_phase sb <> SExited.
Proof. unfold sub_open. intros sb H E. rewrite E in H. discriminate. Qed.
Lemma sub_open_false : forall sb, sub_open sb = false -> s_phase sb = SExited.
Proof. unfold sub_open. intros sb H. destruct (s_phase sb); auto; discriminate. Qed.

Lemma inv_exit_step : forall cfg st l st',
  inv_exit st -> step cfg st l = Some st' -> inv_exit st'.
Proof.
  intros cfg st l st' I H s1 sb1 Hn Hp. unfold inv_exit in I.
  step_inv H; sproj; inv_nth; sproj; eauto; try discriminate.
  all: try (match goal with H : sub_open _ = true |- _ => apply sub_open_true in H end; congruence).
  all: try (apply answer_remove_inv in Hn as [[Hn _]|[-> (sb & stash & Hs & Hph & ->)]]; sproj; eauto; discriminate).

Qed.

(* ---------- invariant: WaitReply => RemoveSubscription is in the topic mailbox ---------- *)
Definition inv_wreply (st : state) : Prop :=
  forall s sb stash, nth_error (subs st) s = Some sb -> s_phase sb = SDel WaitReply stash ->
    exists tp, nth_error (topics st) (s_topic sb) = Some tp /\ In (TRemove s) (t_mbox tp).

(* membership in a mailbox survives an enqueue, and a dequeue of another message *)
Ltac in_mbox :=
  sproj;
  match goal with
  | |- In _ (_ ++ [_]) -> _ => intro; apply in_or_app; auto
  | |- _ -> In _ (_ ++ [_]) => intro; apply in_or_app; auto
  | E : t_mbox ?tp = _ :: ?r |- In ?m (t_mbox ?tp) -> In ?m ?r =>
      let X := fresh in rewrite E; intros [X|X]; [try discriminate X|exact X]
  | |- ?P -> ?P => exact (fun x => x)
  end.

Ltac topic_ex :=
  match goal with
  | |- exists x, nth_error (_ ++ [_]) _ = Some x /\ _ => apply ex_nth_snoc; eauto
  | |- exists x, nth_error (set _ _ _) _ = Some x /\ _ =>
      eapply ex_nth_set; [eassumption| |eauto]; in_mbox
  end.

Lemma inv_wreply_step : forall cfg st l st',
  inv_wreply st -> step cfg st l = Some st' -> inv_wreply st'.
Proof.
  intros cfg st l st' I H s1 sb1 stash1 Hn Hp. unfold inv_wreply in I.
  step_inv H; sproj;
  try (apply answer_remove_inv in Hn as [[Hn Hx]|[-> (sb & stash & Hs & Hph & ->)]]);
  inv_nth; sproj; eauto; try discriminate.
  all: try topic_ex.
  all: try (injection Hp as ? ?; subst; eapply I; eauto; fail).
  - injection H as ->. exfalso. eapply Hx; eauto.
  - eexists; split; [eapply nth_set_same; eauto | sproj; apply in_or_app; simpl; auto].
Qed.

(* ---------- invariant: a helper awaiting its reply has its Attach in the topic mailbox ---------- *)
Definition inv_hawait (st : state) : Prop :=
  forall h hp, nth_error (helpers st) h = Some hp -> h_pc hp = HAwaiting ->
    exists tp, nth_error (topics st) (h_topic hp) = Some tp /\
               In (TAttach (h_sub hp) h) (t_mbox tp).

Lemma inv_hawait_step : forall cfg st l st',
  inv_hawait st -> step cfg st l = Some st' -> inv_hawait st'.
Proof.
  intros cfg st l st' I H h1 hp1 Hn Hp. unfold inv_hawait in I.
  step_inv H; sproj;
  try (apply finish_helper_inv in Hn as [[Hn Hx]|[-> (hp & Hh & ->)]]);
  inv_nth; sproj; eauto; try discriminate.
  all: try topic_ex.
  all: try (injection H as -> ->; congruence).
  - eexists; split; [eapply nth_set_same; eauto | sproj; apply in_or_app; simpl; auto].
Qed.



(* ---------- invariant: an awaiting client is awaited for somewhere ---------- *)
Definition tw (tp : topic) : list nat :=
  flat_map tmsg_repl (t_mbox tp) ++ match t_phase tp with TPub _ c _ _ => [c] | TIdle => [] end.
Definition sw (sb : sub) : list nat :=
  flat_map smsg_repl (s_mbox sb) ++ match s_phase sb with SDel _ stash => stash | _ => [] end.
Definition hw (hp : helper) : list nat :=
  match h_pc hp with HDone => [] | _ => [h_caller hp] end.

Definition waitsT (st : state) (c : nat) : Prop :=
  exists t tp, nth_error (topics st) t = Some tp /\ In c (tw tp).
Definition waitsS (st : state) (c : nat) : Prop :=
  exists s sb, nth_error (subs st) s = Some sb /\ In c (sw sb).
Definition waitsH (st : state) (c : nat) : Prop :=
  exists h hp, nth_error (helpers st) h = Some hp /\ In c (hw hp).
Definition waits st c := waitsT st c \/ waitsS st c \/ waitsH st c.

Definition inv_await (st : state) : Prop :=
  forall c, nth_error (clients st) c = Some CAwait -> waits st c.

Lemma ex2_nth_set : forall A (P : A -> Prop) l t x0 x',
  nth_error l t = Some x0 -> (P x0 -> P x') ->
  (exists j x, nth_error l j = Some x /\ P x) ->
  exists j x, nth_error (set t x' l) j = Some x /\ P x.
Proof.
  intros A P l t x0 x' Ht Hp [j [x [Hx HP]]].
  destruct (Nat.eq_dec t j) as [->|N].
  - exists j, x'. split. eapply nth_set_same; eauto. apply Hp. congruence.
  - exists j, x. split; auto. rewrite nth_set_neq; auto.
Qed.

Lemma ex2_nth_snoc : forall A (P : A -> Prop) l y,
  (exists j x, nth_error l j = Some x /\ P x) ->
  exists j x, nth_error (l ++ [y]) j = Some x /\ P x.
Proof. intros A P l y [j [x [Hx HP]]]. exists j, x. split; auto. now apply nth_snoc_old. Qed.

Lemma reply_inv : forall ok c cl j,
  nth_error (reply ok c cl) j = Some CAwait -> nth_error cl j = Some CAwait /\ j <> c.
Proof.
  unfold reply. intros ok c cl j H.
  destruct (nth_error cl c) as [p|] eqn:E.
  - destruct p; try (split; [exact H|intros ->; congruence]).
    apply nth_set_inv in H as [[_ H]|[N H]]; [discriminate|auto].
  - split; auto. intros ->; congruence.
Qed.

Lemma reply_all_inv : forall ok cs cl j,
  nth_error (reply_all ok cs cl) j = Some CAwait -> nth_error cl j = Some CAwait /\ ~ In j cs.
Proof.
  induction cs; simpl; intros cl j H; auto.
  apply reply_inv in H as [H N]. apply IHcs in H as [H N']. split; auto.
  intros [->|X]; auto.
Qed.

Lemma reply_length : forall ok c cl, length (reply ok c cl) = length cl.
Proof. unfold reply. intros. destruct (nth_error cl c) as [[]|]; auto. apply set_length. Qed.

Lemma reply_all_length : forall ok cs cl, length (reply_all ok cs cl) = length cl.
Proof. induction cs; simpl; intros; auto. rewrite reply_length. auto. Qed.

Lemma finish_helper_waits : forall c h hs,
  (exists h1 hp1, nth_error hs h1 = Some hp1 /\ In c (hw hp1)) ->
  ~ In c (helper_caller h hs) ->
  exists h1 hp1, nth_error (finish_helper h hs) h1 = Some hp1 /\ In c (hw hp1).
Proof.
  intros c h hs [h1 [hp1 [Hn Hi]]] N. unfold finish_helper, helper_caller in *.
  destruct (nth_error hs h) as [hp|] eqn:E; [|eauto].
  destruct (Nat.eq_dec h h1) as [->|D].
  - exfalso. apply N. rewrite Hn in E. injection E as ->. unfold hw in Hi.
    destruct (h_pc hp); simpl in *; tauto.
  - exists h1, hp1. split; auto. rewrite nth_set_neq; auto.
Qed.

Lemma answer_remove_waits : forall c s ss,
  (exists s1 sb1, nth_error ss s1 = Some sb1 /\ In c (sw sb1)) ->
  exists s1 sb1, nth_error (answer_remove s ss) s1 = Some sb1 /\ In c (sw sb1).
Proof.
  intros c s ss X. unfold answer_remove.
  destruct (nth_error ss s) as [sb|] eqn:E; auto.
  destruct (s_phase sb) as [|d stash|] eqn:Ep; auto. destruct d; auto.
  eapply ex2_nth_set; eauto. unfold sw. cbn. rewrite Ep. auto.
Qed.

Ltac destr_recs :=
  repeat match goal with
  | x : topic |- _ => destruct x
  | x : sub |- _ => destruct x
  | x : helper |- _ => destruct x
  end; sproj; subst.

Ltac inv_clients :=
  repeat match goal with
  | H : nth_error (reply _ _ _) _ = Some CAwait |- _ => apply reply_inv in H as [H ?]
  | H : nth_error (reply_all _ _ _) _ = Some CAwait |- _ => apply reply_all_inv in H as [H ?]
  | H : nth_error (set _ _ _) _ = Some CAwait |- _ =>
      let E1 := fresh in let E2 := fresh in
      apply nth_set_inv in H as [[E1 E2]|[? H]]; [try discriminate E2; subst|]
  | H : nth_error (_ ++ [_]) _ = Some CAwait |- _ =>
      let E1 := fresh in let E2 := fresh in
      apply nth_snoc_inv in H as [H|[E1 E2]]; [|try discriminate E2; subst]
  end.

Ltac in_solve :=
  unfold tw, sw, hw; sproj; rewrite ?flat_map_app; simpl; rewrite ?in_app_iff; simpl;
  intuition (subst; try congruence).

Lemma inv_await_step : forall cfg st l st',
  inv_await st -> step cfg st l = Some st' -> inv_await st'.
Proof.
  intros cfg st l st' I H c1 Hc. unfold inv_await in I.
  step_inv H; sproj; inv_clients.
  all: try (specialize (I _ Hc); unfold waits, waitsT, waitsS, waitsH in *; sproj;
            destruct I as [I|[I|I]]; [left|right;left|right;right]).
  all: try assumption.
  all: try (apply ex2_nth_snoc; assumption).
  all: try (eapply ex2_nth_set; [eassumption| |eassumption]; destr_recs; in_solve; fail).
  all: try (apply finish_helper_waits; assumption).
  all: try (apply answer_remove_waits; assumption).
  - right; right. exists (length (helpers st)). eexists. split; [apply nth_snoc_new|].
    unfold hw; simpl; auto.
  - left. exists t. eexists. split; [eapply nth_set_same; eauto|].
    destruct k; in_solve.
  - right; left. exists s. eexists. split; [eapply nth_set_same; eauto|].
    destruct k; in_solve.
Qed.


(* ================================================================== *)
(* C07 / C16: progress                                                 *)

Definition inv_prog (st : state) : Prop :=
  inv_exit st /\ inv_wreply st /\ inv_hawait st /\ inv_await st.

Lemma nth_nil : forall A i, nth_error (@nil A) i = None.
Proof. destruct i; reflexivity. Qed.

Lemma inv_prog_init : inv_prog init.
Proof.
  unfold inv_prog, inv_exit, inv_wreply, inv_hawait, inv_await, init; simpl.
  repeat split; intros *; rewrite nth_nil; discriminate.
Qed.

Lemma inv_prog_reachable : forall cfg st, reachable cfg st -> inv_prog st.
Proof.
  induction 1 as [|st l st' R IH H]. apply inv_prog_init.
  destruct IH as (I1 & I2 & I3 & I4). repeat split.
  - eapply inv_exit_step; eauto.
  - eapply inv_wreply_step; eauto.
  - eapply inv_hawait_step; eauto.
  - eapply inv_await_step; eauto.
Qed.

(* some server-side step is enabled *)
Definition enabled (cfg : config) (st : state) : Prop :=
  exists l st', is_env l = false /\ step cfg st l = Some st'.

(* something is outstanding: a pending client task, a non-empty mailbox, an actor in the
   middle of a handler, or an unfinished helper task *)
Definition busy (st : state) : Prop :=
  (exists c p, nth_error (clients st) c = Some p /\ cpc_pending p = true) \/
  (exists t tp, nth_error (topics st) t = Some tp /\ (t_mbox tp <> [] \/ t_phase tp <> TIdle)) \/
  (exists s sb, nth_error (subs st) s = Some sb /\
                (s_mbox sb <> [] \/ exists d stash, s_phase sb = SDel d stash)) \/
  (exists h hp, nth_error (helpers st) h = Some hp /\ h_pc hp <> HDone).

Lemma full_nonempty : forall A (l : list A) k, 1 <= k -> (length l <? k) = false -> l <> [].
Proof. intros A l k Hk H ->. apply Nat.ltb_ge in H. simpl in H. lia. Qed.

Section Progress.
Variable cfg : config.
Hypothesis HK : 1 <= K cfg.
Hypothesis HD : drain cfg = true.
Variable st : state.
Hypothesis I1 : inv_exit st.
Hypothesis I2 : inv_wreply st.
Hypothesis I3 : inv_hawait st.
Hypothesis I4 : inv_await st.

(* a subscription actor with a non-empty mailbox can dequeue: it is idle, or deleting
   and draining; it cannot have exited *)
Lemma sub_can_dequeue : forall s sb,
  nth_error (subs st) s = Some sb -> s_mbox sb <> [] -> enabled cfg st.
Proof.
  intros s sb Hn Hm. exists (LSDeq s). unfold step, step_sdeq. rewrite Hn.
  destruct (s_mbox sb) as [|m rest] eqn:Em; [congruence|].
  destruct (s_phase sb) as [|d stash|] eqn:Ep.
  - destruct m; eexists; split; reflexivity.
  - rewrite HD. destruct m; eexists; split; reflexivity.
  - exfalso. pose proof (I1 _ Hn Ep). congruence.
Qed.

(* a topic actor with something to do can move, or the subscription it waits for can *)
Lemma topic_can_move : forall t tp,
  nth_error (topics st) t = Some tp -> (t_mbox tp <> [] \/ t_phase tp <> TIdle) -> enabled cfg st.
Proof.
  intros t tp Hn Hw.
  destruct (t_phase tp) as [|pend c ok] eqn:Ep.
  - destruct Hw as [Hw|Hw]; [|congruence].
    exists (LTDeq t). unfold step, step_tdeq. rewrite Hn, Ep.
    destruct (t_mbox tp) as [|m rest]; [congruence|].
    destruct m; eexists; split; reflexivity.
  - destruct pend as [|s r].
    + exists (LTFinish t). unfold step, step_tfinish. rewrite Hn, Ep.
      eexists; split; reflexivity.
    + destruct (nth_error (subs st) s) as [sb|] eqn:Es.
      * destruct (sub_open sb) eqn:Eo.
        -- destruct (length (s_mbox sb) <? K cfg) eqn:Er.
           ++ exists (LPost t s). unfold step, step_post. rewrite Hn, Ep. simpl.
              rewrite Nat.eqb_refl, Es, Eo, Er. eexists; split; reflexivity.
           ++ eapply sub_can_dequeue; eauto. eapply full_nonempty; eauto.
        -- exists (LPost t s). unfold step, step_post. rewrite Hn, Ep. simpl.
           rewrite Nat.eqb_refl, Es, Eo. eexists; split; reflexivity.
      * exists (LPost t s). unfold step, step_post. rewrite Hn, Ep. simpl.
        rewrite Nat.eqb_refl, Es. eexists; split; reflexivity.
Qed.

(* a sender into a topic mailbox: room, or the topic can move *)
Lemma topic_room_or_move : forall t tp,
  nth_error (topics st) t = Some tp ->
  (length (t_mbox tp) <? K cfg) = false -> enabled cfg st.
Proof.
  intros t tp Hn Hf. eapply topic_can_move; eauto. left. eapply full_nonempty; eauto.
Qed.

(* a deleting subscription actor can move, or its topic can *)
Lemma sub_deleting_can_move : forall s sb d stash,
  nth_error (subs st) s = Some sb -> s_phase sb = SDel d stash -> enabled cfg st.
Proof.
  intros s sb d stash Hn Ep. destruct d.
  - destruct (nth_error (topics st) (s_topic sb)) as [tp|] eqn:Et.
    + destruct (length (t_mbox tp) <? K cfg) eqn:Er.
      * exists (LSSend s). unfold step, step_ssend. rewrite Hn, Ep, Et, Er.
        eexists; split; reflexivity.
      * eapply topic_room_or_move; eauto.
    + exists (LSSend s). unfold step, step_ssend. rewrite Hn, Ep, Et.
      eexists; split; reflexivity.
  - destruct (I2 _ Hn Ep) as [tp [Ht Hin]].
    eapply topic_can_move; eauto. left. intros E. rewrite E in Hin. inversion Hin.
  - exists (LSFinish s). unfold step, step_sfinish. rewrite Hn, Ep.
    eexists; split; reflexivity.
Qed.

Lemma helper_can_move : forall h hp,
  nth_error (helpers st) h = Some hp -> h_pc hp <> HDone -> enabled cfg st.
Proof.
  intros h hp Hn Hp. destruct (h_pc hp) eqn:Ep; [| |congruence].
  - destruct (nth_error (topics st) (h_topic hp)) as [tp|] eqn:Et.
    + destruct (length (t_mbox tp) <? K cfg) eqn:Er.
      * exists (LHSend h). unfold step, step_hsend. rewrite Hn, Ep, Et, Er.
        eexists; split; reflexivity.
      * eapply topic_room_or_move; eauto.
    + exists (LHSend h). unfold step, step_hsend. rewrite Hn, Ep, Et.
      eexists; split; reflexivity.
  - destruct (I3 _ Hn Ep) as [tp [Ht Hin]].
    eapply topic_can_move; eauto. left. intros E. rewrite E in Hin. inversion Hin.
Qed.

Lemma client_can_move : forall c p,
  nth_error (clients st) c = Some p -> cpc_pending p = true -> enabled cfg st.
Proof.
  intros c p Hn Hp. destruct p as [t k|s k| | |]; try discriminate.
  - destruct (nth_error (topics st) t) as [tp|] eqn:Et.
    + destruct (length (t_mbox tp) <? K cfg) eqn:Er.
      * exists (LCSend c). unfold step, step_csend. rewrite Hn, Et, Er.
        eexists; split; reflexivity.
      * eapply topic_room_or_move; eauto.
    + exists (LCSend c). unfold step, step_csend. rewrite Hn, Et.
      eexists; split; reflexivity.
  - destruct (nth_error (subs st) s) as [sb|] eqn:Es.
    + destruct (sub_open sb) eqn:Eo.
      * destruct (length (s_mbox sb) <? K cfg) eqn:Er.
        -- exists (LCSend c). unfold step, step_csend. rewrite Hn, Es, Eo, Er.
           eexists; split; reflexivity.
        -- eapply sub_can_dequeue; eauto. eapply full_nonempty; eauto.
      * exists (LCSend c). unfold step, step_csend. rewrite Hn, Es, Eo.
        eexists; split; reflexivity.
    + exists (LCSend c). unfold step, step_csend. rewrite Hn, Es.
      eexists; split; reflexivity.
  - destruct (I4 _ Hn) as [(t & tp & Ht & Hin)|[(s & sb & Hs & Hin)|(h & hp & Hh & Hin)]].
    + eapply topic_can_move; eauto. unfold tw in Hin.
      destruct (t_mbox tp); [|left; congruence].
      destruct (t_phase tp); [inversion Hin|right; congruence].
    + unfold sw in Hin. destruct (s_mbox sb) eqn:Em.
      * destruct (s_phase sb) eqn:Ep; try (inversion Hin; fail).
        eapply sub_deleting_can_move; eauto.
      * eapply sub_can_dequeue; eauto. congruence.
    + eapply helper_can_move; eauto. unfold hw in Hin. intros E. rewrite E in Hin. inversion Hin.
Qed.

Lemma busy_enabled : busy st -> enabled cfg st.
Proof.
  intros [(c & p & Hn & Hp)|[(t & tp & Hn & Hw)|[(s & sb & Hn & Hw)|(h & hp & Hn & Hp)]]].
  - eapply client_can_move; eauto.
  - eapply topic_can_move; eauto.
  - destruct Hw as [Hw|(d & stash & Ep)].
    + eapply sub_can_dequeue; eauto.
    + eapply sub_deleting_can_move; eauto.
  - eapply helper_can_move; eauto.
Qed.
End Progress.

(* C07, no deadlock: with the draining delete, whenever anything is outstanding some
   server-side step is enabled.  Drop and Arrive steps are part of [reachable]. *)
Theorem C07_progress : forall cfg st,
  1 <= K cfg -> drain cfg = true -> reachable cfg st -> busy st ->
  exists l st', is_env l = false /\ step cfg st l = Some st'.
Proof.
  intros cfg st HK HD R B. destruct (inv_prog_reachable R) as (I1 & I2 & I3 & I4).
  eapply busy_enabled; eauto.
Qed.

(* ================================================================== *)
(* Runs                                                                *)

Lemma run_reachable : forall cfg ls st st',
  reachable cfg st -> run cfg st ls = Some st' -> reachable cfg st'.
Proof.
  induction ls as [|l r IH]; simpl; intros st st' R H.
  - injection H as <-. exact R.
  - destruct (step cfg st l) as [st1|] eqn:E; [|discriminate].
    eapply IH; [|exact H]. eapply reach_step; eauto.
Qed.

(* ================================================================== *)
(* C07 refuted for the original code (drain = false)                    *)

(* the original code; the code with the draining delete only; the repaired code *)
Definition cfg_orig (k : nat) : config := {| K := k; drain := false; guard := false |}.
Definition cfg_noguard (k : nat) : config := {| K := k; drain := true; guard := false |}.
Definition cfg_fixed (k : nat) : config := {| K := k; drain := true; guard := true |}.

(* one topic, one attached subscription; a Delete (client 1) and a Publish (client 2)
   are accepted; the subscription starts deleting, k more requests fill its mailbox, the
   subscription's RemoveSubscription reaches the topic mailbox.  The topic actor is busy in
   Publish waiting for room in the subscription's mailbox; the subscription actor is busy in
   Delete waiting for the topic's reply. *)
Definition deadlock_schedule (k : nat) : list label :=
  [LArrive ANewTopic; LArrive (ACreate 0); LHSend 0; LTDeq 0;
   LArrive (AReqS 0 KDelete); LCSend 1; LArrive (AReqT 0 KPublish); LCSend 2; LTDeq 0;
   LSDeq 0] ++
  flat_map (fun i => [LArrive (AReqS 0 KGeneric); LCSend (3 + i)]) (seq 0 k) ++
  [LSSend 0].

Definition deadlock_state (k : nat) : state :=
  {| topics := [{| t_mbox := [TRemove 0]; t_phase := TPub [0] 2 true 0;
                   t_atts := [0]; t_alive := true; t_seq := 1 |}];
     subs := [{| s_mbox := map (fun i => SGeneric (3 + i)) (seq 0 k);
                 s_phase := SDel WaitReply [1]; s_deleted := true;
                 s_topic := 0; s_exists := true; s_log := [] |}];
     clients := CDone true :: CAwait :: CAwait :: map (fun _ => CAwait) (seq 0 k);
     helpers := [{| h_sub := 0; h_topic := 0; h_caller := 0; h_pc := HDone |}] |}.

Ltac case_nat n :=
  destruct n as [|n]; [vm_compute; reflexivity|].

Ltac quiesce_tac :=
  let l := fresh "l" in let H := fresh "H" in
  intros l H; destruct l as [a|c|c|h|t|t s|t|s|s|s]; try discriminate H; clear H;
  [ do 24 (try case_nat c); vm_compute; reflexivity
  | do 3 (try case_nat h); vm_compute; reflexivity
  | do 3 (try case_nat t); vm_compute; reflexivity
  | destruct t as [|[|t]]; destruct s as [|[|s]]; vm_compute; reflexivity
  | do 3 (try case_nat t); vm_compute; reflexivity
  | do 3 (try case_nat s); vm_compute; reflexivity
  | do 3 (try case_nat s); vm_compute; reflexivity
  | do 3 (try case_nat s); vm_compute; reflexivity ].

Theorem C07_refuted_without_drain :
  exists st, reachable (cfg_orig 2) st /\
    (* a Publish (client 2) and a Delete (client 1) are pending ... *)
    nth_error (clients st) 1 = Some CAwait /\ nth_error (clients st) 2 = Some CAwait /\
    (exists tp, nth_error (topics st) 0 = Some tp /\ t_phase tp = TPub [0] 2 true 0) /\
    (exists sb, nth_error (subs st) 0 = Some sb /\ s_phase sb = SDel WaitReply [1]) /\
    busy st /\
    (* ... and no server-side step is enabled *)
    quiescent (cfg_orig 2) st.
Proof.
  exists (deadlock_state 2). split.
  { eapply run_reachable with (ls := deadlock_schedule 2); [apply reach_init|].
    vm_compute. reflexivity. }
  split; [reflexivity|]. split; [reflexivity|].
  split; [eexists; split; reflexivity|]. split; [eexists; split; reflexivity|].
  split.
  { left. exists 1, CAwait. split; reflexivity. }
  unfold quiescent. quiesce_tac.
Qed.

(* the same with the capacity of the real code *)
Theorem C07_refuted_without_drain_16 :
  reachable (cfg_orig 16) (deadlock_state 16) /\ busy (deadlock_state 16) /\
  quiescent (cfg_orig 16) (deadlock_state 16).
Proof.
  split.
  { eapply run_reachable with (ls := deadlock_schedule 16); [apply reach_init|].
    vm_compute. reflexivity. }
  split.
  { left. exists 1, CAwait. split; reflexivity. }
  unfold quiescent. quiesce_tac.
Qed.

(* the very same schedule is harmless with the draining delete: it runs on to a state with
   nothing outstanding and every request completed *)
Example C07_same_schedule_with_drain :
  exists st0 st ls, run (cfg_fixed 2) init (deadlock_schedule 2) = Some st0 /\
    auto (cfg_fixed 2) 100 st0 = (st, ls) /\ busyb st = false /\
    clients st = [CDone true; CDone true; CDone true; CDone true; CDone true].
Proof. do 3 eexists. split; [vm_compute; reflexivity|]. split; [vm_compute; reflexivity|].
  split; reflexivity. Qed.

(* ================================================================== *)
(* C07_bounded: every server-side step strictly decreases [measure]     *)

Lemma sum_app : forall l1 l2, sum (l1 ++ l2) = sum l1 + sum l2.
Proof. induction l1; simpl; intros; auto. rewrite IHl1. lia. Qed.

Lemma sum_map_snoc : forall A (f : A -> nat) l y, sum (map f (l ++ [y])) = sum (map f l) + f y.
Proof. intros. rewrite map_app, sum_app. simpl. lia. Qed.

Lemma sum_map_set : forall A (f : A -> nat) y l i x,
  nth_error l i = Some x -> sum (map f (set i y l)) + f x = sum (map f l) + f y.
Proof.
  induction l as [|a l IH]; intros i x H.
  - rewrite nth_nil in H. discriminate.
  - destruct i; simpl in *.
    + injection H as ->. lia.
    + specialize (IH _ _ H). lia.
Qed.

Lemma sum_reply : forall N ok c cl,
  sum (map (w_client N) (reply ok c cl)) = sum (map (w_client N) cl).
Proof.
  unfold reply. intros. destruct (nth_error cl c) as [p|] eqn:E; auto.
  destruct p; auto. pose proof (sum_map_set (w_client N) (CDone ok) _ _ E). simpl in *. lia.
Qed.

Lemma sum_reply_all : forall N ok cs cl,
  sum (map (w_client N) (reply_all ok cs cl)) = sum (map (w_client N) cl).
Proof. induction cs; simpl; intros; auto. rewrite sum_reply. auto. Qed.

Lemma sum_finish_helper : forall h hs,
  sum (map w_helper (finish_helper h hs)) <= sum (map w_helper hs).
Proof.
  unfold finish_helper. intros. destruct (nth_error hs h) as [hp|] eqn:E; auto.
  pose proof (sum_map_set w_helper {| h_sub := h_sub hp; h_topic := h_topic hp;
    h_caller := h_caller hp; h_pc := HDone |} _ _ E) as X.
  change (w_helper {| h_sub := h_sub hp; h_topic := h_topic hp;
    h_caller := h_caller hp; h_pc := HDone |}) with 0 in X. lia.
Qed.

Lemma answer_remove_length : forall s ss, length (answer_remove s ss) = length ss.
Proof.
  unfold answer_remove. intros. destruct (nth_error ss s) as [sb|]; auto.
  destruct (s_phase sb) as [|[]|]; auto. apply set_length.
Qed.

Lemma sum_answer_remove : forall s ss,
  sum (map w_sub (answer_remove s ss)) = sum (map w_sub ss).
Proof.
  unfold answer_remove. intros. destruct (nth_error ss s) as [sb|] eqn:E; auto.
  destruct (s_phase sb) as [|[] stash|] eqn:Ep; auto.
  pose proof (sum_map_set w_sub {| s_mbox := s_mbox sb; s_phase := SDel Replied stash;
    s_deleted := s_deleted sb; s_topic := s_topic sb; s_exists := s_exists sb; s_log := s_log sb |} _ _ E) as X.
  change (w_sub {| s_mbox := s_mbox sb; s_phase := SDel Replied stash;
    s_deleted := s_deleted sb; s_topic := s_topic sb; s_exists := s_exists sb; s_log := s_log sb |})
    with (sum (map w_smsg (s_mbox sb)) + 1) in X.
  assert (w_sub sb = sum (map w_smsg (s_mbox sb)) + 1) by (unfold w_sub; rewrite Ep; reflexivity).
  lia.
Qed.

Lemma remove1_length : forall s l, mem s l = true -> length (remove1 s l) + 1 = length l.
Proof.
  induction l as [|a l IH]; simpl; intros H; [discriminate|].
  destruct (s =? a); simpl; [lia|]. rewrite <- IH; auto.
Qed.

(* the attachment set of a topic is a duplicate-free set of existing subscriptions *)
Definition inv_atts (st : state) : Prop :=
  (forall t tp, nth_error (topics st) t = Some tp ->
     NoDup (t_atts tp) /\ (forall s, In s (t_atts tp) -> s < length (subs st))) /\
  (forall t tp s h, nth_error (topics st) t = Some tp -> In (TAttach s h) (t_mbox tp) ->
     s < length (subs st)) /\
  (forall h hp, nth_error (helpers st) h = Some hp -> h_sub hp < length (subs st)).

Lemma mem_false_notin : forall s l, mem s l = false -> ~ In s l.
Proof.
  induction l as [|a l IH]; simpl; intros H; auto.
  destruct (s =? a) eqn:E; [discriminate|]. apply Nat.eqb_neq in E.
  intros [->|X]; [congruence|]. now apply IH.
Qed.

Lemma subs_length_mono : forall cfg st l st',
  step cfg st l = Some st' -> length (subs st) <= length (subs st').
Proof.
  intros cfg st l st' H. step_inv H; sproj;
  rewrite ?app_length, ?set_length, ?answer_remove_length; simpl; lia.
Qed.

Lemma inv_atts_step : forall cfg st l st',
  inv_atts st -> step cfg st l = Some st' -> inv_atts st'.
Proof.
  intros cfg st l st' (IA & IB & IC) H.
  assert (HL := subs_length_mono _ _ _ H).
  split; [|split].
  - intros t1 tp1 Hn.
    assert (G : forall tp, NoDup (t_atts tp) /\ (forall s, In s (t_atts tp) -> s < length (subs st)) ->
                NoDup (t_atts tp) /\ (forall s, In s (t_atts tp) -> s < length (subs st'))).
    { intros tp [X Y]. split; auto. intros s Hs. specialize (Y _ Hs). lia. }
    clear HL. apply G. clear G.
    step_inv H; sproj; inv_nth; sproj; eauto.
    all: try (split; [constructor|intros ? []]; fail).
    all: try (destruct (IA _ _ Heqo) as [X Y]; split; auto; fail).
    + destruct (IA _ _ Heqo) as [X Y]. split.
      * constructor; auto. now apply mem_false_notin.
      * intros s0 [<-|Hs]; auto. eapply IB; eauto. rewrite Heql1. left; reflexivity.
    + destruct (IA _ _ Heqo) as [X Y]. unfold remove_all. split.
      * now apply NoDup_filter.
      * intros s0 Hs. apply filter_In in Hs as [Hs _]. auto.
  - intros t1 tp1 s1 h1 Hn Hin. eapply Nat.lt_le_trans; [|exact HL]. clear HL.
    step_inv H; sproj; inv_nth; sproj; eauto.
    all: try (apply in_app_or in Hin as [Hin|[Hin|[]]]; [eauto|try discriminate Hin]).
    all: try (eapply IB; [eassumption|]; match goal with E : t_mbox _ = _ |- _ => rewrite E end;
              right; eassumption).
    + inversion Hin.
    + destruct k; discriminate Hin.
    + injection Hin as <- <-. eauto.
  - intros h1 hp1 Hn. clear HL.
    step_inv H; sproj;
    try (apply finish_helper_inv in Hn as [[Hn Hx]|[-> (hp & Hh & ->)]]);
    inv_nth; sproj; rewrite ?app_length, ?set_length, ?answer_remove_length; simpl; eauto.
    all: try (specialize (IC _ _ Hn); lia).
    lia.
Qed.

Lemma inv_atts_reachable : forall cfg st, reachable cfg st -> inv_atts st.
Proof.
  induction 1 as [|st l st' R IH H].
  - unfold inv_atts, init; simpl. split; [|split]; intros;
    match goal with H : nth_error [] _ = _ |- _ => rewrite nth_nil in H; discriminate H end.
  - eapply inv_atts_step; eauto.
Qed.

Lemma atts_bound : forall st t tp,
  inv_atts st -> nth_error (topics st) t = Some tp -> length (t_atts tp) <= length (subs st).
Proof.
  intros st t tp (IA & _) Hn. destruct (IA _ _ Hn) as [ND B].
  rewrite <- (seq_length (length (subs st)) 0). apply NoDup_incl_length; auto.
  intros s Hs. apply in_seq. specialize (B _ Hs). lia.
Qed.


Ltac sum_set :=
  repeat match goal with
  | Hn : nth_error ?l ?i = Some ?x |- context [sum (map ?f (set ?i ?y ?l))] =>
      let E := fresh "E" in
      pose proof (sum_map_set f y _ _ Hn) as E;
      let v := fresh "v" in
      set (v := sum (map f (set i y l))) in *; clearbody v
  end.

Ltac sum_abs :=
  repeat match goal with
  | |- context [sum (map ?f ?l)] =>
      let v := fresh "w" in set (v := sum (map f l)) in *; clearbody v
  end.

Lemma measure_step : forall cfg st l st',
  inv_atts st -> is_env l = false -> step cfg st l = Some st' -> measure st' < measure st.
Proof.
  intros cfg st l st' IA He H. unfold measure.
  step_inv H; try discriminate He; sproj;
  rewrite ?set_length, ?answer_remove_length, ?sum_reply_all, ?sum_reply, ?sum_answer_remove.
  all: try match goal with |- context [finish_helper ?h ?hs] =>
         pose proof (sum_finish_helper h hs) end.
  all: try match goal with Hn : nth_error (topics _) _ = Some ?tp |- _ =>
         pose proof (atts_bound _ IA Hn) end.
  all: try match goal with Hm : mem _ _ = true |- _ => apply remove1_length in Hm end.
  all: sum_set.
  all: sum_abs.
  all: destr_recs.
  all: unfold w_topic, w_sub, w_helper, w_client in *; sproj.
  all: try match goal with k : tkind |- _ => destruct k end.
  all: try match goal with k : skind |- _ => destruct k end.
  all: rewrite ?map_app, ?sum_app in *; simpl in *.
  all: try lia.
Qed.

Definition internal (ls : list label) : Prop := Forall (fun l => is_env l = false) ls.

(* C07, bounded work: from a reachable state, a run of server-side steps (no new arrivals)
   has at most [measure st] steps. *)
Theorem C07_bounded : forall cfg ls st st',
  reachable cfg st -> internal ls -> run cfg st ls = Some st' ->
  length ls + measure st' <= measure st.
Proof.
  induction ls as [|l r IH]; simpl; intros st st' R I H.
  - injection H as <-. lia.
  - destruct (step cfg st l) as [st1|] eqn:E; [|discriminate].
    inversion I as [|? ? Hl Hr]; subst.
    assert (M : measure st1 < measure st).
    { eapply measure_step; eauto. eapply inv_atts_reachable; eauto. }
    assert (R1 : reachable cfg st1) by (eapply reach_step; eauto).
    specialize (IH _ _ R1 Hr H). lia.
Qed.

(* [busyb] is the executable form of [busy] *)
Lemma busyb_busy : forall st, busyb st = true -> busy st.
Proof.
  unfold busyb, busy. intros st H.
  repeat rewrite orb_true_iff in H. destruct H as [[[H|H]|H]|H];
  apply existsb_exists in H as [x [Hin Hx]]; apply In_nth_error in Hin as [i Hi].
  - left. eauto.
  - right; left. exists i, x. split; auto. unfold topic_busy in Hx.
    destruct (t_mbox x); [|left; congruence]. destruct (t_phase x); [discriminate|right; congruence].
  - right; right; left. exists i, x. split; auto. unfold sub_busy in Hx.
    destruct (s_mbox x); [|left; congruence]. destruct (s_phase x); try discriminate. right; eauto.
  - right; right; right. exists i, x. split; auto. unfold helper_busy in Hx.
    destruct (h_pc x); try discriminate; congruence.
Qed.

Lemma busy_busyb : forall st, busy st -> busyb st = true.
Proof.
  unfold busyb, busy. intros st H. repeat rewrite orb_true_iff.
  destruct H as [(c & p & Hn & Hp)|[(t & tp & Hn & Hw)|[(s & sb & Hn & Hw)|(h & hp & Hn & Hp)]]];
  apply nth_error_In in Hn.
  - left; left; left. apply existsb_exists. eauto.
  - left; left; right. apply existsb_exists. exists tp. split; auto. unfold topic_busy.
    destruct Hw as [Hw|Hw]; destruct (t_mbox tp), (t_phase tp); congruence.
  - left; right. apply existsb_exists. exists sb. split; auto. unfold sub_busy.
    destruct Hw as [Hw|(d & stash & Hw)]; destruct (s_mbox sb), (s_phase sb); congruence.
  - right. apply existsb_exists. exists hp. split; auto. unfold helper_busy.
    destruct (h_pc hp); congruence.
Qed.

(* nothing outstanding => no server-side step is enabled (for any state) *)
Lemma enabled_busy : forall cfg st l st',
  is_env l = false -> step cfg st l = Some st' -> busy st.
Proof.
  intros cfg st l st' He H. unfold busy.
  step_inv H; try discriminate He.
  all: try (left; do 2 eexists; split; [eassumption|reflexivity]; fail).
  all: try (right; right; right; do 2 eexists; split; [eassumption|congruence]; fail).
  all: try (right; left; do 2 eexists; split; [eassumption|]; ((left; congruence) || (right; congruence)); fail).
  all: try (right; right; left; do 2 eexists; split; [eassumption|]; ((left; congruence) || (right; eauto)); fail).
Qed.

Lemma not_busy_quiescent : forall cfg st, busyb st = false -> quiescent cfg st.
Proof.
  intros cfg st H l He. destruct (step cfg st l) as [st'|] eqn:E; auto.
  apply enabled_busy in E; auto. apply busy_busyb in E. congruence.
Qed.

(* C07: with the draining delete the server always reaches quiescence, within [measure st]
   steps, and then nothing is outstanding: every client task has completed or was dropped,
   every mailbox is empty, every helper has finished. *)
Theorem C07_terminates : forall cfg st,
  1 <= K cfg -> drain cfg = true -> reachable cfg st ->
  exists ls st', internal ls /\ run cfg st ls = Some st' /\ length ls <= measure st /\
                 busyb st' = false /\ quiescent cfg st'.
Proof.
  intros cfg st HK HD. remember (S (measure st)) as n eqn:En.
  assert (Hn : measure st < n) by lia. clear En. revert st Hn.
  induction n as [|n IH]; intros st Hn R; [lia|].
  destruct (busyb st) eqn:B.
  - destruct (C07_progress HK HD R (busyb_busy _ B)) as (l & st1 & He & Hs).
    assert (M : measure st1 < measure st).
    { eapply measure_step; eauto. eapply inv_atts_reachable; eauto. }
    assert (R1 : reachable cfg st1) by (eapply reach_step; eauto).
    destruct (IH st1 ltac:(lia) R1) as (ls & st' & Hi & Hr & Hl & Hb & Hq).
    exists (l :: ls), st'. repeat split; auto.
    + constructor; auto.
    + simpl. rewrite Hs. exact Hr.
    + simpl. lia.
  - exists [], st. split; [constructor|]. split; [reflexivity|]. split; [simpl; lia|].
    split; [exact B|]. now apply not_busy_quiescent.
Qed.

(* ================================================================== *)
(* C16: a created subscription ends attached, whatever its caller does  *)

(* a deleting actor has marked itself deleted *)
Definition inv_del (st : state) : Prop :=
  forall s sb d stash, nth_error (subs st) s = Some sb -> s_phase sb = SDel d stash ->
    s_deleted sb = true.

Lemma inv_del_step : forall cfg st l st',
  inv_del st -> step cfg st l = Some st' -> inv_del st'.
Proof.
  intros cfg st l st' I H s1 sb1 d1 stash1 Hn Hp. unfold inv_del in I.
  step_inv H; sproj;
  try (apply answer_remove_inv in Hn as [[Hn Hx]|[-> (sb & stash & Hs & Hph & ->)]]);
  inv_nth; sproj; eauto; try discriminate.
Qed.

(* the helper of Create(s, t) is for an existing subscription whose topic is t *)
Definition inv_hsub (st : state) : Prop :=
  forall h hp, nth_error (helpers st) h = Some hp ->
    exists sb, nth_error (subs st) (h_sub hp) = Some sb /\ s_topic sb = h_topic hp.

Lemma answer_remove_topic : forall s ss j sb,
  nth_error ss j = Some sb ->
  exists sb', nth_error (answer_remove s ss) j = Some sb' /\ s_topic sb' = s_topic sb /\
              s_deleted sb' = s_deleted sb.
Proof.
  intros s ss j sb Hn. unfold answer_remove.
  destruct (nth_error ss s) as [sb0|] eqn:E; eauto.
  destruct (s_phase sb0) as [|[] stash|] eqn:Ep; eauto.
  destruct (Nat.eq_dec s j) as [->|N].
  - eexists. split. eapply nth_set_same; eauto. simpl. split; congruence.
  - exists sb. rewrite nth_set_neq; auto.
Qed.

Lemma inv_hsub_step : forall cfg st l st',
  inv_hsub st -> step cfg st l = Some st' -> inv_hsub st'.
Proof.
  intros cfg st l st' I H h1 hp1 Hn. unfold inv_hsub in I.
  step_inv H; sproj;
  try (apply finish_helper_inv in Hn as [[Hn Hx]|[-> (hp & Hh & ->)]]);
  inv_nth; sproj; eauto.
  all: try (apply ex_nth_snoc; eauto; fail).
  all: try (eapply ex_nth_set; [eassumption| |eauto]; sproj; auto; fail).
  - eexists. split; [apply nth_snoc_new|reflexivity].
  - destruct (I _ _ Hn) as (sb & Hs & Ht).
    destruct (answer_remove_topic s _ _ Hs) as (sb' & Hs' & Ht' & _).
    exists sb'. split; auto. congruence.
Qed.

(* an Attach in a topic mailbox was sent by the helper it names *)
Definition inv_amsg (st : state) : Prop :=
  forall t tp s h, nth_error (topics st) t = Some tp -> In (TAttach s h) (t_mbox tp) ->
    exists hp, nth_error (helpers st) h = Some hp /\ h_sub hp = s /\ h_topic hp = t.

Lemma finish_helper_fields : forall h0 hs h hp,
  nth_error hs h = Some hp ->
  exists hp', nth_error (finish_helper h0 hs) h = Some hp' /\
              h_sub hp' = h_sub hp /\ h_topic hp' = h_topic hp.
Proof.
  intros h0 hs h hp Hn. unfold finish_helper.
  destruct (nth_error hs h0) as [hp0|] eqn:E; eauto.
  destruct (Nat.eq_dec h0 h) as [->|N].
  - eexists. split. eapply nth_set_same; eauto. simpl. split; congruence.
  - exists hp. rewrite nth_set_neq; auto.
Qed.

(* what a step does to the fields that never change *)
Lemma helpers_fields_step : forall cfg st l st' h hp,
  step cfg st l = Some st' -> nth_error (helpers st) h = Some hp ->
  exists hp', nth_error (helpers st') h = Some hp' /\
              h_sub hp' = h_sub hp /\ h_topic hp' = h_topic hp.
Proof.
  intros cfg st l st' h1 hp1 H Hn.
  step_inv H; sproj; eauto using finish_helper_fields.
  - exists hp1. split; auto. now apply nth_snoc_old.
  - destruct (Nat.eq_dec h h1) as [->|N].
    + eexists. split. eapply nth_set_same; eauto. simpl. split; congruence.
    + exists hp1. rewrite nth_set_neq; auto.
  - destruct (Nat.eq_dec h h1) as [->|N].
    + eexists. split. eapply nth_set_same; eauto. simpl. split; congruence.
    + exists hp1. rewrite nth_set_neq; auto.
Qed.

Lemma subs_fields_step : forall cfg st l st' s sb,
  step cfg st l = Some st' -> nth_error (subs st) s = Some sb ->
  exists sb', nth_error (subs st') s = Some sb' /\ s_topic sb' = s_topic sb /\
              (s_deleted sb = true -> s_deleted sb' = true).
Proof.
  intros cfg st l st' s1 sb1 H Hn.
  step_inv H; sproj; eauto.
  all: try (exists sb1; split; [now apply nth_snoc_old|auto]; fail).
  all: try (destruct (answer_remove_topic s _ _ Hn) as (sb' & Hs' & Ht' & Hd');
            exists sb'; split; [auto|split; [auto|congruence]]; fail).
  all: match goal with |- context [set ?s0 _ _] =>
         destruct (Nat.eq_dec s0 s1) as [->|N];
         [eexists; split; [eapply nth_set_same; eauto|simpl; split; [congruence|try congruence; auto]]
         |exists sb1; rewrite nth_set_neq; auto] end.
Qed.

(* where a message found in a topic mailbox after a step comes from *)
Lemma tmbox_origin : forall cfg st l st' t1 tp1 m,
  step cfg st l = Some st' -> nth_error (topics st') t1 = Some tp1 -> In m (t_mbox tp1) ->
  (exists tp, nth_error (topics st) t1 = Some tp /\ In m (t_mbox tp)) \/
  (exists c k, l = LCSend c /\ m = mk_tmsg k c) \/
  (exists h hp, l = LHSend h /\ nth_error (helpers st) h = Some hp /\
                m = TAttach (h_sub hp) h /\ t1 = h_topic hp) \/
  (exists s sb stash, l = LSSend s /\ nth_error (subs st) s = Some sb /\
                s_phase sb = SDel WaitRoom stash /\ m = TRemove s /\ t1 = s_topic sb).
Proof.
  intros cfg st l st' t1 tp1 m H Hn Hin.
  step_inv H; sproj; inv_nth; sproj; eauto.
  all: try (apply in_app_or in Hin as [Hin|[Hin|[]]]; [eauto|subst m]).
  all: try (left; eexists; split; [eassumption|];
            match goal with E : t_mbox _ = _ |- _ => rewrite E end; right; assumption).
  - inversion Hin.
  - right; left. eauto.
  - right; right; left. do 2 eexists. eauto.
  - right; right; right. do 3 eexists. eauto.
Qed.

Lemma inv_amsg_step : forall cfg st l st',
  inv_amsg st -> step cfg st l = Some st' -> inv_amsg st'.
Proof.
  intros cfg st l st' I H t1 tp1 s1 h1 Hn Hin. unfold inv_amsg in I.
  destruct (@tmbox_origin _ _ _ _ _ _ _ H Hn Hin)
    as [(tp & Ht & Hi)|[(c & k & -> & E)|[(h & hp & -> & Hh & E & ->)|(s & sb & stash & -> & _ & _ & E & _)]]].
  - destruct (I _ _ _ _ Ht Hi) as (hp & Hh & <- & <-).
    destruct (@helpers_fields_step _ _ _ _ _ _ H Hh) as (hp' & Hh' & E1 & E2). eauto.
  - destruct k; discriminate E.
  - injection E as -> ->.
    destruct (@helpers_fields_step _ _ _ _ _ _ H Hh) as (hp' & Hh' & E1 & E2). eauto.
  - discriminate E.
Qed.

(* a RemoveSubscription in a topic mailbox comes from a subscription marked deleted *)
Definition inv_rmsg (st : state) : Prop :=
  forall t tp s, nth_error (topics st) t = Some tp -> In (TRemove s) (t_mbox tp) ->
    exists sb, nth_error (subs st) s = Some sb /\ s_deleted sb = true.

Lemma inv_rmsg_step : forall cfg st l st',
  inv_del st -> inv_rmsg st -> step cfg st l = Some st' -> inv_rmsg st'.
Proof.
  intros cfg st l st' ID I H t1 tp1 s1 Hn Hin. unfold inv_rmsg in I.
  destruct (@tmbox_origin _ _ _ _ _ _ _ H Hn Hin)
    as [(tp & Ht & Hi)|[(c & k & -> & E)|[(h & hp & -> & Hh & E & ->)|(s & sb & stash & -> & Hs & Hp & E & _)]]].
  - destruct (I _ _ _ Ht Hi) as (sb & Hs & Hd).
    destruct (@subs_fields_step _ _ _ _ _ _ H Hs) as (sb' & Hs' & _ & Hd'). eauto.
  - destruct k; discriminate E.
  - discriminate E.
  - injection E as ->.
    destruct (@subs_fields_step _ _ _ _ _ _ H Hs) as (sb' & Hs' & _ & Hd').
    exists sb'. split; auto. apply Hd'. eapply ID; eauto.
Qed.

(* the topic of a subscription exists *)
Definition inv_stopic (st : state) : Prop :=
  forall s sb, nth_error (subs st) s = Some sb -> s_topic sb < length (topics st).

Lemma topics_length_mono : forall cfg st l st',
  step cfg st l = Some st' -> length (topics st) <= length (topics st').
Proof.
  intros cfg st l st' H. step_inv H; sproj; rewrite ?app_length, ?set_length; simpl; lia.
Qed.

(* where a subscription found after a step comes from *)
Lemma subs_origin : forall cfg st l st' s1 sb1,
  step cfg st l = Some st' -> nth_error (subs st') s1 = Some sb1 ->
  (exists sb, nth_error (subs st) s1 = Some sb /\ s_topic sb1 = s_topic sb /\
              (s_deleted sb = true -> s_deleted sb1 = true)) \/
  (exists t, l = LArrive (ACreate t) /\ t < length (topics st) /\ s1 = length (subs st) /\
             sb1 = new_sub t /\ length (helpers st') = S (length (helpers st)) /\
             nth_error (helpers st') (length (helpers st)) =
               Some {| h_sub := s1; h_topic := t; h_caller := length (clients st);
                       h_pc := HSending |}).
Proof.
  intros cfg st l st' s1 sb1 H Hn.
  step_inv H; sproj;
  try (apply answer_remove_inv in Hn as [[Hn Hx]|[-> (sb & stash & Hs & Hph & ->)]]);
  inv_nth; sproj; eauto 6.
  right. exists t. apply Nat.ltb_lt in Heqb. rewrite app_length. simpl.
  repeat split; auto; try lia. apply nth_snoc_new.
Qed.

Lemma inv_stopic_step : forall cfg st l st',
  inv_stopic st -> step cfg st l = Some st' -> inv_stopic st'.
Proof.
  intros cfg st l st' I H s1 sb1 Hn.
  pose proof (@topics_length_mono _ _ _ _ H) as HL.
  destruct (@subs_origin _ _ _ _ _ _ H Hn) as [(sb & Hs & Ht & _)|(t & -> & Hlt & _ & -> & _)].
  - rewrite Ht. specialize (I _ _ Hs). lia.
  - simpl. lia.
Qed.

(* what a step does to the attachment set and the alive flag of a topic *)
Lemma topics_atts_step : forall cfg st l st' t tp,
  step cfg st l = Some st' -> nth_error (topics st) t = Some tp ->
  exists tp', nth_error (topics st') t = Some tp' /\
    (t_alive tp' = false \/
     (t_alive tp' = t_alive tp /\
      forall s, In s (t_atts tp) -> In s (t_atts tp') \/ In (TRemove s) (t_mbox tp))).
Proof.
  intros cfg st l st' t1 tp1 H Hn.
  step_inv H; sproj; eauto 6.
  all: try (exists tp1; split; [now apply nth_snoc_old|auto]; fail).
  all: match goal with |- context [set ?t0 _ _] =>
         let E := fresh "E" in
         destruct (Nat.eq_dec t0 t1) as [E|N];
         [rewrite <- E in *; eexists; split; [eapply nth_set_same; eauto|sproj]
         |exists tp1; rewrite nth_set_neq; auto] end.
  all: try match goal with
       | A : nth_error (topics ?z) ?x = Some ?a, B : nth_error (topics ?z) ?x = Some ?b |- _ =>
           assert (a = b) by congruence; subst a end.
  all: try (right; split; [reflexivity|intros; left; assumption]; fail).
  all: try (right; split; [congruence|intros; left; congruence]; fail).
  all: try (left; reflexivity).
  - right. split; auto. intros s0 Hs. left. right. exact Hs.
  - right. split; auto. intros s0 Hs.
    destruct (Nat.eq_dec s0 s) as [->|N].
    + right. rewrite Heql1. left. reflexivity.
    + left. unfold remove_all. apply filter_In. split; auto.
      apply negb_true_iff. now apply Nat.eqb_neq.
Qed.


Lemma mem_true_in : forall s l, mem s l = true -> In s l.
Proof.
  induction l as [|a l IH]; simpl; intros H; [discriminate|].
  destruct (s =? a) eqn:E; auto. apply Nat.eqb_eq in E. auto.
Qed.

Lemma finish_helper_other : forall h hs h1, h <> h1 ->
  nth_error (finish_helper h hs) h1 = nth_error hs h1.
Proof.
  intros. unfold finish_helper. destruct (nth_error hs h); auto. now apply nth_set_neq.
Qed.

Lemma finish_helper_same : forall h hs hp, nth_error hs h = Some hp ->
  nth_error (finish_helper h hs) h =
    Some {| h_sub := h_sub hp; h_topic := h_topic hp; h_caller := h_caller hp; h_pc := HDone |}.
Proof.
  intros. unfold finish_helper. rewrite H. eapply nth_set_same; eauto.
Qed.

Lemma attach_blocked_deleted : forall cfg st s,
  attach_blocked cfg st s = true -> guard cfg = true /\ sub_deleted st s = true.
Proof. unfold attach_blocked. intros. now apply andb_true_iff. Qed.

(* an unfinished helper stays unfinished until its Attach is handled, which attaches unless
   the subscription is already marked deleted (the guard) *)
Lemma helper_done_step : forall cfg st l st' h hp,
  inv_amsg st -> step cfg st l = Some st' ->
  nth_error (helpers st) h = Some hp -> h_pc hp <> HDone ->
  exists hp', nth_error (helpers st') h = Some hp' /\ h_sub hp' = h_sub hp /\
    (h_pc hp' <> HDone \/
     (exists tp', nth_error (topics st') (h_topic hp) = Some tp' /\ In (h_sub hp) (t_atts tp')) \/
     nth_error (topics st) (h_topic hp) = None \/
     sub_deleted st (h_sub hp) = true).
Proof.
  intros cfg st l st' h1 hp1 IM H Hn Hp.
  step_inv H; sproj; eauto 6.
  - exists hp1. split; [now apply nth_snoc_old|auto].
  - destruct (Nat.eq_dec h h1) as [->|N].
    + eexists. split. eapply nth_set_same; eauto. simpl.
      replace hp1 with h0 in * by congruence. split; auto. left. discriminate.
    + exists hp1. rewrite nth_set_neq; auto.
  - destruct (Nat.eq_dec h h1) as [->|N].
    + eexists. split. eapply nth_set_same; eauto. simpl.
      replace hp1 with h0 in * by congruence. split; auto.
    + exists hp1. rewrite nth_set_neq; auto.
  - destruct (Nat.eq_dec h h1) as [->|N].
    + destruct (IM t t0 s h1 Heqo) as (hp & Hh & Es & Et); [rewrite Heql1; left; reflexivity|].
      replace hp with hp1 in * by congruence.
      eexists. split; [apply finish_helper_same; eauto|]. simpl. split; auto.
      right; right; right. rewrite Es. now apply attach_blocked_deleted in Heqb.
    + exists hp1. rewrite finish_helper_other; auto.
  - destruct (Nat.eq_dec h h1) as [->|N].
    + destruct (IM t t0 s h1 Heqo) as (hp & Hh & Es & Et); [rewrite Heql1; left; reflexivity|].
      replace hp with hp1 in * by congruence.
      eexists. split; [apply finish_helper_same; eauto|]. simpl. split; auto.
      right; left. rewrite Et. eexists. split; [eapply nth_set_same; eauto|]. simpl.
      rewrite Es. now apply mem_true_in.
    + exists hp1. rewrite finish_helper_other; auto.
  - destruct (Nat.eq_dec h h1) as [->|N].
    + destruct (IM t t0 s h1 Heqo) as (hp & Hh & Es & Et); [rewrite Heql1; left; reflexivity|].
      replace hp with hp1 in * by congruence.
      eexists. split; [apply finish_helper_same; eauto|]. simpl. split; auto.
      right; left. rewrite Et. eexists. split; [eapply nth_set_same; eauto|]. simpl.
      rewrite Es. left; reflexivity.
    + exists hp1. rewrite finish_helper_other; auto.
Qed.


Definition attached (st : state) (s : nat) (sb : sub) : Prop :=
  exists tp, nth_error (topics st) (s_topic sb) = Some tp /\ In s (t_atts tp).

Definition attach_pending (st : state) (s : nat) : Prop :=
  exists h hp, nth_error (helpers st) h = Some hp /\ h_sub hp = s /\ h_pc hp <> HDone.

(* the key invariant of C16: a stored subscription is attached, or marked deleted, or its
   topic is dead, or its attach task has not finished yet *)
Definition inv_att (st : state) : Prop :=
  forall s sb, nth_error (subs st) s = Some sb ->
    attached st s sb \/ s_deleted sb = true \/ topic_alive st (s_topic sb) = false \/
    attach_pending st s.

Lemma inv_att_step : forall cfg st l st',
  inv_amsg st -> inv_rmsg st -> inv_hsub st -> inv_stopic st ->
  inv_att st -> step cfg st l = Some st' -> inv_att st'.
Proof.
  intros cfg st l st' IM IR IH IT I H s1 sb1 Hn.
  destruct (@subs_origin _ _ _ _ _ _ H Hn)
    as [(sb & Hs & Ht & Hd)|(t & -> & Hlt & -> & -> & HL & Hh)].
  2:{ right; right; right. do 2 eexists. split; [exact Hh|]. simpl. split; auto. discriminate. }
  destruct (I _ _ Hs) as [(tp & Htp & Hin)|[D|[L|(h & hp & Hh & Es & Hp)]]].
  - destruct (@topics_atts_step _ _ _ _ _ _ H Htp) as (tp' & Htp' & [Dead|[_ F]]).
    + right; right; left. unfold topic_alive. rewrite Ht, Htp'. exact Dead.
    + destruct (F _ Hin) as [Hin'|Hrm].
      * left. exists tp'. rewrite Ht. auto.
      * right; left. destruct (IR _ _ _ Htp Hrm) as (sb0 & Hs0 & Hd0).
        apply Hd. congruence.
  - right; left. auto.
  - right; right; left. unfold topic_alive in *.
    destruct (nth_error (topics st) (s_topic sb)) as [tp|] eqn:Htp.
    + destruct (@topics_atts_step _ _ _ _ _ _ H Htp) as (tp' & Htp' & [Dead|[Ea _]]);
        rewrite Ht, Htp'; congruence.
    + apply nth_error_None in Htp. specialize (IT _ _ Hs). lia.
  - destruct (IH _ _ Hh) as (sb0 & Hs0 & Et). rewrite Es in Hs0.
    assert (sb0 = sb) by congruence. subst sb0.
    destruct (@helper_done_step _ _ _ _ _ _ IM H Hh Hp)
      as (hp' & Hh' & Es' & [Hp'|[(tp' & Htp' & Hin')|[Hnone|Hdel]]]).
    + right; right; right. exists h, hp'. split; auto. split; auto. congruence.
    + left. exists tp'. rewrite Ht, Et. split; auto. congruence.
    + apply nth_error_None in Hnone. specialize (IT _ _ Hs). lia.
    + right; left. apply Hd. unfold sub_deleted in Hdel. rewrite Es, Hs in Hdel. exact Hdel.
Qed.

Definition inv_c16 (st : state) : Prop :=
  inv_del st /\ inv_amsg st /\ inv_rmsg st /\ inv_hsub st /\ inv_stopic st /\ inv_att st.

Lemma inv_c16_reachable : forall cfg st, reachable cfg st -> inv_c16 st.
Proof.
  induction 1 as [|st l st' R IH H].
  - unfold inv_c16, inv_del, inv_amsg, inv_rmsg, inv_hsub, inv_stopic, inv_att, init; simpl.
    repeat split; intros;
    match goal with H : nth_error [] _ = _ |- _ => rewrite nth_nil in H; discriminate H end.
  - destruct IH as (I1 & I2 & I3 & I4 & I5 & I6). repeat split.
    + eapply inv_del_step; eauto.
    + eapply inv_amsg_step; eauto.
    + eapply inv_rmsg_step; eauto.
    + eapply inv_hsub_step; eauto.
    + eapply inv_stopic_step; eauto.
    + eapply inv_att_step; eauto.
Qed.

(* C16: at quiescence every subscription that is stored in the manager, is not deleted and
   whose topic is alive is attached to that topic, whatever the callers did (LDrop steps
   are part of [reachable]); in particular a Create dropped right after its first step. *)
Theorem C16_attached : forall cfg st,
  1 <= K cfg -> drain cfg = true -> reachable cfg st -> quiescent cfg st ->
  forall s sb, nth_error (subs st) s = Some sb ->
    s_exists sb = true -> s_deleted sb = false -> topic_alive st (s_topic sb) = true ->
    attached st s sb.
Proof.
  intros cfg st HK HD R Q s sb Hs _ Hd Ha.
  destruct (inv_c16_reachable R) as (_ & _ & _ & _ & _ & I).
  destruct (I _ _ Hs) as [A|[D|[L|(h & hp & Hh & _ & Hp)]]]; auto; try congruence.
  exfalso. assert (B : busy st) by (right; right; right; eauto).
  destruct (C07_progress HK HD R B) as (l & st' & He & Hst).
  rewrite (Q l He) in Hst. discriminate.
Qed.

(* C16, no wedge: the progress theorem is about [reachable], which includes LDrop steps at
   every await point of every client task, so abandoning requests never disables progress. *)
Theorem C16_no_wedge : forall cfg st ls st',
  1 <= K cfg -> drain cfg = true -> reachable cfg st ->
  run cfg st ls = Some st' ->       (* any continuation, e.g. any number of LDrop steps *)
  busy st' -> exists l st'', is_env l = false /\ step cfg st' l = Some st''.
Proof.
  intros cfg st ls st' HK HD R Hr B. eapply C07_progress; eauto. eapply run_reachable; eauto.
Qed.

(* LDrop is enabled at every await point of a client task *)
Lemma drop_enabled : forall cfg st c p,
  nth_error (clients st) c = Some p -> cpc_pending p = true ->
  exists st', step cfg st (LDrop c) = Some st'.
Proof.
  intros cfg st c p Hn Hp. unfold step, step_drop. rewrite Hn.
  destruct p; try discriminate Hp; eexists; reflexivity.
Qed.

(* ================================================================== *)
(* C16_effect: a request that reached a mailbox stays there, in order, until the owner
   dequeues (= handles) it; nothing else removes it, in particular not LDrop.  The only
   other way out is the exit of a deleted subscription, which completes it with an error. *)

Lemma answer_remove_mbox : forall s ss j sb,
  nth_error ss j = Some sb ->
  exists sb', nth_error (answer_remove s ss) j = Some sb' /\ s_mbox sb' = s_mbox sb.
Proof.
  intros s ss j sb Hn. unfold answer_remove.
  destruct (nth_error ss s) as [sb0|] eqn:E; eauto.
  destruct (s_phase sb0) as [|[] stash|] eqn:Ep; eauto.
  destruct (Nat.eq_dec s j) as [->|N].
  - eexists. split. eapply nth_set_same; eauto. simpl. congruence.
  - exists sb. rewrite nth_set_neq; auto.
Qed.

Ltac same_entry :=
  try match goal with
  | A : nth_error ?l ?x = Some ?a, B : nth_error ?l ?x = Some ?b |- _ =>
      assert (a = b) by congruence; subst a
  end.

Ltac at_set s1 sb1 :=
  match goal with |- context [set ?i _ _] =>
    let E := fresh "E" in
    destruct (Nat.eq_dec i s1) as [E|E];
    [rewrite <- E in *; same_entry; eexists; split; [eapply nth_set_same; eauto|sproj]
    |exists sb1; rewrite nth_set_neq; auto]
  end.

Theorem C16_effect_sub : forall cfg st l st' s sb,
  step cfg st l = Some st' -> nth_error (subs st) s = Some sb ->
  exists sb', nth_error (subs st') s = Some sb' /\
    ((exists new, s_mbox sb' = s_mbox sb ++ new) \/
     (l = LSDeq s /\ exists m, s_mbox sb = m :: s_mbox sb') \/
     (l = LSFinish s /\ s_phase sb' = SExited /\ s_mbox sb' = [])).
Proof.
  intros cfg st l st' s1 sb1 H Hn.
  assert (Z : exists new, s_mbox sb1 = s_mbox sb1 ++ new) by (exists []; now rewrite app_nil_r).
  step_inv H; sproj; eauto.
  all: try (exists sb1; split; [now apply nth_snoc_old|auto]; fail).
  all: try (destruct (answer_remove_mbox s _ _ Hn) as (sb' & Hs' & Em); exists sb'; split; auto;
            left; exists []; rewrite app_nil_r; auto; fail).
  all: at_set s1 sb1.
  all: try (left; eexists; reflexivity).
  all: try (left; exists []; rewrite app_nil_r; reflexivity).
  all: try (right; left; split; [reflexivity|eexists; eassumption]).
  all: try (right; right; repeat split; reflexivity).
Qed.

Theorem C16_effect_topic : forall cfg st l st' t tp,
  step cfg st l = Some st' -> nth_error (topics st) t = Some tp ->
  exists tp', nth_error (topics st') t = Some tp' /\
    ((exists new, t_mbox tp' = t_mbox tp ++ new) \/
     (l = LTDeq t /\ exists m, t_mbox tp = m :: t_mbox tp')).
Proof.
  intros cfg st l st' t1 tp1 H Hn.
  assert (Z : exists new, t_mbox tp1 = t_mbox tp1 ++ new) by (exists []; now rewrite app_nil_r).
  step_inv H; sproj; eauto.
  all: try (exists tp1; split; [now apply nth_snoc_old|auto]; fail).
  all: at_set t1 tp1.
  all: try (left; eexists; reflexivity).
  all: try (left; exists []; rewrite app_nil_r; reflexivity).
  all: try (right; split; [reflexivity|eexists; eassumption]).
Qed.

(* abandoning a request touches nothing but the client task itself *)
Theorem C16_drop_local : forall cfg st c st',
  step cfg st (LDrop c) = Some st' ->
  topics st' = topics st /\ subs st' = subs st /\ helpers st' = helpers st /\
  forall c', c' <> c -> nth_error (clients st') c' = nth_error (clients st) c'.
Proof.
  intros cfg st c st' H. step_inv H; sproj; repeat split; auto; intros; apply nth_set_neq; auto.
Qed.

(* the server-side handling of a request does not look at the client tasks: it has the same
   effect on every actor and helper whether or not the requester is still there *)
Definition actors (st : state) := (topics st, subs st, helpers st).

Definition server_label (l : label) : bool :=
  match l with LArrive _ | LDrop _ | LCSend _ => false | _ => true end.

Ltac destr_goal :=
  match goal with
  | |- context [match ?x with _ => _ end] =>
      lazymatch x with
      | context [match _ with _ => _ end] => fail
      | _ => destruct x eqn:?
      end
  end.

Theorem C16_effect_independent : forall cfg st1 st2 l,
  actors st1 = actors st2 -> server_label l = true ->
  match step cfg st1 l, step cfg st2 l with
  | Some a, Some b => actors a = actors b
  | None, None => True
  | _, _ => False
  end.
Proof.
  intros cfg [t1 s1 c1 h1] [t2 s2 c2 h2] l H Hl. unfold actors in H. simpl in H.
  injection H as -> -> ->.
  destruct l; try discriminate Hl;
  unfold step, step_hsend, step_tdeq, step_post, step_tfinish, step_sdeq, step_ssend,
    step_sfinish, topic_alive, attach_blocked, sub_deleted; sproj;
  repeat destr_goal; auto.
Qed.

(* for reachable states of the fixed code, quiescence is exactly "nothing outstanding" *)
Theorem quiescent_iff_idle : forall cfg st,
  1 <= K cfg -> drain cfg = true -> reachable cfg st ->
  (quiescent cfg st <-> busyb st = false).
Proof.
  intros cfg st HK HD R. split.
  - intros Q. destruct (busyb st) eqn:B; auto. exfalso.
    destruct (C07_progress HK HD R (busyb_busy _ B)) as (l & st' & He & Hs).
    rewrite (Q l He) in Hs. discriminate.
  - apply not_busy_quiescent.
Qed.


(* ================================================================== *)
(* C11: with the guard, a live topic's attachment list holds only live subscriptions       *)

(* a subscription not marked deleted is still stored in the manager *)
Definition inv_exists (st : state) : Prop :=
  forall s sb, nth_error (subs st) s = Some sb -> s_deleted sb = false -> s_exists sb = true.

Lemma inv_exists_step : forall cfg st l st',
  inv_del st -> inv_exists st -> step cfg st l = Some st' -> inv_exists st'.
Proof.
  intros cfg st l st' ID I H s1 sb1 Hn Hd. unfold inv_exists in I.
  step_inv H; sproj;
  try (apply answer_remove_inv in Hn as [[Hn Hx]|[-> (sb & stash & Hs & Hph & ->)]]);
  inv_nth; sproj; eauto; try discriminate.
Qed.

(* a topic that appears in a step has no attachments yet *)
Lemma topics_new : forall cfg st l st' t tp',
  step cfg st l = Some st' -> nth_error (topics st) t = None ->
  nth_error (topics st') t = Some tp' -> t_atts tp' = [].
Proof.
  intros cfg st l st' t1 tp1 H Hnone Hn.
  step_inv H; sproj; inv_nth; sproj; try congruence.
  reflexivity.
Qed.

(* what a step does to one topic: alive only goes down; a new attachment comes from an
   Attach that was not blocked; a queued RemoveSubscription stays queued or takes effect *)
Lemma topic_fwd : forall cfg st l st' t tp,
  step cfg st l = Some st' -> nth_error (topics st) t = Some tp ->
  exists tp', nth_error (topics st') t = Some tp' /\
    (t_alive tp' = true -> t_alive tp = true) /\
    (forall s, In s (t_atts tp') ->
       In s (t_atts tp) \/
       (exists h, In (TAttach s h) (t_mbox tp) /\ attach_blocked cfg st s = false)) /\
    (forall s, In (TRemove s) (t_mbox tp) ->
       In (TRemove s) (t_mbox tp') \/ ~ In s (t_atts tp')).
Proof.
  intros cfg st l st' t1 tp1 H Hn.
  step_inv H; sproj; eauto 7.
  all: try (exists tp1; split; [now apply nth_snoc_old|auto]; fail).
  all: at_set t1 tp1.
  all: repeat split; auto; try discriminate.
  all: try (intros; left; apply in_or_app; auto; fail).
  all: try (intros s' Hs'; left;
            match goal with E : t_mbox _ = _ |- _ => rewrite E in Hs' end;
            destruct Hs' as [Hs'|Hs']; [discriminate Hs'|exact Hs']).
  - intros s [].
  - intros s0 [<-|Hs0]; auto. right. exists h. split; auto. rewrite Heql1. left; reflexivity.
  - intros s0 Hs0. left. unfold remove_all in Hs0. now apply filter_In in Hs0.
  - intros s0 Hs0. rewrite Heql1 in Hs0. destruct Hs0 as [E0|Hs0]; auto.
    injection E0 as ->. right. unfold remove_all. intros Hf. apply filter_In in Hf as [_ Hf].
    rewrite Nat.eqb_refl in Hf. discriminate.
Qed.

Lemma answer_remove_keep : forall s ss j sb,
  nth_error ss j = Some sb ->
  exists sb', nth_error (answer_remove s ss) j = Some sb' /\ s_topic sb' = s_topic sb /\
    s_deleted sb' = s_deleted sb /\
    (forall stash, s_phase sb = SDel WaitRoom stash -> s_phase sb' = SDel WaitRoom stash).
Proof.
  intros s ss j sb Hn. unfold answer_remove.
  destruct (nth_error ss s) as [sb0|] eqn:E; eauto.
  destruct (s_phase sb0) as [|[] stash|] eqn:Ep; eauto.
  destruct (Nat.eq_dec s j) as [->|N].
  - eexists. split. eapply nth_set_same; eauto. simpl.
    replace sb0 with sb in * by congruence. repeat split; auto. intros; congruence.
  - exists sb. rewrite nth_set_neq; auto.
Qed.

(* what a step does to one subscription, as far as its pending removal is concerned *)
Lemma sub_fwd : forall cfg st l st' s sb,
  step cfg st l = Some st' -> nth_error (subs st) s = Some sb ->
  exists sb', nth_error (subs st') s = Some sb' /\ s_topic sb' = s_topic sb /\
    (s_deleted sb = false ->
       s_deleted sb' = false \/
       (topic_alive st (s_topic sb) = true -> exists stash, s_phase sb' = SDel WaitRoom stash)) /\
    (forall stash, s_phase sb = SDel WaitRoom stash ->
       (exists stash', s_phase sb' = SDel WaitRoom stash') \/
       nth_error (topics st) (s_topic sb) = None \/
       (exists tp', nth_error (topics st') (s_topic sb) = Some tp' /\
                    In (TRemove s) (t_mbox tp'))).
Proof.
  intros cfg st l st' s1 sb1 H Hn.
  step_inv H; sproj; eauto 8.
  all: try (exists sb1; split; [now apply nth_snoc_old|eauto 8]; fail).
  all: try (destruct (answer_remove_keep s _ _ Hn) as (sb' & Hs' & Et' & Ed' & Ep');
            exists sb'; split; [exact Hs'|]; split; [exact Et'|]; split;
            [intros; left; congruence|intros stash0 Hp0; left; eauto]; fail).
  all: at_set s1 sb1.
  all: repeat split; auto; try discriminate.
  all: try (intros; left; eauto; fail).
  all: try (intros ? ?; congruence).
  all: try (intros _; right; intros _; eexists; reflexivity).
  all: try (intros _; right; intros ?; congruence).
  all: try (intros stash0 Hp0; left;
            match goal with |- exists _, SDel ?d _ = _ => assert (d = WaitRoom) by congruence end;
            subst; eauto; fail).
  intros stash0 Hp0. right; right. eexists. split; [eapply nth_set_same; eauto|].
  sproj. apply in_or_app. simpl; auto.
Qed.


(* the removal of subscription s from topic tp is still to come: the deleting actor has not
   yet sent its RemoveSubscription, or the request is in the topic's mailbox *)
Definition removal_pending (s : nat) (sb : sub) (tp : topic) : Prop :=
  (exists stash, s_phase sb = SDel WaitRoom stash) \/ In (TRemove s) (t_mbox tp).

(* the key invariant of C11 (needs the guard): every entry of a live topic's attachment list
   is a subscription created on that topic which is not marked deleted, or whose removal
   is pending *)
Definition inv_live (st : state) : Prop :=
  forall t tp s, nth_error (topics st) t = Some tp -> t_alive tp = true -> In s (t_atts tp) ->
    exists sb, nth_error (subs st) s = Some sb /\ s_topic sb = t /\
               (s_deleted sb = false \/ removal_pending s sb tp).

Lemma inv_live_step : forall cfg st l st',
  guard cfg = true ->
  inv_amsg st -> inv_hsub st -> inv_live st -> step cfg st l = Some st' -> inv_live st'.
Proof.
  intros cfg st l st' HG IM IH I H t1 tp1 s1 Hn Ha Hin.
  destruct (nth_error (topics st) t1) as [tp|] eqn:Htp.
  2:{ rewrite (@topics_new _ _ _ _ _ _ H Htp Hn) in Hin. inversion Hin. }
  destruct (@topic_fwd _ _ _ _ _ _ H Htp) as (tp' & Htp' & FA & FB & FC).
  assert (tp' = tp1) by congruence. subst tp'.
  specialize (FA Ha).
  assert (Alive : topic_alive st t1 = true) by (unfold topic_alive; now rewrite Htp).
  (* the subscription before the step, and what was known about it *)
  assert (Old : exists sb, nth_error (subs st) s1 = Some sb /\ s_topic sb = t1 /\
                           (s_deleted sb = false \/ removal_pending s1 sb tp)).
  { destruct (FB _ Hin) as [Hold|(h & Hmsg & Hnb)].
    - eapply I; eauto.
    - destruct (IM _ _ _ _ Htp Hmsg) as (hp & Hh & Es & Et).
      destruct (IH _ _ Hh) as (sb & Hs & Ets). rewrite Es in Hs.
      exists sb. split; auto. split; [congruence|]. left.
      unfold attach_blocked in Hnb. rewrite HG in Hnb. simpl in Hnb.
      unfold sub_deleted in Hnb. now rewrite Hs in Hnb. }
  destruct Old as (sb & Hs & Et & P).
  destruct (@sub_fwd _ _ _ _ _ _ H Hs) as (sb' & Hs' & Et' & F1 & F2).
  exists sb'. split; auto. split; [congruence|].
  destruct P as [D|[(stash & W)|R]].
  - destruct (F1 D) as [D'|W']; auto.
    right; left. apply W'. now rewrite Et.
  - destruct (F2 _ W) as [W'|[Hnone|(tp2 & Htp2 & Hin2)]].
    + right; left. exact W'.
    + rewrite Et in Hnone. congruence.
    + rewrite Et in Htp2. assert (tp2 = tp1) by congruence. subst tp2.
      right; right. exact Hin2.
  - destruct (FC _ R) as [R'|Gone]; [|contradiction].
    right; right. exact R'.
Qed.

Lemma inv_live_reachable : forall cfg st,
  guard cfg = true -> reachable cfg st -> inv_live st /\ inv_exists st.
Proof.
  intros cfg st HG R. induction R as [|st l st' R IH H].
  - split.
    + intros ? ? ? Hn. unfold init in Hn; simpl in Hn. rewrite nth_nil in Hn. discriminate.
    + intros ? ? Hn. unfold init in Hn; simpl in Hn. rewrite nth_nil in Hn. discriminate.
  - destruct IH as [IL IE].
    destruct (inv_c16_reachable R) as (I1 & I2 & I3 & I4 & I5 & I6). split.
    + eapply inv_live_step; eauto.
    + eapply inv_exists_step; eauto.
Qed.

(* at quiescence nothing is outstanding: mailboxes are empty and no actor is deleting *)
Lemma quiescent_idle : forall cfg st,
  1 <= K cfg -> drain cfg = true -> reachable cfg st -> quiescent cfg st -> ~ busy st.
Proof.
  intros cfg st HK HD R Q B.
  destruct (C07_progress HK HD R B) as (l & st' & He & Hs).
  rewrite (Q l He) in Hs. discriminate.
Qed.

(* C11: in the repaired code, at quiescence, the attachment list of a live topic contains
   only subscriptions that are stored in the manager, are not deleted, and were created on
   that topic.  (A deleted topic is excluded: its list is cleared when it is deleted, but an
   Attach handled after that still inserts, and subscriptions deleted after their topic do
   not send RemoveSubscription, so the list of a dead topic may hold dead entries; nothing
   publishes to them through the manager since the topic is gone from it.) *)
Theorem C11_attached_only_live : forall cfg st,
  1 <= K cfg -> drain cfg = true -> guard cfg = true ->
  reachable cfg st -> quiescent cfg st ->
  forall t tp s, nth_error (topics st) t = Some tp -> t_alive tp = true -> In s (t_atts tp) ->
    exists sb, nth_error (subs st) s = Some sb /\ s_exists sb = true /\
               s_deleted sb = false /\ s_topic sb = t.
Proof.
  intros cfg st HK HD HG R Q t tp s Ht Ha Hin.
  destruct (inv_live_reachable HG R) as [IL IE].
  pose proof (quiescent_idle HK HD R Q) as NB.
  destruct (IL _ _ _ Ht Ha Hin) as (sb & Hs & Et & P).
  assert (D : s_deleted sb = false).
  { destruct P as [D|[(stash & W)|Rm]]; auto; exfalso; apply NB.
    - right; right; left. exists s, sb. split; auto. right. eauto.
    - right; left. exists t, tp. split; auto. left. intros E. rewrite E in Rm. inversion Rm. }
  exists sb. split; auto. split; [eapply IE; eauto|]. split; auto.
Qed.

(* C16 and C11 together: at quiescence of the repaired code, the attachment list of a live
   topic is exactly the set of stored, undeleted subscriptions created on it *)
Theorem C11_quiescent_exact : forall cfg st,
  1 <= K cfg -> drain cfg = true -> guard cfg = true ->
  reachable cfg st -> quiescent cfg st ->
  forall t tp, nth_error (topics st) t = Some tp -> t_alive tp = true ->
  forall s, In s (t_atts tp) <->
            exists sb, nth_error (subs st) s = Some sb /\ s_exists sb = true /\
                       s_deleted sb = false /\ s_topic sb = t.
Proof.
  intros cfg st HK HD HG R Q t tp Ht Ha s. split.
  - intros Hin. eapply C11_attached_only_live; eauto.
  - intros (sb & Hs & He & Hd & Et).
    assert (Alive : topic_alive st (s_topic sb) = true)
      by (unfold topic_alive; rewrite Et, Ht; exact Ha).
    destruct (C16_attached HK HD R Q _ Hs He Hd Alive) as (tp0 & Ht0 & Hin).
    rewrite Et in Ht0. congruence.
Qed.

(* ================================================================== *)
(* C08: posts reach every subscription in the order in which the topic accepted the
   Publish requests                                                    *)

Inductive sublist : list nat -> list nat -> Prop :=
| sl_nil : sublist [] []
| sl_skip : forall x l' l, sublist l' l -> sublist l' (x :: l)
| sl_keep : forall x l' l, sublist l' l -> sublist (x :: l') (x :: l).

Lemma sublist_refl : forall l, sublist l l.
Proof. induction l; [apply sl_nil|apply sl_keep; auto]. Qed.

Lemma sublist_nil : forall l, sublist [] l.
Proof. induction l; constructor; auto. Qed.

Lemma sublist_app_l : forall a l' l, sublist l' l -> sublist (a ++ l') (a ++ l).
Proof. induction a; simpl; intros; auto. apply sl_keep; auto. Qed.

Lemma sublist_drop_mid : forall a x b, sublist (a ++ b) (a ++ x :: b).
Proof. intros. apply sublist_app_l. apply sl_skip. apply sublist_refl. Qed.

Lemma sublist_prefix : forall a b, sublist a (a ++ b).
Proof.
  intros. rewrite <- (app_nil_r a) at 1. apply sublist_app_l. apply sublist_nil.
Qed.

Lemma sublist_In : forall l' l x, sublist l' l -> In x l' -> In x l.
Proof. induction 1; simpl; intros; auto. destruct H0; auto. Qed.

Lemma sublist_Forall : forall (P : nat -> Prop) l' l, sublist l' l -> Forall P l -> Forall P l'.
Proof.
  induction 1; intros HF; auto; inversion HF; subst; auto.
Qed.

Lemma sublist_sorted : forall l' l, sublist l' l -> StronglySorted lt l -> StronglySorted lt l'.
Proof.
  induction 1; intros HS; auto; inversion HS; subst; auto.
  constructor; auto. eapply sublist_Forall; eauto.
Qed.

Lemma sorted_snoc : forall l n,
  StronglySorted lt l -> Forall (fun x => x < n) l -> StronglySorted lt (l ++ [n]).
Proof.
  induction l as [|a l IH]; simpl; intros n HS HF.
  - constructor; constructor.
  - inversion HS; subst. inversion HF; subst. constructor; auto.
    apply Forall_app. split; auto.
Qed.

Lemma sorted_NoDup : forall l, StronglySorted lt l -> NoDup l.
Proof.
  induction 1; constructor; auto.
  intros Hin. rewrite Forall_forall in H0. specialize (H0 _ Hin). lia.
Qed.

Lemma remove1_In : forall s x l, In x (remove1 s l) -> In x l.
Proof.
  induction l as [|a l IH]; simpl; intros H; auto.
  destruct (s =? a); simpl in *; auto. destruct H; auto.
Qed.

Lemma remove1_NoDup : forall s l, NoDup l -> NoDup (remove1 s l).
Proof.
  induction l as [|a l IH]; simpl; intros H; auto. inversion H; subst.
  destruct (s =? a); auto. constructor; auto. intros X. apply remove1_In in X. auto.
Qed.

Lemma remove1_notin : forall s l, NoDup l -> ~ In s (remove1 s l).
Proof.
  induction l as [|a l IH]; simpl; intros H; auto. inversion H; subst.
  destruct (s =? a) eqn:E.
  - apply Nat.eqb_eq in E. subst. auto.
  - apply Nat.eqb_neq in E. intros [X|X]; [congruence|]. now apply IH.
Qed.

Lemma queued_posts_app : forall a b, queued_posts (a ++ b) = queued_posts a ++ queued_posts b.
Proof. intros. unfold queued_posts. apply flat_map_app. Qed.

Lemma answer_remove_delivered : forall s ss j sb,
  nth_error ss j = Some sb ->
  exists sb', nth_error (answer_remove s ss) j = Some sb' /\ s_topic sb' = s_topic sb /\
              delivered sb' = delivered sb.
Proof.
  intros s ss j sb Hn. unfold answer_remove.
  destruct (nth_error ss s) as [sb0|] eqn:E; eauto.
  destruct (s_phase sb0) as [|[] stash|] eqn:Ep; eauto.
  destruct (Nat.eq_dec s j) as [->|N].
  - eexists. split. eapply nth_set_same; eauto. simpl.
    replace sb0 with sb in * by congruence. split; reflexivity.
  - exists sb. rewrite nth_set_neq; auto.
Qed.

(* what a step does to what a subscription has been given: some elements are dropped (a
   deleting actor ignores posts, an exiting actor drops its mailbox), or one post task of
   the Publish being handled by a topic appends that Publish's number *)
Lemma delivered_fwd : forall cfg st l st' s sb,
  step cfg st l = Some st' -> nth_error (subs st) s = Some sb ->
  exists sb', nth_error (subs st') s = Some sb' /\ s_topic sb' = s_topic sb /\
    (sublist (delivered sb') (delivered sb) \/
     (exists t tp pend c ok n, l = LPost t s /\ nth_error (topics st) t = Some tp /\
        t_phase tp = TPub pend c ok n /\ In s pend /\
        delivered sb' = delivered sb ++ [n])).
Proof.
  intros cfg st l st' s1 sb1 H Hn.
  pose proof (sublist_refl (delivered sb1)) as Z.
  step_inv H; sproj; eauto 7.
  all: try (exists sb1; split; [now apply nth_snoc_old|auto]; fail).
  all: try (destruct (answer_remove_delivered s _ _ Hn) as (sb' & Hs' & Et' & Ed');
            exists sb'; split; [exact Hs'|]; split; [exact Et'|]; left; rewrite Ed'; exact Z).
  all: at_set s1 sb1.
  all: split; [reflexivity|].
  all: unfold delivered in *; sproj.
  all: try match goal with E : s_mbox _ = _ |- _ => rewrite E in * end.
  all: rewrite ?queued_posts_app; simpl; rewrite ?app_nil_r.
  all: try (left; exact Z).
  - left. destruct k; simpl; rewrite ?app_nil_r; exact Z.
  - right. apply mem_true_in in Heqb. do 6 eexists. split; [reflexivity|].
    split; [eassumption|]. split; [eassumption|]. split; [exact Heqb|].
    now rewrite app_assoc.
  - left. rewrite <- app_assoc. simpl. apply sublist_refl.
  - left. apply sublist_drop_mid.
  - left. apply sublist_prefix.
Qed.


(* what a step does to the Publish handling of one topic *)
Lemma phase_fwd : forall cfg st l st' t tp,
  step cfg st l = Some st' -> nth_error (topics st) t = Some tp ->
  exists tp', nth_error (topics st') t = Some tp' /\
    ((t_phase tp' = t_phase tp /\ t_seq tp' = t_seq tp /\ forall s, l <> LPost t s) \/
     (t_phase tp = TIdle /\ (exists c, t_phase tp' = TPub (t_atts tp) c true (t_seq tp)) /\
      t_seq tp' = S (t_seq tp) /\ l = LTDeq t) \/
     (exists s pend c ok ok' n, l = LPost t s /\ t_phase tp = TPub pend c ok n /\ In s pend /\
        t_phase tp' = TPub (remove1 s pend) c ok' n /\ t_seq tp' = t_seq tp) \/
     (t_phase tp' = TIdle /\ t_seq tp' = t_seq tp /\ forall s, l <> LPost t s)).
Proof.
  intros cfg st l st' t1 tp1 H Hn.
  step_inv H; sproj.
  all: try (exists tp1; split; [assumption || now apply nth_snoc_old|];
            left; repeat split; auto; intros; discriminate).
  all: at_set t1 tp1.
  all: try (split; [assumption|]).
  all: try (left; repeat split; auto; intros; try discriminate; congruence).
  all: try (right; right; right; repeat split; auto; intros; discriminate).
  - right; left. repeat split; eauto.
  - right; right; left. apply mem_true_in in Heqb. do 6 eexists. repeat split; eauto.
  - right; right; left. apply mem_true_in in Heqb. do 6 eexists. repeat split; eauto.
  - right; right; left. apply mem_true_in in Heqb. do 6 eexists. repeat split; eauto.
Qed.


Lemma topics_new_phase : forall cfg st l st' t tp',
  step cfg st l = Some st' -> nth_error (topics st) t = None ->
  nth_error (topics st') t = Some tp' -> t_phase tp' = TIdle /\ t_seq tp' = 0.
Proof.
  intros cfg st l st' t1 tp1 H Hnone Hn.
  step_inv H; sproj; inv_nth; sproj; try congruence.
  split; reflexivity.
Qed.

(* subscription s was created on topic t *)
Definition own_sub (st : state) (t s : nat) : Prop :=
  exists sb, nth_error (subs st) s = Some sb /\ s_topic sb = t.

Lemma own_sub_step : forall cfg st l st' t s,
  step cfg st l = Some st' -> own_sub st t s -> own_sub st' t s.
Proof.
  intros cfg st l st' t s H (sb & Hs & Et).
  destruct (@subs_fields_step _ _ _ _ _ _ H Hs) as (sb' & Hs' & Et' & _).
  exists sb'. split; auto. congruence.
Qed.

(* attachments and post tasks of a topic concern its own subscriptions; the Publish being
   handled is the latest one; there is one post task per subscription *)
Definition inv_pub (st : state) : Prop :=
  forall t tp, nth_error (topics st) t = Some tp ->
    (forall s, In s (t_atts tp) -> own_sub st t s) /\
    (forall pend c ok n, t_phase tp = TPub pend c ok n ->
       S n = t_seq tp /\ NoDup pend /\ forall s, In s pend -> own_sub st t s).

Lemma inv_pub_step : forall cfg st l st',
  inv_atts st -> inv_amsg st -> inv_hsub st -> inv_pub st ->
  step cfg st l = Some st' -> inv_pub st'.
Proof.
  intros cfg st l st' IA IM IH I H t1 tp1 Hn.
  destruct (nth_error (topics st) t1) as [tp|] eqn:Htp.
  2:{ split.
      - intros s Hin. rewrite (@topics_new _ _ _ _ _ _ H Htp Hn) in Hin. inversion Hin.
      - intros pend c ok n Hp.
        destruct (@topics_new_phase _ _ _ _ _ _ H Htp Hn) as [Hp' _]. congruence. }
  destruct (I _ _ Htp) as [IAtt IPend].
  assert (Atts' : forall s, In s (t_atts tp1) -> own_sub st' t1 s).
  { destruct (@topic_fwd _ _ _ _ _ _ H Htp) as (tp' & Htp' & _ & FB & _).
    assert (tp' = tp1) by congruence. subst tp'.
    intros s Hin. eapply own_sub_step; eauto.
    destruct (FB _ Hin) as [Hold|(h & Hmsg & _)]; auto.
    destruct (IM _ _ _ _ Htp Hmsg) as (hp & Hh & Es & Et).
    destruct (IH _ _ Hh) as (sb & Hs & Ets). exists sb. split; congruence. }
  split; auto.
  intros pend c ok n Hp.
  destruct (@phase_fwd _ _ _ _ _ _ H Htp) as (tp' & Htp' & Cases).
  assert (tp' = tp1) by congruence. subst tp'.
  destruct Cases as [(Ep & Es & _)|[(Ei & (c0 & Ep) & Es & _)|
                    [(s0 & pend0 & c0 & ok0 & ok' & n0 & _ & Ep0 & Hin0 & Ep & Es)|(Ep & _)]]].
  - rewrite Ep in Hp. destruct (IPend _ _ _ _ Hp) as (E1 & E2 & E3).
    split; [congruence|]. split; auto. intros s Hs. eapply own_sub_step; eauto.
  - rewrite Ep in Hp. injection Hp as <- <- <- <-.
    split; [congruence|]. split.
    + destruct IA as (IA1 & _). now destruct (IA1 _ _ Htp).
    + intros s Hs. eapply own_sub_step; eauto.
  - rewrite Ep in Hp. injection Hp as <- <- <- <-.
    destruct (IPend _ _ _ _ Ep0) as (E1 & E2 & E3).
    split; [congruence|]. split; [now apply remove1_NoDup|].
    intros s Hs. eapply own_sub_step; eauto. apply E3. eapply remove1_In; eauto.
  - congruence.
Qed.

Lemma inv_pub_reachable : forall cfg st, reachable cfg st -> inv_pub st.
Proof.
  induction 1 as [|st l st' R IH H].
  - intros t tp Hn. unfold init in Hn; simpl in Hn. rewrite nth_nil in Hn. discriminate.
  - destruct (inv_c16_reachable R) as (_ & IM & _ & IHs & _ & _).
    eapply inv_pub_step; eauto. eapply inv_atts_reachable; eauto.
Qed.

(* the order invariant *)
Definition inv_order (st : state) : Prop :=
  forall s sb tp, nth_error (subs st) s = Some sb ->
    nth_error (topics st) (s_topic sb) = Some tp ->
    StronglySorted lt (delivered sb) /\
    Forall (fun x => x < t_seq tp) (delivered sb) /\
    (forall pend c ok n, t_phase tp = TPub pend c ok n -> In s pend ->
       Forall (fun x => x < n) (delivered sb)).

Lemma Forall_lt_weaken : forall l a b, a <= b ->
  Forall (fun x => x < a) l -> Forall (fun x => x < b) l.
Proof. intros l a b Hab HF. eapply Forall_impl; [|exact HF]. simpl. intros; lia. Qed.

Lemma inv_order_step : forall cfg st l st',
  inv_stopic st -> inv_pub st -> inv_order st -> step cfg st l = Some st' -> inv_order st'.
Proof.
  intros cfg st l st' IT IP I H s1 sb1 tp1 Hn Htp1.
  destruct (@subs_origin _ _ _ _ _ _ H Hn)
    as [(sb & Hs & Et & _)|(t & -> & Hlt & -> & -> & _)].
  2:{ unfold delivered, new_sub; simpl. repeat split; intros; constructor. }
  destruct (nth_error (topics st) (s_topic sb)) as [tp|] eqn:Htp.
  2:{ apply nth_error_None in Htp. specialize (IT _ _ Hs). lia. }
  destruct (@delivered_fwd _ _ _ _ _ _ H Hs) as (sb' & Hs' & _ & DCases).
  assert (sb' = sb1) by congruence. subst sb'.
  destruct (@phase_fwd _ _ _ _ _ _ H Htp) as (tp' & Htp' & PCases).
  rewrite Et in Htp1. assert (tp' = tp1) by congruence. subst tp'.
  destruct (I _ _ _ Hs Htp) as (S0 & F0 & P0).
  destruct DCases as [Sub|(t0 & tp0 & pend & c & ok & n & -> & Ht0 & Ep0 & Hin & Ed)].
  - (* nothing new was given to the subscription *)
    assert (S1 : StronglySorted lt (delivered sb1)) by (eapply sublist_sorted; eauto).
    split; [exact S1|].
    destruct PCases as [(Ep & Es & _)|[(Ei & (c0 & Ep) & Es & _)|
       [(s0 & pend0 & c0 & ok0 & ok' & n0 & _ & Ep0 & Hin0 & Ep & Es)|(Ep & Es & _)]]].
    + split; [rewrite Es; eapply sublist_Forall; eauto|].
      intros pend c ok n Hp Hin. rewrite Ep in Hp. eapply sublist_Forall; eauto.
    + split; [rewrite Es; eapply sublist_Forall; eauto; eapply Forall_lt_weaken; [|eauto]; lia|].
      intros pend c ok n Hp Hin. rewrite Ep in Hp. injection Hp as <- <- <- <-.
      eapply sublist_Forall; eauto.
    + split; [rewrite Es; eapply sublist_Forall; eauto|].
      intros pend c ok n Hp Hin. rewrite Ep in Hp. injection Hp as <- <- <- <-.
      eapply sublist_Forall; eauto. eapply P0; eauto. eapply remove1_In; eauto.
    + split; [rewrite Es; eapply sublist_Forall; eauto|].
      intros pend c ok n Hp Hin. congruence.
  - (* the post task of the Publish in progress gave it that Publish's number *)
    destruct (IP _ _ Ht0) as [_ IPend]. destruct (IPend _ _ _ _ Ep0) as (Eseq & ND & Own).
    destruct (Own _ Hin) as (sb0 & Hs0 & Et0).
    assert (sb0 = sb) by congruence. subst sb0. rewrite <- Et0 in *.
    assert (tp0 = tp) by congruence. subst tp0.
    specialize (P0 _ _ _ _ Ep0 Hin).
    destruct PCases as [(_ & _ & Ne)|[(_ & _ & _ & El)|
       [(s0 & pend0 & c0 & ok0 & ok' & n0 & El & Ep0' & Hin0 & Ep & Es)|(_ & _ & Ne)]]].
    + exfalso. eapply Ne; reflexivity.
    + discriminate El.
    + injection El as <-. rewrite Ep0 in Ep0'. injection Ep0' as <- <- <- <-.
      rewrite Ed. split; [now apply sorted_snoc|].
      split.
      * apply Forall_app. split.
        -- rewrite Es. eapply Forall_lt_weaken; [|exact P0]. lia.
        -- constructor; [lia|constructor].
      * intros pend1 c1 ok1 n1 Hp Hin1. rewrite Ep in Hp. injection Hp as <- <- <- <-.
        exfalso. eapply remove1_notin; eauto.
    + exfalso. eapply Ne; reflexivity.
Qed.

Lemma inv_order_reachable : forall cfg st, reachable cfg st -> inv_order st.
Proof.
  induction 1 as [|st l st' R IH H].
  - intros s sb tp Hn. unfold init in Hn; simpl in Hn. rewrite nth_nil in Hn. discriminate.
  - destruct (inv_c16_reachable R) as (_ & _ & _ & _ & IT & _).
    eapply inv_order_step; eauto. eapply inv_pub_reachable; eauto.
Qed.

(* C08 (order part).  At every reachable state - any capacity, any flags, any interleaving
   of publishers, consumers, deletions, arrivals and drops - for every subscription:
   the sequence numbers of the posts it has been given (those it has handled, then those
   queued in its mailbox, in mailbox order) are strictly increasing: no two Publish requests
   ever reach a subscription out of the order in which the topic accepted them, and none
   reaches it twice; all of them are numbers the topic has issued; while the topic handles
   Publish n its number is the latest issued, there is exactly one post task per
   subscription, and a subscription whose post task has not sent yet has been given only
   earlier numbers.  (A number may be missing: a deleting subscription ignores posts and a
   closed mailbox refuses them.) *)
Theorem C08_posts_in_publish_order : forall cfg st,
  reachable cfg st ->
  forall s sb tp, nth_error (subs st) s = Some sb ->
    nth_error (topics st) (s_topic sb) = Some tp ->
    StronglySorted lt (delivered sb) /\
    Forall (fun x => x < t_seq tp) (delivered sb) /\
    (forall pend c ok n, t_phase tp = TPub pend c ok n ->
       t_seq tp = S n /\ NoDup pend /\
       (In s pend -> Forall (fun x => x < n) (delivered sb)) /\
       (In n (delivered sb) -> ~ In s pend)).
Proof.
  intros cfg st R s sb tp Hs Ht.
  pose proof (inv_order_reachable R) as IO. pose proof (inv_pub_reachable R) as IPb.
  destruct (IO _ _ _ Hs Ht) as (S0 & F0 & P0).
  split; auto. split; auto.
  intros pend c ok n Hp.
  destruct (IPb _ _ Ht) as [_ IPend].
  destruct (IPend _ _ _ _ Hp) as (Eseq & ND & _).
  split; [congruence|]. split; auto. split; [eauto|].
  intros Hin Hpend. specialize (P0 _ _ _ _ Hp Hpend).
  rewrite Forall_forall in P0. specialize (P0 _ Hin). lia.
Qed.

(* in particular: nothing is delivered twice, and what the actor has appended to its backlog
   so far is itself in publish order *)
Corollary C08_no_duplicate : forall cfg st s sb,
  reachable cfg st -> nth_error (subs st) s = Some sb -> NoDup (delivered sb).
Proof.
  intros cfg st s sb R Hs.
  destruct (inv_c16_reachable R) as (_ & _ & _ & _ & IT & _).
  destruct (nth_error (topics st) (s_topic sb)) as [tp|] eqn:Ht.
  - apply sorted_NoDup. eapply C08_posts_in_publish_order; eauto.
  - apply nth_error_None in Ht. specialize (IT _ _ Hs). lia.
Qed.

Corollary C08_log_in_publish_order : forall cfg st s sb,
  reachable cfg st -> nth_error (subs st) s = Some sb -> StronglySorted lt (s_log sb).
Proof.
  intros cfg st s sb R Hs.
  destruct (inv_c16_reachable R) as (_ & _ & _ & _ & IT & _).
  destruct (nth_error (topics st) (s_topic sb)) as [tp|] eqn:Ht.
  - eapply sublist_sorted; [apply sublist_prefix|].
    eapply C08_posts_in_publish_order; eauto.
  - apply nth_error_None in Ht. specialize (IT _ _ Hs). lia.
Qed.

(* ingredients of "no gap" (the full statement is not proved, see the report): while a topic
   handles a Publish it dequeues nothing else, it answers only when every post task is done,
   and a post task that finds an open mailbox with room puts its PostMessages there *)
Lemma C08_topic_waits : forall cfg st t tp pend c ok n,
  nth_error (topics st) t = Some tp -> t_phase tp = TPub pend c ok n ->
  step cfg st (LTDeq t) = None /\ (pend <> [] -> step cfg st (LTFinish t) = None).
Proof.
  intros cfg st t tp pend c ok n Hn Hp. unfold step, step_tdeq, step_tfinish.
  rewrite Hn, Hp. split; auto. intros Hne. destruct pend; [congruence|reflexivity].
Qed.

Lemma C08_publish_posts_to_all_attached : forall cfg st t tp c rest st',
  nth_error (topics st) t = Some tp -> t_phase tp = TIdle -> t_mbox tp = TPublish c :: rest ->
  step cfg st (LTDeq t) = Some st' ->
  exists tp', nth_error (topics st') t = Some tp' /\
    t_phase tp' = TPub (t_atts tp) c true (t_seq tp) /\ t_seq tp' = S (t_seq tp).
Proof.
  intros cfg st t tp c rest st' Hn Hp Hm H. unfold step, step_tdeq in H.
  rewrite Hn, Hp, Hm in H. injection H as <-. sproj.
  eexists. split; [eapply nth_set_same; eauto|]. split; reflexivity.
Qed.

Lemma C08_post_delivers : forall cfg st t s tp pend c ok n sb st',
  nth_error (topics st) t = Some tp -> t_phase tp = TPub pend c ok n ->
  nth_error (subs st) s = Some sb -> sub_open sb = true ->
  step cfg st (LPost t s) = Some st' ->
  exists sb', nth_error (subs st') s = Some sb' /\ s_mbox sb' = s_mbox sb ++ [SPost t n] /\
              s_log sb' = s_log sb.
Proof.
  intros cfg st t s tp pend c ok n sb st' Hn Hp Hs Ho H. unfold step, step_post in H.
  rewrite Hn, Hp, Hs, Ho in H.
  destruct (mem s pend); [|discriminate].
  destruct (length (s_mbox sb) <? K cfg); [|discriminate].
  injection H as <-. sproj. eexists. split; [eapply nth_set_same; eauto|]. split; reflexivity.
Qed.

(* ------------------------------------------------------------------ *)
(* C08 refuted for a topic actor that does not wait for its post tasks ([xstep]): two
   Publish requests are accepted in the order 0, 1; their post tasks send in the other
   order; the subscription appends 1 before 0. *)

Lemma xrun_reachable : forall cfg ls xs xs',
  xreachable cfg xs -> xrun cfg xs ls = Some xs' -> xreachable cfg xs'.
Proof.
  induction ls as [|l r IH]; simpl; intros xs xs' R H.
  - injection H as <-. exact R.
  - destruct (xstep cfg xs l) as [xs1|] eqn:E; [|discriminate].
    eapply IH; [|exact H]. eapply xreach_step; eauto.
Qed.

Definition two_publishes : list label :=
  [LArrive ANewTopic; LArrive (ACreate 0); LHSend 0; LTDeq 0;
   LArrive (AReqT 0 KPublish); LCSend 1; LArrive (AReqT 0 KPublish); LCSend 2].

Definition no_await_schedule : list xlabel :=
  map XL two_publishes ++
  [XL (LTDeq 0);     (* Publish 0 accepted: publisher answered, post task (0,0,0) floats *)
   XL (LTDeq 0);     (* Publish 1 accepted: post task (0,0,1) floats *)
   XPost 1;          (* the post of Publish 1 sends first *)
   XPost 0;          (* then the post of Publish 0 *)
   XL (LSDeq 0); XL (LSDeq 0)].

Theorem C08_refuted_without_await :
  exists xs, xreachable (cfg_fixed 16) xs /\
    (exists tp, nth_error (topics (x_base xs)) 0 = Some tp /\ t_seq tp = 2) /\
    nth_error (clients (x_base xs)) 1 = Some (CDone true) /\
    nth_error (clients (x_base xs)) 2 = Some (CDone true) /\
    x_posts xs = [] /\ busyb (x_base xs) = false /\
    (exists sb, nth_error (subs (x_base xs)) 0 = Some sb /\ s_log sb = [1; 0]).
Proof.
  eexists. split.
  { eapply xrun_reachable with (ls := no_await_schedule); [apply xreach_init|].
    vm_compute. reflexivity. }
  split; [eexists; split; reflexivity|].
  repeat (split; [reflexivity|]).
  eexists; split; reflexivity.
Qed.

(* the code: the same two Publish requests, run by the deterministic scheduler, and in fact
   under every schedule by C08_log_in_publish_order *)
Example two_publishes_in_order :
  exists st0 st ls, run (cfg_fixed 16) init two_publishes = Some st0 /\
    auto (cfg_fixed 16) 100 st0 = (st, ls) /\ busyb st = false /\
    option_map s_log (nth_error (subs st) 0) = Some [0; 1] /\
    clients st = [CDone true; CDone true; CDone true].
Proof. do 3 eexists. repeat (split; [vm_compute; reflexivity|]). vm_compute; reflexivity. Qed.
(* ================================================================== *)
(* Examples (vm_compute)                                                *)

(* one topic with one attached subscription *)
Definition setup : list label :=
  [LArrive ANewTopic; LArrive (ACreate 0); LHSend 0; LTDeq 0].

(* a burst of k+4 Generic requests, a Delete and a Publish on one subscription *)
Definition burst (k : nat) : list label :=
  setup ++ map (fun _ => LArrive (AReqS 0 KGeneric)) (seq 0 (k + 4)) ++
  [LArrive (AReqS 0 KDelete); LArrive (AReqT 0 KPublish)].

Definition all_done (st : state) : bool :=
  forallb (fun p => match p with CDone _ => true | _ => false end) (clients st).

Example burst_runs_to_quiescence_K2 :
  exists st0 st ls, run (cfg_fixed 2) init (burst 2) = Some st0 /\
    auto (cfg_fixed 2) 200 st0 = (st, ls) /\
    busyb st = false /\ all_done st = true /\ length (clients st) = 9.
Proof. do 3 eexists. repeat (split; [vm_compute; reflexivity|]). vm_compute; reflexivity. Qed.

Example burst_runs_to_quiescence_K16 :
  exists st0 st ls, run (cfg_fixed 16) init (burst 16) = Some st0 /\
    auto (cfg_fixed 16) 400 st0 = (st, ls) /\
    busyb st = false /\ all_done st = true /\ length (clients st) = 23.
Proof. do 3 eexists. repeat (split; [vm_compute; reflexivity|]). vm_compute; reflexivity. Qed.

(* the burst, scheduled so that the Delete is being handled while the mailbox is full and
   the topic is publishing: the original code stops for ever, the fixed code finishes *)
Example burst_original_code_deadlocks :
  exists st, run (cfg_orig 2) init (deadlock_schedule 2) = Some st /\
    first_enabled (cfg_orig 2) st = None /\ busyb st = true.
Proof. eexists. repeat (split; [vm_compute; reflexivity|]). vm_compute; reflexivity. Qed.

(* C16: CreateSubscription whose caller goes away right after step 1, while the topic
   mailbox is full (the helper's send has to wait): the subscription still ends attached *)
Definition dropped_create : list label :=
  [LArrive ANewTopic;
   LArrive (AReqT 0 KGenericT); LCSend 0; LArrive (AReqT 0 KGenericT); LCSend 1;
   LArrive (ACreate 0);        (* client 2, helper 0, subscription 0; topic mailbox is full *)
   LDrop 2].                   (* the caller abandons the Create *)

Example dropped_create_ends_attached :
  exists st0 st ls, run (cfg_fixed 2) init dropped_create = Some st0 /\
    step (cfg_fixed 2) st0 (LHSend 0) = None /\       (* the helper is blocked at that point *)
    nth_error (clients st0) 2 = Some CDropped /\
    auto (cfg_fixed 2) 100 st0 = (st, ls) /\ busyb st = false /\
    nth_error (clients st) 2 = Some CDropped /\
    option_map t_atts (nth_error (topics st) 0) = Some [0] /\
    option_map s_exists (nth_error (subs st) 0) = Some true.
Proof. do 3 eexists. repeat (split; [vm_compute; reflexivity|]). vm_compute; reflexivity. Qed.


(* C11 refuted for the code without the guard (drain = true, guard = false).  A Delete that
   is handled completely between step 1 of a Create and the send of its attach task: the
   topic handles RemoveSubscription (nothing to remove) and then AttachSubscription, so the
   exited subscription stays in the attachment list of a live topic for ever, and every later
   Publish on that topic fails (the post to the closed mailbox fails).  Replayed on the real
   code by a multi-thread stress before the guard was added. *)
Definition stale_prefix : list label :=
  [LArrive ANewTopic; LArrive (ACreate 0);
   LArrive (AReqS 0 KDelete); LCSend 1; LSDeq 0; LSSend 0; LTDeq 0; LSFinish 0;
   LHSend 0; LTDeq 0].

Definition later_publish : list label :=
  [LArrive (AReqT 0 KPublish); LCSend 2; LTDeq 0; LPost 0 0; LTFinish 0].

Theorem C11_refuted_without_guard :
  exists st,
    reachable (cfg_noguard 2) st /\ quiescent (cfg_noguard 2) st /\
    (* a live topic's attachment list contains a subscription that no longer exists ... *)
    (exists tp sb, nth_error (topics st) 0 = Some tp /\ t_alive tp = true /\ In 0 (t_atts tp) /\
       nth_error (subs st) 0 = Some sb /\ s_exists sb = false /\ s_deleted sb = true /\
       s_phase sb = SExited) /\
    (* ... and a later Publish on that topic runs to quiescence and ends with an error *)
    (exists st2, run (cfg_noguard 2) st later_publish = Some st2 /\
       quiescent (cfg_noguard 2) st2 /\ nth_error (clients st2) 2 = Some (CDone false)).
Proof.
  eexists. split.
  { eapply run_reachable with (ls := stale_prefix); [apply reach_init|].
    vm_compute. reflexivity. }
  split. { apply not_busy_quiescent. vm_compute. reflexivity. }
  split.
  { do 2 eexists. split; [vm_compute; reflexivity|]. split; [reflexivity|].
    split; [left; reflexivity|]. split; [vm_compute; reflexivity|].
    repeat split; reflexivity. }
  eexists. split; [vm_compute; reflexivity|].
  split. { apply not_busy_quiescent. vm_compute. reflexivity. }
  vm_compute. reflexivity.
Qed.

(* the same schedule with the guard: the Attach of the deleted subscription is answered but
   not performed, the attachment list ends empty and the later Publish succeeds *)
Example stale_schedule_with_guard :
  exists st0 st ls,
    run (cfg_fixed 2) init (stale_prefix ++ [LArrive (AReqT 0 KPublish)]) = Some st0 /\
    auto (cfg_fixed 2) 100 st0 = (st, ls) /\
    ls = [LCSend 2; LTDeq 0; LTFinish 0] /\       (* no post: nothing is attached *)
    busyb st = false /\
    option_map s_phase (nth_error (subs st) 0) = Some SExited /\
    option_map t_atts (nth_error (topics st) 0) = Some [] /\
    clients st = [CDone true; CDone true; CDone true].
Proof. do 3 eexists. repeat (split; [vm_compute; reflexivity|]). vm_compute; reflexivity. Qed.

(* ================================================================== *)
Print Assumptions C07_progress.
Print Assumptions measure_step.
Print Assumptions C07_bounded.
Print Assumptions C07_terminates.
Print Assumptions quiescent_iff_idle.
Print Assumptions C07_refuted_without_drain.
Print Assumptions C07_refuted_without_drain_16.
Print Assumptions C16_attached.
Print Assumptions C16_no_wedge.
Print Assumptions C16_effect_sub.
Print Assumptions C16_effect_topic.
Print Assumptions C16_drop_local.
Print Assumptions C16_effect_independent.
Print Assumptions C08_posts_in_publish_order.
Print Assumptions C08_no_duplicate.
Print Assumptions C08_log_in_publish_order.
Print Assumptions C08_refuted_without_await.
Print Assumptions C08_post_delivers.
Print Assumptions two_publishes_in_order.
Print Assumptions C11_attached_only_live.
Print Assumptions C11_quiescent_exact.
Print Assumptions C11_refuted_without_guard.
Print Assumptions stale_schedule_with_guard.
Print Assumptions dropped_create_ends_attached.
Print Assumptions burst_runs_to_quiescence_K16.
