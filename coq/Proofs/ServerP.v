(* The server model: every API step acts on each subscription as a sequence
   of actor turns (so Proofs/SubHist.v applies to every subscription of every
   server history), rejected requests change nothing, and the control-plane
   maps behave as maps. *)
From Deltio Require Import Model.Base Model.Names Model.Time Model.Codec Model.Paging Model.Sub Model.Server
  Proofs.BaseP Proofs.NamesP Proofs.TimeP Proofs.CodecP Proofs.SubP Proofs.SubTurns Proofs.SubHist.
Require Import ZifyBool ZifyN ZifyNat Sorting.Permutation Sorting.Sorted.

(* ---------- a subscription evolves by turns ---------- *)
Definition evolves (s s' : sub) : Prop := exists os, s' = fst (srun s os).

Lemma srun_app os1 : forall s os2,
  fst (srun s (os1 ++ os2)) = fst (srun (fst (srun s os1)) os2).
Proof.
  induction os1 as [|o os1 IH]; intros s os2; simpl; auto.
  destruct (sstep s o) as [s1 d]. specialize (IH s1 os2).
  destruct (srun s1 (os1 ++ os2)) as [s2 ds]. destruct (srun s1 os1) as [s3 ds3]. simpl in *.
  exact IH.
Qed.

Lemma evolves_refl s : evolves s s.
Proof. exists []. reflexivity. Qed.

Lemma evolves_trans a b c : evolves a b -> evolves b c -> evolves a c.
Proof. intros [o1 ->] [o2 ->]. exists (o1 ++ o2). rewrite srun_app. reflexivity. Qed.

Lemma evolves_step s o : evolves s (fst (sstep s o)).
Proof. exists [o]. simpl. destruct (sstep s o). reflexivity. Qed.

Lemma evolves_inv s s' : sub_inv s -> evolves s s' -> sub_inv s'.
Proof. intros I [os ->]. apply srun_inv. assumption. Qed.

(* identity fields never change *)
Lemma sstep_fields s o :
  let s' := fst (sstep s o) in
  s_name s' = s_name s /\ s_uid s' = s_uid s /\ s_topic s' = s_topic s /\
  s_ackdl s' = s_ackdl s /\ s_push s' = s_push s.
Proof.
  destruct o; simpl.
  - unfold sub_post. destruct (s_deleted s); simpl; auto.
  - unfold sub_pull. destruct (s_deleted s); simpl; auto. destruct lease_out as [[ls t'] na']. simpl. auto.
  - unfold sub_ack. destruct (s_deleted s); simpl; auto.
  - unfold sub_modify. destruct (s_deleted s); simpl; auto. destruct tr_modify. simpl. auto.
  - unfold sub_expire. destruct take_expired as [[[ls e] m]|]; simpl; auto.
Qed.

Lemma evolves_fields s s' :
  evolves s s' ->
  s_name s' = s_name s /\ s_uid s' = s_uid s /\ s_topic s' = s_topic s /\
  s_ackdl s' = s_ackdl s /\ s_push s' = s_push s /\ s_deleted s' = s_deleted s.
Proof.
  intros [os ->]. revert s. induction os as [|o os IH]; intros s; simpl; [tauto|].
  pose proof (sstep_fields s o) as F. pose proof (sstep_deleted s o) as D.
  destruct (sstep s o) as [s1 d]. simpl in *.
  specialize (IH s1). destruct (srun s1 os) as [s2 ds]. simpl in *.
  destruct F as (F1 & F2 & F3 & F4 & F5). destruct IH as (G1 & G2 & G3 & G4 & G5 & G6).
  repeat split; congruence.
Qed.

(* the building blocks used by handle and settle are turns *)
Lemma evolves_post ms s : evolves s (sub_post ms s).
Proof. apply (evolves_step s (OPost ms)). Qed.
Lemma evolves_pull max now s : evolves s (fst (sub_pull max now s)).
Proof. apply (evolves_step s (OPull max now)). Qed.
Lemma evolves_ack ids s : evolves s (sub_ack ids s).
Proof. apply (evolves_step s (OAck ids)). Qed.
Lemma evolves_modify mods s : evolves s (sub_modify mods s).
Proof. apply (evolves_step s (OMod mods)). Qed.
Lemma evolves_expire now s : evolves s (sub_expire now s).
Proof. apply (evolves_step s (OExpire now)). Qed.

Lemma evolves_serve fuel now : forall s c, evolves s (fst (serve fuel now s c)).
Proof.
  induction fuel as [|f IH]; intros s c; simpl; [apply evolves_refl|].
  destruct (s_backlog s) as [|m b] eqn:Eb; [apply evolves_refl|].
  destruct (first_waiter (s_uid s) (c_waiters c)) as [[k rest]|]; [|apply evolves_refl].
  destruct k as [sid|id max limit].
  - destruct (find_stream sid (c_streams c)) as [st|]; [|apply IH].
    eapply evolves_trans; [apply (evolves_pull (st_max st) now s)|apply IH].
  - eapply evolves_trans; [apply (evolves_pull max now s)|apply IH].
Qed.

Lemma evolves_settle_sub now touched c s : evolves s (fst (settle_sub now touched c s)).
Proof.
  unfold settle_sub.
  set (s1 := if actor_runs now touched c s then sub_expire now s else s).
  assert (E1 : evolves s s1) by (unfold s1; destruct (actor_runs now touched c s); [apply evolves_expire|apply evolves_refl]).
  eapply evolves_trans; [exact E1|apply evolves_serve].
Qed.

Lemma settle_subs_evolve now touched : forall ss c,
  Forall2 evolves ss (fst (settle_subs now touched ss c)).
Proof.
  induction ss as [|s ss IH]; intros c; simpl; [constructor|].
  pose proof (evolves_settle_sub now (touched (s_uid s)) c s) as E.
  destruct (settle_sub now (touched (s_uid s)) c s) as [s' c1]. simpl in E.
  specialize (IH c1). destruct (settle_subs now touched ss c1) as [r c2]. simpl in *.
  constructor; assumption.
Qed.

(* ---------- how one API step relates the subscription lists ---------- *)
(* every subscription after the step evolved from one before it, or from a
   freshly created one *)
Definition subs_step (ss ss' : list sub) : Prop :=
  forall s', In s' ss' ->
    (exists s, In s ss /\ evolves s s') \/
    (exists n u t a p, evolves (sub_new n u t a p) s').

Lemma subs_step_refl ss : subs_step ss ss.
Proof. intros s' H. left. exists s'. split; auto. apply evolves_refl. Qed.

Lemma subs_step_forall2 ss ss' : Forall2 evolves ss ss' -> subs_step ss ss'.
Proof.
  induction 1 as [|a b l l' E F IH]; intros s' Hin; simpl in *; [tauto|].
  destruct Hin as [<-|Hin].
  - left. exists a. auto.
  - destruct (IH s' Hin) as [[s [H1 H2]]|H2]; [left; exists s; auto|right; exact H2].
Qed.

Lemma subs_step_trans a b c : subs_step a b -> subs_step b c -> subs_step a c.
Proof.
  intros H1 H2 s' Hin. destruct (H2 s' Hin) as [[s [Hs Es]]|(n & u & t & k & p & E)].
  - destruct (H1 s Hs) as [[s0 [Hs0 E0]]|(n & u & t & k & p & E0)].
    + left. exists s0. split; auto. eapply evolves_trans; eauto.
    + right. exists n, u, t, k, p. eapply evolves_trans; eauto.
  - right. exists n, u, t, k, p. exact E.
Qed.

Lemma upd_sub_step u f ss : (forall s, evolves s (f s)) -> subs_step ss (upd_sub u f ss).
Proof.
  intros Hf. apply subs_step_forall2. unfold upd_sub. induction ss as [|s ss IH]; simpl; constructor; auto.
  destruct (N.eqb u (s_uid s)); [apply Hf|apply evolves_refl].
Qed.

Lemma map_cond_step (c : sub -> bool) f ss :
  (forall s, evolves s (f s)) -> subs_step ss (map (fun s => if c s then f s else s) ss).
Proof.
  intros Hf. apply subs_step_forall2. induction ss as [|s ss IH]; simpl; constructor; auto.
  destruct (c s); [apply Hf|apply evolves_refl].
Qed.

Lemma del_sub_step u ss : subs_step ss (del_sub u ss).
Proof.
  intros s' Hin. apply filter_In in Hin as [Hin _]. left. exists s'. split; auto. apply evolves_refl.
Qed.

Lemma app_new_step ss n u t a p : subs_step ss (ss ++ [sub_new n u t a p]).
Proof.
  intros s' Hin. apply in_app_iff in Hin as [Hin|[<-|[]]].
  - left. exists s'. split; auto. apply evolves_refl.
  - right. exists n, u, t, a, p. apply evolves_refl.
Qed.

Lemma evolves_fold_left {A} (f : sub -> A -> sub) (l : list A) :
  (forall x a, evolves x (f x a)) -> forall x, evolves x (fold_left f l x).
Proof.
  intros H. induction l as [|a l IH]; intros x; simpl; [apply evolves_refl|].
  eapply evolves_trans; [apply H|apply IH].
Qed.

(* handle: the unsettled effect *)
Lemma handle_subs_step sv r :
  subs_step (sv_subs sv) (sv_subs (fst (fst (handle sv r)))).
Proof.
  destruct r; simpl;
    repeat match goal with
    | |- context [match ?x with _ => _ end] => destruct x eqn:?; simpl
    end;
    try apply subs_step_refl;
    try (apply upd_sub_step; intros;
         first [apply evolves_ack | apply evolves_modify | apply evolves_pull | apply evolves_refl
               | eapply evolves_trans; [apply evolves_ack|apply evolves_modify]]);
    try apply del_sub_step; try apply app_new_step.
  - (* publish *) apply (map_cond_step (fun s0 => existsb (N.eqb (s_uid s0)) (map snd (t_subs t))) (sub_post _)).
    intros. apply evolves_post.
  - (* push pass *) apply upd_sub_step. intros s1.
    eapply evolves_trans; [apply (evolves_pull 1000 (sv_now sv) s1)|].
    apply evolves_fold_left. intros x [l0 o]. cbn [fst snd].
    destruct o; try apply evolves_refl; try apply evolves_modify.
    match goal with |- context [if ?b then _ else _] => destruct b end; [apply evolves_ack|apply evolves_modify].
Qed.

Lemma settle_subs_step touched sv : subs_step (sv_subs sv) (sv_subs (settle touched sv)).
Proof.
  unfold settle. pose proof (settle_subs_evolve (sv_now sv) touched (sv_subs sv) (sv_cons sv)) as F.
  destruct (settle_subs (sv_now sv) touched (sv_subs sv) (sv_cons sv)) as [ss sts]. simpl in *.
  apply subs_step_forall2. exact F.
Qed.

(* C01/C03 bridge: under one API step every subscription evolves by actor turns. *)
Theorem api_step_subs_step sv r : subs_step (sv_subs sv) (sv_subs (fst (api_step sv r))).
Proof.
  unfold api_step. pose proof (handle_subs_step sv r) as H.
  destruct (handle sv r) as [[sv1 p] t]. simpl in *.
  eapply subs_step_trans; [exact H|apply settle_subs_step].
Qed.

Inductive reachable : server -> Prop :=
| reach_init : reachable init_server
| reach_step sv r : reachable sv -> reachable (fst (api_step sv r)).

Lemma run_reachable rs : reachable (fst (run rs)).
Proof.
  unfold run.
  assert (G : forall rs sv out, reachable sv ->
            reachable (fst (fold_left (fun (acc : server * list resp) r =>
                        let (sv, out) := acc in let (sv', p) := api_step sv r in (sv', out ++ [p])) rs (sv, out)))).
  { clear. induction rs as [|r rs IH]; intros sv out R; simpl; auto.
    pose proof (reach_step sv r R) as R1. destruct (api_step sv r) as [sv' p]. simpl in R1. apply IH. exact R1. }
  apply G. constructor.
Qed.

Lemma subs_step_inv ss ss' : Forall sub_inv ss -> subs_step ss ss' -> Forall sub_inv ss'.
Proof.
  intros F H. apply Forall_forall. intros s' Hin. rewrite Forall_forall in F.
  destruct (H s' Hin) as [[s [Hs E]]|(n & u & t & a & p & E)].
  - eapply evolves_inv; eauto.
  - eapply evolves_inv; [apply sub_new_inv|exact E].
Qed.

(* C02: in every reachable state every tracker is coherent (so the
   unwrap_unchecked of take_expired is never reached with None). *)
Theorem reachable_sub_inv sv : reachable sv -> Forall sub_inv (sv_subs sv).
Proof.
  induction 1 as [|sv r R IH]; [constructor|].
  eapply subs_step_inv; [exact IH|apply api_step_subs_step].
Qed.

(* ---------- C17: a rejected request changes nothing ---------- *)
Lemma handle_error_pure sv r c :
  snd (fst (handle sv r)) = PErr c -> handle sv r = (sv, PErr c, no_touch).
Proof.
  destruct r; simpl;
    repeat match goal with
    | |- context [match ?x with _ => _ end] => destruct x eqn:?; simpl
    end; intros H; try discriminate; try (injection H as <-; reflexivity).
Qed.

(* The state after a rejected request is the state the server would be in had
   the request never been received (only the internal work that is due anyway). *)
Theorem C17_rejected_pure_l sv r c :
  snd (api_step sv r) = PErr c -> fst (api_step sv r) = settle no_touch sv.
Proof.
  unfold api_step. destruct (handle sv r) as [[sv1 p] t] eqn:E. simpl. intros ->.
  assert (H : snd (fst (handle sv r)) = PErr c) by (rewrite E; reflexivity).
  apply handle_error_pure in H. rewrite E in H. injection H as -> ->. reflexivity.
Qed.

(* C17/C05: a malformed streaming control message only ends that stream *)
Lemma stream_send_reject_pure sv sid n mm mb acks modids secs :
  let sv1 := fst (fst (handle sv (RStreamSend sid n mm mb acks modids secs))) in
  (negb (is_nil n) = true \/ (0 < mb)%Z \/ (0 < mm)%Z \/ length secs <> length modids \/
   parse_all parse_u64 acks = None \/ parse_mods (sv_now sv) modids secs = None) ->
  sv_subs sv1 = sv_subs sv /\ sv_topics sv1 = sv_topics sv /\ sv_reg sv1 = sv_reg sv.
Proof.
  simpl. intros H.
  destruct (find (fun st => N.eqb sid (st_id st)) (sv_streams sv)) as [st|]; simpl; auto.
  destruct (st_term st); simpl; auto. destruct (st_reqopen st); simpl; auto.
  destruct (negb (is_nil n)) eqn:E1; simpl; auto.
  destruct (Z.ltb 0 mb) eqn:E2; simpl; auto.
  destruct (Z.ltb 0 mm) eqn:E3; simpl; auto.
  destruct (Nat.eqb (length secs) (length modids)) eqn:E4; simpl; auto.
  destruct (parse_all parse_u64 acks) eqn:E5; simpl; auto.
  destruct (parse_mods (sv_now sv) modids secs) eqn:E6; simpl; auto.
  exfalso. apply Nat.eqb_eq in E4. destruct H as [H|[H|[H|[H|[H|H]]]]]; try discriminate; try lia.
Qed.
