
val negb : bool -> bool

type nat =
| O
| S of nat

type ('a, 'b) sum =
| Inl of 'a
| Inr of 'b

val fst : ('a1 * 'a2) -> 'a1

val snd : ('a1 * 'a2) -> 'a2

val length : 'a1 list -> nat

val app : 'a1 list -> 'a1 list -> 'a1 list

type comparison =
| Eq
| Lt
| Gt

val compOpp : comparison -> comparison

val add : nat -> nat -> nat

val sub : nat -> nat -> nat

module Nat :
 sig
  val eqb : nat -> nat -> bool

  val leb : nat -> nat -> bool

  val ltb : nat -> nat -> bool

  val max : nat -> nat -> nat

  val min : nat -> nat -> nat

  val eq_dec : nat -> nat -> bool
 end

type positive =
| XI of positive
| XO of positive
| XH

type n =
| N0
| Npos of positive

type z =
| Z0
| Zpos of positive
| Zneg of positive

module Pos :
 sig
  type mask =
  | IsNul
  | IsPos of positive
  | IsNeg
 end

module Coq_Pos :
 sig
  val succ : positive -> positive

  val add : positive -> positive -> positive

  val add_carry : positive -> positive -> positive

  val pred_double : positive -> positive

  type mask = Pos.mask =
  | IsNul
  | IsPos of positive
  | IsNeg

  val succ_double_mask : mask -> mask

  val double_mask : mask -> mask

  val double_pred_mask : positive -> mask

  val sub_mask : positive -> positive -> mask

  val sub_mask_carry : positive -> positive -> mask

  val mul : positive -> positive -> positive

  val iter : ('a1 -> 'a1) -> 'a1 -> positive -> 'a1

  val pow : positive -> positive -> positive

  val size : positive -> positive

  val compare_cont : comparison -> positive -> positive -> comparison

  val compare : positive -> positive -> comparison

  val eqb : positive -> positive -> bool

  val coq_lor : positive -> positive -> positive

  val shiftl : positive -> n -> positive

  val iter_op : ('a1 -> 'a1 -> 'a1) -> positive -> 'a1 -> 'a1

  val to_nat : positive -> nat

  val of_succ_nat : nat -> positive
 end

module N :
 sig
  val succ_double : n -> n

  val double : n -> n

  val add : n -> n -> n

  val sub : n -> n -> n

  val mul : n -> n -> n

  val compare : n -> n -> comparison

  val eqb : n -> n -> bool

  val leb : n -> n -> bool

  val ltb : n -> n -> bool

  val min : n -> n -> n

  val max : n -> n -> n

  val pow : n -> n -> n

  val size : n -> n

  val pos_div_eucl : positive -> n -> n * n

  val div_eucl : n -> n -> n * n

  val div : n -> n -> n

  val modulo : n -> n -> n

  val coq_lor : n -> n -> n

  val shiftl : n -> n -> n

  val to_nat : n -> nat

  val of_nat : nat -> n
 end

val tl : 'a1 list -> 'a1 list

val nth : nat -> 'a1 list -> 'a1 -> 'a1

val nth_error : 'a1 list -> nat -> 'a1 option

val remove : ('a1 -> 'a1 -> bool) -> 'a1 -> 'a1 list -> 'a1 list

val rev : 'a1 list -> 'a1 list

val map : ('a1 -> 'a2) -> 'a1 list -> 'a2 list

val flat_map : ('a1 -> 'a2 list) -> 'a1 list -> 'a2 list

val fold_left : ('a1 -> 'a2 -> 'a1) -> 'a2 list -> 'a1 -> 'a1

val fold_right : ('a2 -> 'a1 -> 'a1) -> 'a1 -> 'a2 list -> 'a1

val existsb : ('a1 -> bool) -> 'a1 list -> bool

val filter : ('a1 -> bool) -> 'a1 list -> 'a1 list

val find : ('a1 -> bool) -> 'a1 list -> 'a1 option

val combine : 'a1 list -> 'a2 list -> ('a1 * 'a2) list

val skipn : nat -> 'a1 list -> 'a1 list

val seq : nat -> nat -> nat list

val repeat : 'a1 -> nat -> 'a1 list

module Z :
 sig
  val double : z -> z

  val succ_double : z -> z

  val pred_double : z -> z

  val pos_sub : positive -> positive -> z

  val add : z -> z -> z

  val opp : z -> z

  val sub : z -> z -> z

  val mul : z -> z -> z

  val compare : z -> z -> comparison

  val leb : z -> z -> bool

  val ltb : z -> z -> bool

  val eqb : z -> z -> bool

  val to_N : z -> n

  val of_N : n -> z

  val pos_div_eucl : positive -> z -> z * z

  val div_eucl : z -> z -> z * z

  val modulo : z -> z -> z
 end

type ascii =
| Ascii of bool * bool * bool * bool * bool * bool * bool * bool

val n_of_digits : bool list -> n

val n_of_ascii : ascii -> n

type string =
| EmptyString
| String of ascii * string

val list_ascii_of_string : string -> ascii list

type str = n list

val bytes_of_string : string -> str

val str_eqb : str -> str -> bool

val is_nil : 'a1 list -> bool

val strip_prefix : str -> str -> str option

val starts_with : str -> str -> bool

val split_once : n -> str -> (str * str) option

val str_ltb : str -> str -> bool

val dec_digits_fuel : nat -> n -> str -> str

val dec_of_N : n -> str

val is_digit : n -> bool

val digits_value : str -> n -> n option

val parse_u64 : str -> n option

val parse_int : str -> z option

val hex_digit : n -> n

val hex_of_bytes : str -> str

val hex_field : str -> str

val hex_val : n -> n option

val bytes_of_hex : str -> str option

val unhex_field : str -> str option

val alookup : ('a1 -> 'a1 -> bool) -> 'a1 -> ('a1 * 'a2) list -> 'a2 option

val aremove :
  ('a1 -> 'a1 -> bool) -> 'a1 -> ('a1 * 'a2) list -> ('a1 * 'a2) list

val aupdate :
  ('a1 -> 'a1 -> bool) -> 'a1 -> 'a2 -> ('a1 * 'a2) list -> ('a1 * 'a2) list

val amem : ('a1 -> 'a1 -> bool) -> 'a1 -> ('a1 * 'a2) list -> bool

val insert_sorted : ('a1 -> 'a1 -> bool) -> 'a1 -> 'a1 list -> 'a1 list

val isort : ('a1 -> 'a1 -> bool) -> 'a1 list -> 'a1 list

val skip_N : n -> 'a1 list -> 'a1 list

val take_N : n -> 'a1 list -> 'a1 list

val len_N : 'a1 list -> n

val projects_prefix : str

val topics_seg : str

val subscriptions_seg : str

val slash : n

type name = str * str

val name_eqb : name -> name -> bool

val parse_name : str -> str -> name option

val show_name : str -> name -> str

val parse_topic_name : str -> name option

val parse_sub_name : str -> name option

val show_topic_name : name -> str

val show_sub_name : name -> str

val parse_project : str -> str option

val ns_per_s : n

val ns_per_ms : n

val us_ceil : n -> n

val round_deadline : n -> n

val effective_ackdl : z -> n

type ext =
| ExtErr
| ExtNack
| ExtSecs of n

val parse_ext : z -> ext

val tick_of : n -> n

val b64_char : n -> n

val b64_val : n -> n option

val pad : n

val b64_encode : str -> str

val b64_decode : str -> str option

val le_bytes : nat -> n -> str

val le_value : str -> n

val token_encode : n -> str

val token_decode : str -> n option

val as_u16 : z -> n

val len_as_u16 : n -> n

val try_u16 : z -> n option

val pull_capacity : n -> n -> n

val pull_count : n -> n -> n

val message_id : n -> n -> n

type paging = { pg_size : n; pg_offset : n option }

val paging_new : n -> n option -> paging

val pg_take : paging -> n

val pg_skip : paging -> n

val parse_page_token : str -> n option option

val parse_paging : z -> str -> paging option

val page_of : paging -> 'a1 list -> 'a1 list * n option

val next_token : n option -> str

type msg = { m_id : n; m_data : str; m_attrs : (str * str) list; m_pt : n }

type lease = { l_ack : n; l_dl : n; l_msg : msg }

type ekey = n * n

val key_ltb : ekey -> ekey -> bool

val key_eqb : ekey -> ekey -> bool

val set_insert : ekey -> ekey list -> ekey list

val set_remove : ekey -> ekey list -> ekey list

type tracker = { tr_msgs : (n * lease) list; tr_exp : ekey list }

val tr_empty : tracker

val lease_key : lease -> ekey

val map_insert : n -> lease -> (n * lease) list -> (n * lease) list

val tr_add : lease -> tracker -> tracker

val tr_remove1 : tracker -> n -> tracker

val tr_remove : n list -> tracker -> tracker

val tr_modify1 :
  (tracker * lease list) -> (n * n option) -> tracker * lease list

val tr_modify : (n * n option) list -> tracker -> tracker * lease list

val take_expired :
  n -> ekey list -> (n * lease) list -> ((lease list * ekey
  list) * (n * lease) list) option

type sub0 = { s_name : name; s_uid : n; s_topic : n; s_ackdl : n;
              s_push : str option; s_backlog : msg list; s_tr : tracker;
              s_next_ack : n; s_deleted : bool }

val set_backlog_tr : sub0 -> msg list -> tracker -> n -> sub0

val sub_new : name -> n -> n -> n -> str option -> sub0

val sub_post : msg list -> sub0 -> sub0

val lease_out : n -> n -> msg list -> tracker -> (lease list * tracker) * n

val sub_pull : n -> n -> sub0 -> sub0 * lease list

val sub_ack : n list -> sub0 -> sub0

val sub_modify : (n * n option) list -> sub0 -> sub0

val sub_expire : n -> sub0 -> sub0

val sub_outstanding : sub0 -> n

val sub_backlog_len : sub0 -> n

val iNVALID_ARGUMENT : n

val nOT_FOUND : n

val aLREADY_EXISTS : n

val deleted_topic_str : str

val deleted_topic_name : name

val http_str : str

type topic = { t_name : name; t_uid : n; t_subs : (name * n) list;
               t_next_msg : n }

type stream = { st_id : n; st_sub : n; st_subname : name; st_max : n;
                st_pending : lease list list; st_term : n option;
                st_reqopen : bool }

type consumer =
| CStream of n
| CPull of n * n * n

type cons = { c_streams : stream list; c_waiters : (n * consumer) list;
              c_done : (n * (n, lease list) sum) list }

type server = { sv_now : n; sv_topics : topic list; sv_tnext : n;
                sv_subs : sub0 list; sv_snext : n;
                sv_reg : (name * str) list; sv_ptnext : n; sv_cons : 
                cons }

val sv_streams : server -> stream list

val init_server : server

val find_topic : name -> topic list -> topic option

val topic_by_uid : n -> topic list -> topic option

val find_sub : name -> sub0 list -> sub0 option

val upd_sub : n -> (sub0 -> sub0) -> sub0 list -> sub0 list

val upd_topic : n -> (topic -> topic) -> topic list -> topic list

val del_sub : n -> sub0 list -> sub0 list

val del_topic : n -> topic list -> topic list

val with_subs : server -> sub0 list -> server

val with_cons : server -> cons -> server

val set_streams : cons -> stream list -> cons

val with_streams : server -> stream list -> server

val with_topics : server -> topic list -> server

type raw_msg = str * (str * str) list

type outcome =
| OStatus of n
| OReset
| ORefused
| OHang

val accepted : outcome -> bool

type req =
| RCreateTopic of str
| RGetTopic of str
| RDeleteTopic of str
| RListTopics of str * z * str
| RListTopicSubs of str * z * str
| RCreateSub of str * str * z * str option
| RGetSub of str
| RDeleteSub of str
| RListSubs of str * z * str
| RPublish of str * raw_msg list
| RPull of str * z * bool
| RAck of str * str list
| RModify of str * z * str list
| RAdvance of n
| RStats of str
| RReg
| RStreamOpen of n * str * z * z
| RStreamSend of n * str * z * z * str list * str list * z list
| RStreamClose of n
| RStreamRead of n
| RPullBg of n * str * z
| RJoin of n
| RPushSub of name * outcome list

type subres = { r_name : str; r_topic : str; r_ackdl : n; r_push : str option }

type resp =
| PErr of n
| POk
| PTopic of str
| PNames of str list * str
| PSub of subres
| PSubs of subres list * str
| PIds of n list
| PMsgs of lease list
| PStats of n * n * str
| PReg of (str * str) list
| PStream of lease list list * n option
| PPending
| PJoined of (n, lease list) sum
| PPushed of (lease * outcome) list
| PNone

val timer_fired : n -> sub0 -> bool

val first_waiter :
  n -> (n * consumer) list -> (consumer * (n * consumer) list) option

val stream_push : n -> lease list list -> stream list -> stream list

val stream_terminate : (stream -> bool) -> n -> stream list -> stream list

val find_stream : n -> stream list -> stream option

val serve : nat -> n -> sub0 -> cons -> sub0 * cons

val has_waiter : n -> cons -> bool

val actor_runs : n -> bool -> cons -> sub0 -> bool

val settle_sub : n -> bool -> cons -> sub0 -> sub0 * cons

val settle_subs : n -> (n -> bool) -> sub0 list -> cons -> sub0 list * cons

val expire_pulls : n -> cons -> cons

val settle : (n -> bool) -> server -> server

val topic_display : server -> sub0 -> str

val sub_resource : server -> sub0 -> subres

val uid_ltb_sub : sub0 -> sub0 -> bool

val uid_ltb_topic : topic -> topic -> bool

val snd_ltb : (name * n) -> (name * n) -> bool

val is_space : n -> bool

val trim_start : str -> str

val trim : str -> str

val parse_push : str option -> str option option

val no_touch : n -> bool

val touch1 : n -> n -> bool

val touch_list : n list -> n -> bool

val parse_all : ('a1 -> 'a2 option) -> 'a1 list -> 'a2 list option

val parse_mods : n -> str list -> z list -> (n * n option) list option

val mk_msgs : n -> n -> n -> raw_msg list -> msg list

val set_topic_subs : topic -> (name * n) list -> topic

val set_topic_next : topic -> n -> topic

val attached : name -> (name * n) list -> bool

val release_consumers : n -> cons -> cons

val unpark_stream : n -> cons -> cons

val park : n -> consumer -> cons -> cons

val pull_limit_ns : n

val rotate_waiter : cons -> n -> cons

val handle : server -> req -> (server * resp) * (n -> bool)

val api_step : server -> req -> server * resp

val split_on : n -> str -> str list

val kw : string -> str

val bind : 'a1 option -> ('a1 -> 'a2 option) -> 'a2 option

val p_str : str -> str option

val p_int : str -> z option

val p_nat : str -> n option

val p_strs : nat -> str list -> (str list * str list) option

val p_ints : nat -> str list -> (z list * str list) option

val p_pairs : nat -> str list -> ((str * str) list * str list) option

val p_msgs : nat -> str list -> (raw_msg list * str list) option

val counted_strs : str list -> (str list * str list) option

val counted_ints : str list -> (z list * str list) option

val is_kw : string -> str -> bool

val parse_op : str list -> req option

val sp : n

val join_sp : str list -> str

val r_num : n -> str

val r_str : str -> str

val r_pushcfg : str option -> str

val rank_of : n -> n list -> n -> n option

val r_msg : n list -> lease -> str list * n list

val r_msgs : n list -> lease list -> str list * n list

val r_batches : n list -> lease list list -> str list * n list

val r_subres : subres -> str list

val op_name : req -> str

val render : n list -> req -> resp -> str * n list

val nl : n

val nth_mod : str list -> n -> bool -> str

val resolve_tok : str list -> str -> str

val resp_acks : resp -> str list

val is_blocking_pull : str list -> (str * str) option

val split_on_tok : str -> str list -> str list list

val intersperse : str -> str list -> str list

val ep_prefix : str

val parse_outcome : str -> outcome option

val r_outcome : outcome -> str

val ep_index : str -> n option

val ep_script : (n * outcome list) list -> n -> outcome list

val ep_set :
  (n * outcome list) list -> n -> outcome list -> (n * outcome list) list

val r_post : n -> str -> (lease * outcome) -> str list

val push_round :
  server -> (n * outcome list) list -> (name * str) list ->
  ((server * (n * outcome list) list) * ((n * str) * (lease * outcome))
  list) * bool

val push_rounds :
  nat -> server -> (n * outcome list) list -> (server * (n * outcome list)
  list) * ((n * str) * (lease * outcome)) list

val dedup_sorted : n list -> n list

val sorted_registry : server -> (name * str) list

val run_seq_parts :
  server -> n list -> str list -> str list -> ((server * n list) * str
  list) * str

val run_lines :
  server -> n list -> str list -> (n * str) list -> (n * outcome list) list
  -> str list list -> str list

val tokens : str -> str list

val cases_of : str list -> (str * str list) option -> (str * str list) list

val run_case : (str * str list) -> str list

val join_nl : str list -> str

val run_file : str -> str

val pure_line : str list -> str

val pure_file : str -> str

type cfg = { max_m : n; max_b : n }

type wpc =
| W0
| W1 of n
| WL
| WS of n
| WM of n * n
| WP of n * n * n option
| WParked of n * n * n option
| WDone of n * n

type mkind =
| Inc
| Dec

type mpc =
| M0
| M1
| M2
| MDone

type thread =
| TW of wpc
| TM of mkind * n * n * mpc

type state = { msgs : n; bytes : n; calls : n; threads : thread list }

val upd : nat -> 'a1 -> 'a1 list -> 'a1 list

val apply : mkind -> n -> n -> n

val wstep : cfg -> n -> n -> n -> wpc -> wpc option

val wake : thread -> thread

val step : cfg -> state -> nat -> state option

val fc_wname : wpc -> str

val fc_mname : mpc -> str

val fc_tname : thread -> str

val fc_dash : str

val fc_bad : str list

val fc_step : cfg -> state -> n -> state option

val fc_sched : cfg -> state -> n list -> str list * state

val fc_final : state -> str

val fc_p_thread : str list -> thread option

val fc_p_nats : str list -> n list option

val fc_p_body : str list list -> thread list -> (thread list * n list) option

val fc_p_cfg : str list -> ((cfg * n) * n) option

val fc_run_case : str list list -> str list

val fc_case : (str * str list) -> str list

val fc_file : str -> str

type notif =
| NNone
| NOne
| NAll

type poll_res =
| PollReadyPermit
| PollReadyCalls
| PollPending

val poll_init : bool -> nat -> nat -> poll_res

type kind =
| Unary
| Stream

type outcome0 =
| OMessages of nat
| OEmpty
| OError
| ONotFound

type reply =
| RMsgs of nat
| RClosed

type phase =
| PU0 of bool
| PU1 of nat * bool
| PU2 of nat * reply option
| PU3 of nat
| PParked of notif
| PDone of outcome0
| PGone

type cons0 = { ckind : kind; cmax : nat; cphase : phase; ctimed : bool;
               cgot : nat }

val with_phase : phase -> cons0 -> cons0

val with_timed : cons0 -> cons0

val add_got : nat -> cons0 -> cons0

type req0 =
| RPost of nat
| RPull0 of nat * nat
| RNack of nat
| RAck0 of nat
| RDelete

type state0 = { permit : bool; waiters : nat list; calls0 : nat;
                backlog : nat; leased : nat; deleted : bool; exited : 
                bool; mailbox : req0 list; conss : cons0 list }

val init : state0

val set_permit : bool -> state0 -> state0

val set_waiters : nat list -> state0 -> state0

val set_calls : nat -> state0 -> state0

val set_backlog : nat -> state0 -> state0

val set_leased : nat -> state0 -> state0

val set_deleted : bool -> state0 -> state0

val set_exited : bool -> state0 -> state0

val set_mailbox : req0 list -> state0 -> state0

val set_conss : cons0 list -> state0 -> state0

val get : state0 -> nat -> cons0 option

val upd0 : cons0 list -> nat -> (cons0 -> cons0) -> cons0 list

val setc : nat -> (cons0 -> cons0) -> state0 -> state0

val wake0 : notif -> cons0 -> cons0

val notify_one : state0 -> state0

val notify_waiters : state0 -> state0

val finish : phase -> nat -> (cons0 -> cons0) -> state0 -> state0

val leave : bool -> phase -> nat -> (cons0 -> cons0) -> state0 -> state0

val suspended : phase -> bool

val closed_outcome : kind -> outcome0

val cons_step : bool -> nat -> state0 -> nat -> state0 option

val del_exit : bool -> state0 -> nat -> state0 option

val alive : phase -> bool

val timeout : bool -> state0 -> nat -> state0 option

val cancel : bool -> state0 -> nat -> state0 option

val deliver_f : reply -> cons0 -> cons0

val deliver : nat -> reply -> state0 -> state0

val requeue : nat -> state0 -> state0

val pull_count0 : nat -> nat -> nat

val turn : state0 -> state0 option

val close_req : state0 -> req0 -> state0

val actor_exit : state0 -> state0 option

type label =
| LTurn
| LExit
| LCons of nat
| LDelExit of nat
| LEnq of req0
| LExpire of nat
| LArrive of kind * nat
| LCancel of nat
| LTimeout of nat

val is_pull : req0 -> bool

val new_cons : kind -> nat -> cons0

val step0 : bool -> nat -> state0 -> label -> state0 option

val cs_ho : bool

val cs_K : nat

type cs_state = { cs_st : state0; cs_ids : (n * nat) list }

val cs_init : cs_state

val cs_lookup : n -> (n * nat) list -> nat option

val cs_poll_steps : nat -> state0 -> nat -> state0

val cs_got : state0 -> nat -> nat

val cs_poll_stream_steps : nat -> state0 -> nat -> state0

val cs_is_stream : state0 -> nat -> bool

val cs_poll_stream : state0 -> nat -> state0

val cs_poll : state0 -> nat -> state0

val cs_turns : nat -> state0 -> state0

val cs_settle : state0 -> state0

val cs_request : req0 -> state0 -> state0

val cs_fill : nat -> state0 -> state0

val cs_phase_line : state0 -> nat -> str

val cs_bad : str

val cs_finished : state0 -> nat -> bool

val cs_forget : n -> (n * nat) list -> (n * nat) list

val cs_op : cs_state -> str list -> cs_state * str

val cs_lines : cs_state -> str list list -> str list

val cs_case : (str * str list) -> str list

val cs_file : str -> str
