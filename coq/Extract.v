(* Extraction of the executable model.  Only ExtrOcamlBasic's stock
   directives (bool, option, list, prod, unit, sumbool to OCaml's own types);
   no Extract Constant; N, Z, positive stay Coq's binary numbers. *)
Require Extraction.
Require Import ExtrOcamlBasic.
From Deltio Require Import Model.Driver Model.PureDriver Model.FcDriver Model.CsDriver.
Extraction "model.ml" run_file pure_file fc_file cs_file.
