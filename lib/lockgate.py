"""Generated proof obligation of C07: the lock discipline of the real code.

/verif/lockscan (Rust, syn) reads /repo's current sources and writes Gen/LockEdges.v: the nesting edges between the
manager / registry locks with the call chains that produce them, every await reached while a guard is alive, every
acquisition it could not analyse.  coq/Gen/LockCheck.v (hand-written, committed) is then compiled against THAT file:
`deltio_lock_edges_ranked`, `deltio_no_await_under_lock`, `deltio_all_sites_analysed`, `deltio_no_lock_deadlock`
(an instance of Proofs/LocksP.v: rank-ordered nesting excludes deadlock under any granting policy)."""
import json, os, re
from common import *

SCAN_DIR = os.path.join(ROOT, "lockscan")
SCAN_TARGET = os.path.join(CACHE, "target-lockscan")
THEOREMS = ["deltio_lock_edges_ranked", "deltio_no_await_under_lock", "deltio_all_sites_analysed",
            "deltio_no_lock_deadlock", "deltio_suspension_points_as_modelled"]
# Gen/PushCheck.v (C14): which way the real push pass listens to the deletion signal, read off the suspension points
# the scanner lists for push_loop.rs::pull_and_dispatch_messages; instances of Proofs/PushPassP.v
PUSH_THEOREMS = ["deltio_push_pass_raced_whole", "deltio_push_no_post_after_delete", "deltio_push_delete_stops"]


def build_lockscan():
    with Lock("cargo-lockscan"):
        p = sh("cargo build --release --offline", cwd=SCAN_DIR, env={"CARGO_TARGET_DIR": SCAN_TARGET}, check=False,
               timeout=1200)
        return p.returncode == 0, p.stdout


def lock_gate():
    return gen_gate("LockCheck", THEOREMS, 2)


# Gen/AckCheck.v (C02, C05): the request methods wait for the actor's answer (send, then recv); instances of
# Proofs/ReqRespP.v
ACK_THEOREMS = ["deltio_acknowledge_waits", "deltio_modify_waits", "deltio_handlers_forward",
                "deltio_ack_applied_on_return", "deltio_modify_applied_on_return"]


def ack_gate():
    return gen_gate("AckCheck", ACK_THEOREMS, 3)


# Gen/ExpiryCheck.v (C04): the expiry branch of the actor's select! is unconditional and its poll only waits;
# instance of Proofs/ActorLoopP.v
EXPIRY_THEOREMS = ["deltio_expiry_branch_unconditional", "deltio_expiry_poll_only_waits", "deltio_idle_nothing_expired"]


def expiry_gate():
    return gen_gate("ExpiryCheck", EXPIRY_THEOREMS, 3)


# Gen/ConsumerCheck.v (C06, C12, C15): the suspension points Model/ConcSub.v was written from
CONSUMER_THEOREMS = ["deltio_pull_handler_as_modelled", "deltio_stream_handler_as_modelled",
                     "deltio_pull_request_as_modelled", "deltio_actor_loop_as_modelled"]


def consumer_gate():
    return gen_gate("ConsumerCheck", CONSUMER_THEOREMS, 3)


def push_gate():
    return gen_gate("PushCheck", PUSH_THEOREMS, 3)


def gen_gate(check, theorems, closed):
    """-> (ok, detail).  detail: theorems {name: {...}}, edges, sites, failed (name of the first theorem that no
    longer checks), output.  `check`: the hand-written file of coq/Gen compiled against the LockEdges.v of this run."""
    repo = ALT_REPO or REPO
    detail = {"theorems": {}, "scanner": "lockscan (syn 2, /verif/lockscan)", "source": repo, "check_file": check}
    okb, outb = build_lockscan()
    if not okb:
        detail["output"] = outb[-2000:]
        detail["failed"] = "lockscan does not build"
        return False, detail
    wd = workdir("lockgate" if check == "LockCheck" else "gate-" + check)
    with Lock(("lockgate-alt" if ALT_REPO else "lockgate") + ("" if check == "LockCheck" else "-" + check)):
        v, js = os.path.join(wd, "LockEdges.v"), os.path.join(wd, "lockedges.json")
        for f in glob_all(wd):
            os.remove(f)
        p = sh([os.path.join(SCAN_TARGET, "release", "lockscan"), repo, v, js], check=False, timeout=300)
        if p.returncode != 0:
            detail["output"] = (p.stdout or "")[-2000:]
            detail["failed"] = "lockscan could not read the sources"
            return False, detail
        scan = json.load(open(js))
        detail.update({"files": scan["files"], "functions": scan["functions"], "locks": scan["locks"],
                       "acquisition_sites": len(scan["sites"]),
                       "edges": [{"held": e["held"], "acquired": e["acquired"], "chains": e["chains"][:4]} for e in scan["edges"]],
                       "awaits_under_lock": scan["awaits_under_lock"], "unanalysed": scan["unanalysed"],
                       "calls_resolved_by_name_only": len(scan["calls_resolved_by_name_only"])})
        committed = os.path.join(COQ, "Gen", "LockEdges.v")
        if os.path.exists(committed):
            strip = lambda s: re.sub(r"\(\*.*?\*\)", "", s, flags=re.S)
            detail["same_as_committed_snapshot"] = strip(open(committed).read()) == strip(open(v).read())
        # LockCheck.v as committed, importing the file generated just now
        src = open(os.path.join(COQ, "Gen", check + ".v")).read()
        src2 = src.replace("From Deltio Require Import Gen.LockEdges.", "From DeltioRun Require Import LockEdges.")
        if src2 == src:
            detail["failed"] = "Gen/%s.v does not import Gen.LockEdges" % check
            return False, detail
        chk = os.path.join(wd, check + ".v")
        open(chk, "w").write(src2)
        okc, outc = build_coq()
        if not okc:
            detail["output"] = outc[-2000:]
            detail["failed"] = "the Coq development does not build"
            return False, detail
        p1 = sh(["timeout", "300", "coqc", "-q", "-Q", COQ, "Deltio", "-Q", wd, "DeltioRun", v], check=False)
        p2 = None
        if p1.returncode == 0:
            p2 = sh(["timeout", "300", "coqc", "-q", "-Q", COQ, "Deltio", "-Q", wd, "DeltioRun", chk], check=False)
    out = (p1.stdout or "") + ((p2.stdout or "") if p2 else "")
    ok = p1.returncode == 0 and p2 is not None and p2.returncode == 0
    failed_line = None
    if not ok:
        m = re.search(r'%s\.v", line (\d+)' % check, out)
        if m:
            failed_line = int(m.group(1))
        detail["output"] = out[-1500:]
    # which theorems were reached
    lines = src2.split("\n")
    first_failed = None
    for name in theorems:
        ln = next((i + 1 for i, l in enumerate(lines) if re.match(r"\s*Theorem\s+%s\b" % name, l)), None)
        reached = ok or (failed_line is not None and ln is not None and ln_end(lines, ln) < failed_line)
        st = {"stated": ln is not None, "file": "Gen/%s.v (compiled against the LockEdges.v generated on this run)" % check,
              "ok": bool(reached), "assumptions": "closed" if reached else None}
        if not reached and first_failed is None:
            first_failed = name
        detail["theorems"][name] = st
    if ok and out.count("Closed under the global context") < closed:
        ok = False
        first_failed = first_failed or "Print Assumptions: not closed"
        detail["output"] = out[-1500:]
    if not ok:
        detail["failed"] = first_failed or "Gen/LockEdges.v does not compile"
    return ok, detail


def ln_end(lines, ln):
    """line number of the Qed that closes the theorem starting at line ln"""
    for i in range(ln - 1, len(lines)):
        if re.search(r"\bQed\.", lines[i]):
            return i + 1
    return len(lines)


def glob_all(d):
    import glob
    return [f for f in glob.glob(os.path.join(d, "*")) if os.path.isfile(f)]
