"""Case generators for the correspondence engines.

Every random choice derives from one `random.Random(seed)`; cases are plain op
lines (docs/FORMAT.md), so any disagreement replays exactly."""
import random
from common import hx

MS = 1000000
S = 1000000000

PROJECTS = ["p", "q2"]
TOPIC_IDS = ["t", "u1", "topic-3"]
SUB_IDS = ["s", "s2", "sub-3", "z4"]


def tname(p, t):
    return "projects/%s/topics/%s" % (p, t)


def sname(p, s):
    return "projects/%s/subscriptions/%s" % (p, s)


MALFORMED_NAMES = [
    "", "nope", "projects/", "projects/p", "projects/p/", "projects/p/topics", "projects/p/topics/",
    "projects//topics/t", "projects/p/topic/t", "projects/p/subscriptions/", "brojects/p/topics/t",
    "projects/p/subscriptions", "/projects/p/topics/t", "projects/p//topics/t", "projects/p/Topics/t",
    "projects/é/topics", "projects/p/topicsé/t", " projects/p/topics/t",
]
ODD_VALID_IDS = ["a", "a/", "/a", "a/b", "é", "x y", "-", "t" * 40, "topics", "subscriptions/x"]

DATA_POOL = [b"", b"a", b"hello", b"\x00\xff\x10", b"x" * 40, "hé".encode(), b"{\"k\":1}"]
ATTR_KEYS = ["k", "k2", "é", "a b", ""]
ATTR_VALS = ["v", "", "wü", "1"]

ADV_MS = [1, 7, 50, 99, 100, 101, 500, 1000, 4000, 9899, 9900, 9999, 10000, 10001, 10099, 10100, 10101,
          10200, 11000, 12000, 15000, 20100, 30000, 599900, 600000, 600100]
PULL_MAX = [1, 1, 2, 3, 10, 10, 100, 1000]
PULL_MAX_ODD = [0, -1, 65535, 65536, 65537, 131072, 2147483647, -2147483648, 1001, 999]
ACKDL = [0, 0, 10, 11, 12, 15, 20, -5, 600, 700]
MOD_SECS = [0, 0, 1, 5, 9, 10, 11, 30, 599, 600, 601, 100000, -1, -2147483648, 2147483647]
BAD_ACK_IDS = ["", "x", "-1", "1.5", "18446744073709551616", "99999999999999999999999", "١", " 1", "1 ", "0x1"]
ODD_OK_ACK_IDS = ["+1", "001", "+0002", "0", "18446744073709551615"]
PAGE_SIZES = [0, 0, 1, 2, 3, 5, 19, 20, 21, 1000, 1001, 2147483647, -1, -2147483648]
BAD_TOKENS = ["x", "AAAA", "AAAAAAAAAAAA", "AAAAAAAAAAA", "AAAAAAAAAAA=x", "AQAAAAAAAAA", "AQAAAAAAAAB=",
              "AQAAAAAAAAA=AAAA", "====", "AQAAAAAAAA==", "*QAAAAAAAAA=", "AQAAAAAAAAAé"]


def token_of(n):
    import base64
    return base64.b64encode(int(n).to_bytes(8, "little")).decode()


class SeqGen:
    """Random, mostly-valid operation scripts over a small name pool."""

    def __init__(self, rng, weights, n_ops=(8, 40), allow_streams=False, odd=0.08, malformed=0.04,
                 projects=None, adv=None):
        self.r = rng
        self.w = dict(weights)
        self.n_ops = n_ops
        self.allow_streams = allow_streams
        self.odd = odd
        self.malformed = malformed
        self.projects = projects or PROJECTS
        self.adv = adv or ADV_MS

    # -- helpers
    def pick(self, l):
        return l[self.r.randrange(len(l))]

    def topic(self, st):
        if st["topics"] and self.r.random() < 0.85:
            return self.pick(sorted(st["topics"]))
        if self.r.random() < self.malformed:
            return self.pick(MALFORMED_NAMES)
        return tname(self.pick(self.projects), self.pick(TOPIC_IDS))

    def sub(self, st):
        if st["subs"] and self.r.random() < 0.88:
            return self.pick(sorted(st["subs"]))
        if self.r.random() < self.malformed:
            return self.pick(MALFORMED_NAMES)
        return sname(self.pick(self.projects), self.pick(SUB_IDS))

    def ackids(self, k=None):
        n = k if k is not None else self.pick([1, 1, 1, 2, 3, 0])
        out = []
        for _ in range(n):
            x = self.r.random()
            if x < 0.70:
                out.append("@%d" % self.pick([0, 0, 0, 1, 1, 2, 3, 5]))
            elif x < 0.85:
                out.append("^%d" % self.pick([0, 0, 1, 2, 4]))
            elif x < 0.85 + self.malformed:
                out.append(hx(self.pick(BAD_ACK_IDS)))
            elif x < 0.93:
                out.append(hx(self.pick(ODD_OK_ACK_IDS)))
            else:
                out.append(hx(str(self.r.randrange(1, 40))))
        return out

    def msgs(self):
        k = self.pick([1, 1, 1, 2, 2, 3, 5, 0])
        parts = [str(k)]
        for _ in range(k):
            parts.append(hx(self.pick(DATA_POOL)))
            na = self.pick([0, 0, 0, 1, 2])
            keys = self.r.sample(ATTR_KEYS, na)
            parts.append(str(na))
            for key in keys:
                parts += [hx(key), hx(self.pick(ATTR_VALS))]
        return " ".join(parts)

    def page(self):
        size = self.pick(PAGE_SIZES)
        x = self.r.random()
        if x < 0.6:
            tok = "-"
        elif x < 0.85:
            tok = hx(token_of(self.pick([0, 1, 2, 3, 5, 20, 1000, 2 ** 32, 2 ** 64 - 1])))
        else:
            tok = hx(self.pick(BAD_TOKENS))
        return size, tok

    # -- one case
    def case(self):
        r = self.r
        st = {"topics": set(), "subs": set(), "streams": {}, "next_sid": 1}
        ops = []
        # preamble: a couple of topics and subscriptions so that most ops hit something
        for _ in range(self.pick([1, 1, 2, 2, 3])):
            t = tname(self.pick(self.projects), self.pick(TOPIC_IDS))
            ops.append("CT " + hx(t))
            st["topics"].add(t)
        for _ in range(self.pick([1, 2, 2, 3])):
            t = self.pick(sorted(st["topics"]))
            proj = t.split("/")[1]
            s = sname(proj, self.pick(SUB_IDS))
            ops.append("CS %s %s %d ~" % (hx(s), hx(t), self.pick(ACKDL)))
            st["subs"].add(s)
        kinds = [k for k, w in self.w.items() for _ in range(w)]
        for _ in range(r.randrange(*self.n_ops)):
            k = self.pick(kinds)
            ops += self.op(k, st)
        return [" ".join(o.split()) for o in ops]

    def op(self, k, st):
        r = self.r
        if k == "CT":
            t = self.topic(st) if r.random() < 0.3 else tname(self.pick(self.projects), self.pick(TOPIC_IDS))
            if r.random() < self.odd:
                t = tname(self.pick(self.projects), self.pick(ODD_VALID_IDS))
            st["topics"].add(t)
            return ["CT " + hx(t)]
        if k == "GT":
            return ["GT " + hx(self.topic(st))]
        if k == "DT":
            t = self.topic(st)
            st["topics"].discard(t)
            return ["DT " + hx(t)]
        if k == "CS":
            t = self.topic(st)
            parts = t.split("/")
            proj = parts[1] if len(parts) > 1 and r.random() < 0.9 else self.pick(self.projects)
            s = sname(proj, self.pick(SUB_IDS))
            if r.random() < self.malformed:
                s = self.pick(MALFORMED_NAMES)
            x = r.random()
            ep = "~" if x < 0.8 else hx(self.pick(["http://127.0.0.1:1/push", " https://e.x/p ", "ftp://x", "", "httpx", "HTTP://x"]))
            st["subs"].add(s)
            return ["CS %s %s %d %s" % (hx(s), hx(t), self.pick(ACKDL), ep)]
        if k == "GS":
            return ["GS " + hx(self.sub(st))]
        if k == "DS":
            s = self.sub(st)
            st["subs"].discard(s)
            return ["DS " + hx(s)]
        if k == "LT":
            size, tok = self.page()
            p = "projects/" + self.pick(self.projects) if r.random() > self.malformed else self.pick(["", "p", "projects", "projects/", "projects/p/x"])
            return ["LT %s %d %s" % (hx(p), size, tok)]
        if k == "LS":
            size, tok = self.page()
            p = "projects/" + self.pick(self.projects) if r.random() > self.malformed else self.pick(["", "p", "projects", "projects/", "projects/p/x"])
            return ["LS %s %d %s" % (hx(p), size, tok)]
        if k == "LTS":
            size, tok = self.page()
            return ["LTS %s %d %s" % (hx(self.topic(st)), size, tok)]
        if k == "PUB":
            return ["PUB %s %s" % (hx(self.topic(st)), self.msgs())]
        if k == "PULL":
            m = self.pick(PULL_MAX) if r.random() > self.odd else self.pick(PULL_MAX_ODD)
            return ["PULL %s %d 1" % (hx(self.sub(st)), m)]
        if k == "ACK":
            ids = self.ackids()
            return ["ACK %s %d %s" % (hx(self.sub(st)), len(ids), " ".join(ids))]
        if k == "NACK":
            ids = self.ackids()
            return ["MOD %s 0 %d %s" % (hx(self.sub(st)), len(ids), " ".join(ids))]
        if k == "MOD":
            ids = self.ackids()
            return ["MOD %s %d %d %s" % (hx(self.sub(st)), self.pick(MOD_SECS), len(ids), " ".join(ids))]
        if k == "ADV":
            return ["ADV %d" % (self.pick(self.adv) * MS)]
        if k == "STATS":
            return ["STATS " + hx(self.sub(st))]
        if k == "REG":
            return ["REG"]
        if k == "SO":
            # at most one open stream per subscription (several consumers race)
            free = sorted(s for s in st["subs"] if s not in st["streams"].values())
            if not free or not self.allow_streams:
                return []
            s = self.pick(free)
            sid = st["next_sid"]
            st["next_sid"] += 1
            st["streams"][sid] = s
            mm = self.pick([0, 1, 2, 3, 10, 1000]) if r.random() > self.odd else self.pick([-1, 65535, 65536, 70000])
            return ["SO %d %s %d %d 10" % (sid, hx(s), mm, self.pick([0, 0, 100])), "SR %d" % sid]
        if k in ("SS", "SR", "SC"):
            if not st["streams"]:
                return []
            sid = self.pick(sorted(st["streams"]))
            if k == "SR":
                return ["SR %d" % sid]
            if k == "SC":
                return ["SC %d" % sid]
            acks = self.ackids(self.pick([0, 1, 1, 2]))
            mods = self.ackids(self.pick([0, 0, 1, 2]))
            nsecs = len(mods) if r.random() > self.malformed else len(mods) + 1
            secs = [str(self.pick(MOD_SECS)) for _ in range(nsecs)]
            x = r.random()
            sub, mm, mb = "-", 0, 0
            if x < self.malformed:
                sub = hx(st["streams"][sid])
            elif x < 2 * self.malformed:
                mm = 5
            elif x < 3 * self.malformed:
                mb = 5
            line = "SS %d %s %d %d %d %s %d %s %d %s" % (sid, sub, mm, mb, len(acks), " ".join(acks),
                                                         len(mods), " ".join(mods), len(secs), " ".join(secs))
            return [" ".join(line.split()), "SR %d" % sid]
        raise ValueError(k)


W_DATA = {"PUB": 8, "PULL": 8, "ACK": 5, "NACK": 3, "MOD": 4, "ADV": 6, "STATS": 3}
W_CONTROL = {"CT": 4, "GT": 2, "DT": 3, "CS": 5, "GS": 3, "DS": 3, "LT": 2, "LS": 2, "LTS": 3, "REG": 1}
W_STREAM = {"SO": 3, "SS": 5, "SR": 4, "SC": 1}


def merge(*ws):
    out = {}
    for w in ws:
        for k, v in w.items():
            out[k] = out.get(k, 0) + v
    return out


def random_cases(seed, n, weights, prefix, **kw):
    rng = random.Random(seed)
    g = SeqGen(rng, weights, **kw)
    return [("%s%d" % (prefix, i), g.case()) for i in range(n)]


# ---------------------------------------------------------------- exhaustive data-plane sequences

def enum_sequences(depth, alphabet):
    """All sequences over [alphabet] (list of op-line lists) of exactly [depth] symbols."""
    if depth == 0:
        yield []
        return
    for rest in enum_sequences(depth - 1, alphabet):
        for a in alphabet:
            yield rest + [a]


def data_plane_enum(depth, with_stats=True):
    """One topic, one subscription; every sequence of the 9-symbol alphabet of
    C02's quantifier up to [depth], with STATS after every step."""
    T, Sn = hx(tname("p", "t")), hx(sname("p", "s"))
    alpha = {
        "pub": ["PUB %s 1 6d 0" % T],
        "pub2": ["PUB %s 2 61 0 62 0" % T],
        "pull1": ["PULL %s 1 1" % Sn],
        "pullN": ["PULL %s 10 1" % Sn],
        "ackL": ["ACK %s 1 @0" % Sn],
        "ackF": ["ACK %s 1 ^0" % Sn],
        "ackU": ["ACK %s 1 %s" % (Sn, hx("77"))],
        "nack": ["MOD %s 0 1 @0" % Sn],
        "mod": ["MOD %s 5 1 @0" % Sn],
        "adv5": ["ADV %d" % (5100 * MS)],
        "adv10": ["ADV %d" % (10100 * MS)],
    }
    keys = list(alpha)
    cases = []
    for d in range(1, depth + 1):
        for seq in enum_sequences(d, keys):
            ops = ["CT " + T, "CS %s %s 10 ~" % (Sn, T)]
            for k in seq:
                ops += alpha[k]
                if with_stats:
                    ops.append("STATS " + Sn)
            ops.append("ADV %d" % (700 * S))
            ops.append("PULL %s 1000 1" % Sn)
            cases.append(("enum-" + "-".join(seq), ops))
    return cases
