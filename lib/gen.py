"""Case generators for the correspondence engines.

Every random choice derives from one `random.Random(seed)`; cases are plain op
lines (docs/FORMAT.md), so any disagreement replays exactly."""
import random
from common import hx

MS = 1000000
S = 1000000000

PROJECTS = ["p", "q2"]
TOPIC_IDS = ["t", "u1", "topic-3"]
SUB_IDS = ["s", "s2", "sub-3", "z4"]


def tname(p, t):
    return "projects/%s/topics/%s" % (p, t)


def sname(p, s):
    return "projects/%s/subscriptions/%s" % (p, s)


MALFORMED_NAMES = [
    "", "nope", "projects/", "projects/p", "projects/p/", "projects/p/topics", "projects/p/topics/",
    "projects//topics/t", "projects/p/topic/t", "projects/p/subscriptions/", "brojects/p/topics/t",
    "projects/p/subscriptions", "/projects/p/topics/t", "projects/p//topics/t", "projects/p/Topics/t",
    "projects/é/topics", "projects/p/topicsé/t", " projects/p/topics/t",
    # long and not ASCII: a multi-byte character across every likely cut-off of an error message
    "x" * 127 + "é" + "y" * 40, "x" * 126 + "é" + "y" * 40, "x" * 63 + "é" * 40, "x" * 255 + "✓" + "y" * 10,
    "projects/p/topics" + "é" * 70, "nope" + "✓" * 100,
]
ODD_VALID_IDS = ["a", "a/", "/a", "a/b", "é", "x y", "-", "t" * 40, "topics", "subscriptions/x", "back\\slash", "q'uote", "d\"q",
                 "tab\tx", "\u0301x", "nl\nx"]

# the last one exercises every base64 digit class incl. the two (62, 63) in which the alphabets differ
DATA_POOL = [b"", b"a", b"hello", b"\x00\xff\x10", b"x" * 40, "hé".encode(), b"{\"k\":1}",
             b"\x00\xfb\xef\xbe\xff\xfe\xfd>?\x7f\x80"]
ATTR_KEYS = ["k", "k2", "é", "a b", ""]
ATTR_VALS = ["v", "", "wü", "1"]

ADV_MS = [1, 7, 50, 99, 100, 101, 500, 1000, 4000, 9899, 9900, 9999, 10000, 10001, 10099, 10100, 10101,
          10200, 11000, 12000, 15000, 20100, 30000, 599900, 600000, 600100]
PULL_MAX = [1, 1, 2, 3, 10, 10, 100, 1000]
PULL_MAX_ODD = [0, -1, 65535, 65536, 65537, 131072, 2147483647, -2147483648, 1001, 999]
ACKDL = [0, 0, 10, 11, 12, 15, 20, -5, 600, 700, 1, 5, 9]
MOD_SECS = [0, 0, 1, 5, 9, 10, 11, 30, 599, 600, 601, 100000, 65535, 65536, 65537, 65566, 131072, 131100, 16777216,
            -1, -2147483648, 2147483647]
BAD_ACK_IDS = ["", "x", "-1", "1.5", "18446744073709551616", "99999999999999999999999", "١", " 1", "1 ", "0x1",
               "9" * 127 + "é" + "1" * 20]
ODD_OK_ACK_IDS = ["+1", "001", "+0002", "0", "18446744073709551615"]
PAGE_SIZES = [0, 0, 1, 2, 3, 5, 19, 20, 21, 1000, 1001, 2147483647, -1, -2147483648]
BAD_TOKENS = ["x", "AAAA", "AAAAAAAAAAAA", "AAAAAAAAAAA", "AAAAAAAAAAA=x", "AQAAAAAAAAA", "AQAAAAAAAAB=",
              "AQAAAAAAAAA=AAAA", "====", "AQAAAAAAAA==", "*QAAAAAAAAA=", "AQAAAAAAAAAé"]


def token_of(n):
    import base64
    return base64.b64encode(int(n).to_bytes(8, "little")).decode()


class SeqGen:
    """Random, mostly-valid operation scripts over a small name pool."""

    def __init__(self, rng, weights, n_ops=(8, 40), allow_streams=False, odd=0.08, malformed=0.04,
                 projects=None, adv=None, multi=False):
        self.multi = multi
        self.r = rng
        self.w = dict(weights)
        self.n_ops = n_ops
        self.allow_streams = allow_streams
        self.odd = odd
        self.malformed = malformed
        self.projects = projects or PROJECTS
        self.adv = adv or ADV_MS

    # -- helpers
    def pick(self, l):
        return l[self.r.randrange(len(l))]

    def topic(self, st):
        if st["topics"] and self.r.random() < 0.85:
            return self.pick(sorted(st["topics"]))
        if self.r.random() < self.malformed:
            return self.pick(MALFORMED_NAMES)
        return tname(self.pick(self.projects), self.pick(TOPIC_IDS))

    def sub(self, st):
        if st["subs"] and self.r.random() < 0.88:
            return self.pick(sorted(st["subs"]))
        if self.r.random() < self.malformed:
            return self.pick(MALFORMED_NAMES)
        return sname(self.pick(self.projects), self.pick(SUB_IDS))

    def ackids(self, k=None):
        n = k if k is not None else self.pick([1, 1, 1, 2, 3, 0])
        out = []
        for _ in range(n):
            x = self.r.random()
            if x < 0.70:
                out.append("@%d" % self.pick([0, 0, 0, 1, 1, 2, 3, 5]))
            elif x < 0.85:
                out.append("^%d" % self.pick([0, 0, 1, 2, 4]))
            elif x < 0.85 + self.malformed:
                out.append(hx(self.pick(BAD_ACK_IDS)))
            elif x < 0.93:
                out.append(hx(self.pick(ODD_OK_ACK_IDS)))
            else:
                out.append(hx(str(self.r.randrange(1, 40))))
        return out

    def msgs(self):
        k = self.pick([1, 1, 1, 2, 2, 3, 5, 0])
        parts = [str(k)]
        for _ in range(k):
            parts.append(hx(self.pick(DATA_POOL)))
            na = self.pick([0, 0, 0, 1, 2])
            keys = self.r.sample(ATTR_KEYS, na)
            parts.append(str(na))
            for key in keys:
                parts += [hx(key), hx(self.pick(ATTR_VALS))]
        return " ".join(parts)

    def page(self):
        size = self.pick(PAGE_SIZES)
        x = self.r.random()
        if x < 0.6:
            tok = "-"
        elif x < 0.85:
            tok = hx(token_of(self.pick([0, 1, 2, 3, 5, 20, 1000, 2 ** 32, 2 ** 64 - 1])))
        else:
            tok = hx(self.pick(BAD_TOKENS))
        return size, tok

    # -- one case
    def case(self):
        for _ in range(20):
            ops = self.case1()
            if not timer_clash(ops):
                return ops
        return [o for o in ops if not o.startswith("BG ")]

    def case1(self):
        r = self.r
        st = {"topics": set(), "subs": set(), "streams": {}, "next_sid": 1}
        ops = []
        # preamble: a couple of topics and subscriptions so that most ops hit something
        for _ in range(self.pick([1, 1, 2, 2, 3])):
            t = tname(self.pick(self.projects), self.pick(TOPIC_IDS))
            ops.append("CT " + hx(t))
            st["topics"].add(t)
        for _ in range(self.pick([1, 2, 2, 3])):
            t = self.pick(sorted(st["topics"]))
            proj = t.split("/")[1]
            s = sname(proj, self.pick(SUB_IDS))
            ops.append("CS %s %s %d ~" % (hx(s), hx(t), self.pick(ACKDL)))
            st["subs"].add(s)
        kinds = [k for k, w in self.w.items() for _ in range(w)]
        for _ in range(r.randrange(*self.n_ops)):
            k = self.pick(kinds)
            ops += self.op(k, st)
        return [" ".join(o.split()) for o in ops]

    def op(self, k, st):
        r = self.r
        if k == "CT":
            t = self.topic(st) if r.random() < 0.3 else tname(self.pick(self.projects), self.pick(TOPIC_IDS))
            if r.random() < self.odd:
                t = tname(self.pick(self.projects), self.pick(ODD_VALID_IDS))
            st["topics"].add(t)
            return ["CT " + hx(t)]
        if k == "GT":
            return ["GT " + hx(self.topic(st))]
        if k == "DT":
            t = self.topic(st)
            st["topics"].discard(t)
            return ["DT " + hx(t)]
        if k == "CS":
            t = self.topic(st)
            parts = t.split("/")
            proj = parts[1] if len(parts) > 1 and r.random() < 0.9 else self.pick(self.projects)
            s = sname(proj, self.pick(SUB_IDS))
            if r.random() < self.malformed:
                s = self.pick(MALFORMED_NAMES)
            x = r.random()
            ep = "~" if x < 0.8 else hx(self.pick(["http://127.0.0.1:1/push", " https://e.x/p ", "ftp://x", "", "httpx", "HTTP://x"]))
            st["subs"].add(s)
            return ["CS %s %s %d %s" % (hx(s), hx(t), self.pick(ACKDL), ep)]
        if k == "GS":
            return ["GS " + hx(self.sub(st))]
        if k == "DS":
            s = self.sub(st)
            st["subs"].discard(s)
            return ["DS " + hx(s)]
        if k == "LT":
            size, tok = self.page()
            p = "projects/" + self.pick(self.projects) if r.random() > self.malformed else self.pick(["", "p", "projects", "projects/", "projects/p/x"])
            return ["LT %s %d %s" % (hx(p), size, tok)]
        if k == "LS":
            size, tok = self.page()
            p = "projects/" + self.pick(self.projects) if r.random() > self.malformed else self.pick(["", "p", "projects", "projects/", "projects/p/x"])
            return ["LS %s %d %s" % (hx(p), size, tok)]
        if k == "LTS":
            size, tok = self.page()
            return ["LTS %s %d %s" % (hx(self.topic(st)), size, tok)]
        if k == "PUB":
            return ["PUB %s %s" % (hx(self.topic(st)), self.msgs())]
        if k == "PULL":
            m = self.pick(PULL_MAX) if r.random() > self.odd else self.pick(PULL_MAX_ODD)
            return ["PULL %s %d 1" % (hx(self.sub(st)), m)]
        if k == "ACK":
            ids = self.ackids()
            return ["ACK %s %d %s" % (hx(self.sub(st)), len(ids), " ".join(ids))]
        if k == "NACK":
            ids = self.ackids()
            return ["MOD %s 0 %d %s" % (hx(self.sub(st)), len(ids), " ".join(ids))]
        if k == "MOD":
            ids = self.ackids()
            return ["MOD %s %d %d %s" % (hx(self.sub(st)), self.pick(MOD_SECS), len(ids), " ".join(ids))]
        if k == "ADV":
            # never jump over the 300 s limit of a blocked Pull together with other timers: stop 1 ms before it,
            # then step onto it (tokio fires all timers of one advance at once, in an order the model does not fix)
            adv = self.pick(self.adv)
            now = st.get("now", 0)
            target = now + adv
            out = []
            for lim in sorted(set(st.get("limits", []))):
                if now < lim <= target:
                    if lim - 1 > now:
                        out.append("ADV %d" % ((lim - 1 - now) * MS))
                    out.append("ADV %d" % MS)
                    now = lim
            if target > now:
                out.append("ADV %d" % ((target - now) * MS))
            st["now"] = target
            st["limits"] = [l for l in st.get("limits", []) if l > target]
            return out
        if k == "STATS":
            return ["STATS " + hx(self.sub(st))]
        if k == "REG":
            return ["REG"]
        if k == "BGPULL":
            bid = st.setdefault("next_bg", 100)
            st["next_bg"] = bid + 1
            st.setdefault("bgs", []).append(bid)
            m = self.pick(PULL_MAX)
            st.setdefault("limits", []).append(st.get("now", 0) + 300000)
            return ["BG %d PULL %s %d 0" % (bid, hx(self.sub(st)), m), "Q", "JOIN %d" % bid]
        if k == "JOIN":
            if not st.get("bgs"):
                return []
            return ["JOIN %d" % self.pick(st["bgs"])]
        if k == "SO":
            # by default at most one open stream per subscription; with multi=True several consumers share one
            free = sorted(s for s in st["subs"] if self.multi or s not in st["streams"].values())
            if not free or not self.allow_streams:
                return []
            s = self.pick(free)
            sid = st["next_sid"]
            st["next_sid"] += 1
            st["streams"][sid] = s
            mm = self.pick([0, 1, 2, 3, 10, 1000]) if r.random() > self.odd else self.pick([-1, 65535, 65536, 70000])
            return ["SO %d %s %d %d 10" % (sid, hx(s), mm, self.pick([0, 0, 100])), "SR %d" % sid]
        if k in ("SS", "SR", "SC"):
            if not st["streams"]:
                return []
            sid = self.pick(sorted(st["streams"]))
            if k == "SR":
                return ["SR %d" % sid]
            if k == "SC":
                return ["SC %d" % sid]
            acks = self.ackids(self.pick([0, 1, 1, 2]))
            mods = self.ackids(self.pick([0, 0, 1, 2]))
            nsecs = len(mods) if r.random() > self.malformed else len(mods) + 1
            secs = [str(self.pick(MOD_SECS)) for _ in range(nsecs)]
            x = r.random()
            sub, mm, mb = "-", 0, 0
            if x < self.malformed:
                sub = hx(st["streams"][sid])
            elif x < 2 * self.malformed:
                mm = 5
            elif x < 3 * self.malformed:
                mb = 5
            line = "SS %d %s %d %d %d %s %d %s %d %s" % (sid, sub, mm, mb, len(acks), " ".join(acks),
                                                         len(mods), " ".join(mods), len(secs), " ".join(secs))
            return [" ".join(line.split()), "SR %d" % sid]
        raise ValueError(k)


def timer_clash(ops):
    """True when the 300 s limit of a blocked Pull could fall on the same 1 ms tick as some ack deadline of the
    case (conservatively: any op instant + any deadline length used in the case, rounded)."""
    now, instants, secs, limits = 0, {0}, {10}, []
    for o in ops:
        t = o.split(" ")
        if t[0] == "ADV":
            now += int(t[1]) // MS
            instants.add(now)
        elif t[0] == "CS":
            secs.add(max(10, int(t[3])))
        elif t[0] == "MOD":
            secs.add(min(max(int(t[2]), 0), 600))
        elif t[0] == "SS":
            for x in t[5:]:
                if x.lstrip("-").isdigit():
                    secs.add(min(max(int(x), 0), 600))
        elif t[0] == "BG":
            limits.append(now + 300000)
    if not limits:
        return False
    dls = set()
    for i in instants:
        for sc in secs:
            d = deadline_of(i, sc)
            dls.update((d - 1, d, d + 1))
    return any(l in dls for l in limits)


DRAIN_ADV = 800 * 1000 * 1000 * 1000 + 1      # the instant jump that opens a drain epilogue (value used nowhere else)


def with_drain(ops, pulls=2):
    """Appends a drain: every lease is left to run out (the longest ack deadline a case uses is 700 s), then every stream is read
    and every subscription named in the case is pulled until an empty answer, in batches of at most 1000."""
    subs, streams = [], []
    for o in ops:
        t = o.split(" ")
        if t[0] == "CS" and len(t) > 1 and t[1] not in subs:
            subs.append(t[1])
        if t[0] == "SO" and t[1] not in streams:
            streams.append(t[1])
    out = list(ops) + ["ADV %d" % DRAIN_ADV] + ["SR " + s for s in streams]
    for sn in subs:
        out += ["PULL %s 1000 1" % sn] * pulls
    return out


def expiry_load_cases(sizes=(255, 256, 257, 511, 512, 513, 1000, 2000), reps=(1, 4), prefix="xl"):
    """Many leases running out at one instant while requests reach the subscription at that very moment (SEQ: the
    clock jump and the requests without letting the runtime settle in between), then a drain."""
    T, Sn = hx(tname("p", "t")), hx(sname("p", "s"))
    cases = []
    for n in sizes:
        for r in reps:
            for dt in (10100, 10000):
                ops = ["CT " + T, "CS %s %s 10 ~" % (Sn, T)]
                left = n
                while left > 0:
                    k = min(left, 1000)
                    ops += ["PUBN %s %d 78" % (T, k), "PULL %s %d 1" % (Sn, k)]
                    left -= k
                ops += ["STATS " + Sn,
                        "SEQ ADV %d ;; %s" % (dt * MS, " ;; ".join(["STATS " + Sn] * r)),
                        "STATS " + Sn, "ADV %d" % (200 * MS), "STATS " + Sn]
                ops = with_drain(ops, pulls=n // 1000 + 2)
                cases.append(("%s-n%d-r%d-d%d" % (prefix, n, r, dt), ops))
    return cases


W_DATA = {"PUB": 8, "PULL": 8, "ACK": 5, "NACK": 3, "MOD": 4, "ADV": 6, "STATS": 3}
W_CONTROL = {"CT": 4, "GT": 2, "DT": 3, "CS": 5, "GS": 3, "DS": 3, "LT": 2, "LS": 2, "LTS": 3, "REG": 1}
W_STREAM = {"SO": 3, "SS": 5, "SR": 4, "SC": 1}
W_WAIT = {"BGPULL": 5, "JOIN": 6, "SO": 3, "SR": 6, "SS": 2}


def merge(*ws):
    out = {}
    for w in ws:
        for k, v in w.items():
            out[k] = out.get(k, 0) + v
    return out


def random_cases(seed, n, weights, prefix, **kw):
    rng = random.Random(seed)
    g = SeqGen(rng, weights, **kw)
    return [("%s%d" % (prefix, i), g.case()) for i in range(n)]


# ---------------------------------------------------------------- exhaustive data-plane sequences

def enum_sequences(depth, alphabet):
    """All sequences over [alphabet] (list of op-line lists) of exactly [depth] symbols."""
    if depth == 0:
        yield []
        return
    for rest in enum_sequences(depth - 1, alphabet):
        for a in alphabet:
            yield rest + [a]


def data_plane_enum(depth, with_stats=True):
    """One topic, one subscription; every sequence of the 9-symbol alphabet of
    C02's quantifier up to [depth], with STATS after every step."""
    T, Sn = hx(tname("p", "t")), hx(sname("p", "s"))
    alpha = {
        "pub": ["PUB %s 1 6d 0" % T],
        "pub2": ["PUB %s 2 61 0 62 0" % T],
        "pull1": ["PULL %s 1 1" % Sn],
        "pullN": ["PULL %s 10 1" % Sn],
        "ackL": ["ACK %s 1 @0" % Sn],
        "ackF": ["ACK %s 1 ^0" % Sn],
        "ackU": ["ACK %s 1 %s" % (Sn, hx("77"))],
        "nack": ["MOD %s 0 1 @0" % Sn],
        "mod": ["MOD %s 5 1 @0" % Sn],
        "adv5": ["ADV %d" % (5100 * MS)],
        "adv10": ["ADV %d" % (10100 * MS)],
    }
    keys = list(alpha)
    cases = []
    for d in range(1, depth + 1):
        for seq in enum_sequences(d, keys):
            ops = ["CT " + T, "CS %s %s 10 ~" % (Sn, T)]
            for k in seq:
                ops += alpha[k]
                if with_stats:
                    ops.append("STATS " + Sn)
            ops.append("ADV %d" % (700 * S))
            ops.append("PULL %s 1000 1" % Sn)
            cases.append(("enum-" + "-".join(seq), ops))
    return cases


# ---------------------------------------------------------------- deadline probes (C04 / C05)

def deadline_of(t0_ms, secs):
    """round_deadline on the ms grid, in ms: t + (t mod 100 ms)."""
    t = t0_ms + secs * 1000
    return t + (t % 100)


def deadline_probe_cases(phases, ackdls=(0, 10, 11, 15), mods=(None,), prefix="dl", gaps=(40,), pub_probe=False):
    """For each hand-out phase: deliver, then probe 1 ms before, at, and 1 ms after the deadline.
    With mods: after delivery at t0, at t0+3s a MOD n is issued and the probes bracket the new deadline
    (and the old one, to see that it is gone)."""
    T = hx(tname("p", "t"))
    cases = []
    for p in phases:
      for gap in gaps:
        for dl in ackdls:
            for mod in mods:
                Sn = hx(sname("p", "s"))
                eff = max(10, dl)
                ops = ["CT " + T, "CS %s %s %d ~" % (Sn, T, dl)]
                if p:
                    ops.append("ADV %d" % (p * MS))
                ops += ["PUB %s 2 61 0 62 0" % T, "PULL %s 1 1" % Sn]          # lease A at t0 = p
                now = p
                d_a = deadline_of(p, eff)
                # a second lease a little later with its own deadline
                ops += ["ADV %d" % (gap * MS), "PULL %s 1 1" % Sn]
                now += gap
                d_b = deadline_of(now, eff)
                events = sorted({d_a, d_b})
                if mod is not None:
                    ops.append("ADV %d" % (3000 * MS))
                    now += 3000
                    ops.append("MOD %s %d 1 ^0" % (Sn, mod))                    # modify lease A
                    if mod == 0:
                        events = [d_b]
                        ops.append("PULL %s 5 1" % Sn)                          # nacked: back at once
                    elif mod > 0:
                        d_m = deadline_of(now, min(mod, 600))
                        events = sorted({d_m, d_b, d_a})
                for d in events:
                    if d - 1 > now:
                        ops.append("ADV %d" % ((d - 1 - now) * MS))
                        now = d - 1
                        ops += ["STATS " + Sn, "PULL %s 5 1" % Sn]
                    if d > now:
                        ops.append("ADV %d" % ((d - now) * MS))
                        now = d
                        ops += ["STATS " + Sn, "PULL %s 5 1" % Sn]
                    ops.append("ADV %d" % MS)
                    now += 1
                    ops += ["STATS " + Sn, "PULL %s 5 1" % Sn]
                # acknowledgements of the two first deliveries, well after their leases have run out: inert
                ops += ["ADV %d" % (300 * MS), "ACK %s 2 ^0 ^1" % Sn, "STATS " + Sn]
                if pub_probe:
                    # a Publish (and a GetSubscription) reach the subscription just before each probe
                    out = []
                    for o in ops:
                        if o.startswith("STATS ") and out and out[-1].startswith("ADV "):
                            out += ["PUB %s 1 70 0" % T, "GS " + Sn]
                        out.append(o)
                    ops = out
                cases.append(("%s-p%d-g%d-a%d-m%s%s" % (prefix, p, gap, dl, mod, "-pub" if pub_probe else ""), ops))
    return cases


# ---------------------------------------------------------------- pagination walks (C13)

def paging_walk_cases(counts, sizes, seed=0, prefix="pg"):
    rng = random.Random(seed)
    cases = []
    for n in counts:
        for size in sizes:
            ops = []
            names = []
            # two projects interleaved, some deletions before the walk
            for i in range(n):
                t = tname("p", "t%03d" % i)
                ops.append("CT " + hx(t))
                names.append(t)
                if i % 7 == 3:
                    ops.append("CT " + hx(tname("other", "x%d" % i)))
            dels = [x for i, x in enumerate(names) if rng.random() < 0.15]
            for d in dels:
                ops.append("DT " + hx(d))
            live = [x for x in names if x not in dels]
            # subscriptions on the first live topic, some in another project's namespace
            subs = []
            if live:
                ops.append("CT " + hx(tname("other", "home")))
                for i in range(min(n, 33)):
                    if i % 3 == 0:
                        ops.append("CS %s %s 10 ~" % (hx(sname("other", "o%03d" % i)), hx(tname("other", "home"))))
                    s = sname("p", "s%03d" % i)
                    ops.append("CS %s %s 10 ~" % (hx(s), hx(live[0])))
                    subs.append(s)
                for s in subs[::5]:
                    ops.append("DS " + hx(s))
            eff = 20 if size == 0 else min(size, 1000) if size > 0 else 0
            steps = (n // max(eff, 1)) + 3 if size >= 0 else 1
            for kind, arg in (("LT", hx("projects/p")), ("LS", hx("projects/p")),
                              ("LTS", hx(live[0]) if live else hx(tname("p", "none")))):
                tok = "-"
                for k in range(min(steps, 60)):
                    ops.append("%s %s %d %s" % (kind, arg, size, tok))
                    tok = hx(token_of((k + 1) * eff))
                ops.append("%s %s %d %s" % (kind, arg, size, hx(token_of(n + 5))))
                for big in (2 ** 64 - 1, 2 ** 64 - 20, 2 ** 64 - 1001, 2 ** 63, 2 ** 32, 2 ** 31 - 1):
                    ops.append("%s %s %d %s" % (kind, arg, size, hx(token_of(big))))
                ops.append("%s %s %d %s" % (kind, arg, size, hx(rng.choice(BAD_TOKENS))))
            cases.append(("%s-n%d-s%d" % (prefix, n, size), ops))
    return cases


# ---------------------------------------------------------------- batch limits (C15)

def capacity_cases(backlogs, maxes, prefix="cap", drain=False):
    T, Sn = hx(tname("p", "t")), hx(sname("p", "s"))
    cases = []
    for b in backlogs:
        for m in maxes:
            ops = ["CT " + T, "CS %s %s 10 ~" % (Sn, T)]
            left = b
            while left > 0:
                k = min(left, 20000)
                ops.append("PUBN %s %d 78" % (T, k))
                left -= k
            ops += ["STATS " + Sn, "PULL %s %d 1" % (Sn, m), "STATS " + Sn, "PULL %s %d 1" % (Sn, m), "STATS " + Sn]
            if drain:
                ops = with_drain(ops, pulls=b // 1000 + 2)
            cases.append(("%s-b%d-m%d" % (prefix, b, m), ops))
    return cases


def stream_capacity_cases(backlogs, maxes, prefix="scap"):
    T, Sn = hx(tname("p", "t")), hx(sname("p", "s"))
    cases = []
    for b in backlogs:
        for m in maxes:
            ops = ["SEED 1", "CT " + T, "CS %s %s 10 ~" % (Sn, T)]
            if b:
                ops.append("PUBN %s %d 78" % (T, b))
            ops += ["SO 1 %s %d 0 10" % (Sn, m), "SR 1", "STATS " + Sn, "PUBN %s 3 79" % T, "SR 1", "STATS " + Sn]
            cases.append(("%s-b%d-m%d" % (prefix, b, m), ops))
    return cases


# ---------------------------------------------------------------- malformed requests (C17)

def _unissued_tokens():
    # well-formed tokens the server never handed out: just past the end, far past it, the largest offsets
    return [token_of(x) for x in (1, 2, 3, 1000, 2 ** 31, 2 ** 63, 2 ** 64 - 1001, 2 ** 64 - 1)]


def boundary_count_cases(prefix="bc"):
    """A blocking Pull / a StreamingPull whose message count is a boundary value (0, negative, multiples of 65536,
    i32 limits) on a subscription that HAS messages: it must be answered at once (with a batch or a status)."""
    T, Sn = hx(tname("p", "t")), hx(sname("p", "s"))
    cases = []
    for n in (0, 1, -1, 65535, 65536, -65536, 131072, 2147483647, -2147483648):
        for backlog in (3, 1):
            ops = ["SEED 7", "CT " + T, "CS %s %s 10 ~" % (Sn, T), "PUBN %s %d 78" % (T, backlog), "STATS " + Sn,
                   "BG 700 PULL %s %d 0" % (Sn, n), "Q", "JOIN 700", "STATS " + Sn, "Q", "JOIN 700", "STATS " + Sn,
                   "SO 9 %s %d 0 10" % (Sn, n), "SR 9", "STATS " + Sn,
                   "GT " + T, "GS " + Sn, "PUB %s 1 7a 0" % T, "PULL %s 10 1" % Sn, "STATS " + Sn, "SR 9", "JOIN 700"]
            cases.append(("%s-n%d-b%d" % (prefix, n, backlog), ops))
    return cases


def malformed_cases(seed, n, prefix="bad"):
    global UNISSUED_TOKENS
    UNISSUED_TOKENS = _unissued_tokens()
    rng = random.Random(seed)
    T, Sn = tname("p", "t"), sname("p", "s")
    odd_strings = ["", " ", "/", "projects/", "é", "١", "a" * 300, "projects/p/topics/" + "/" * 20,
                   "projects/p/topics/t\n", "projects/p/subscriptions/é/é"] + MALFORMED_NAMES
    ints = [-2147483648, -1, 0, 1, 65535, 65536, 2147483647]
    cases = []
    for i in range(n):
        ops = ["SEED %d" % i, "CT " + hx(T), "CS %s %s 10 ~" % (hx(Sn), hx(T)), "PUB %s 2 61 0 62 0" % hx(T),
               "PULL %s 1 1" % hx(Sn)]
        for _ in range(rng.randrange(3, 9)):
            k = rng.randrange(14)
            bad = rng.choice(odd_strings)
            if k == 0:
                ops.append("CT " + hx(bad))
            elif k == 1:
                ops.append("GT " + hx(bad))
            elif k == 2:
                ops.append("DT " + hx(bad))
            elif k == 3:
                nm = bad if rng.random() < 0.5 else sname("p", "n%d" % rng.randrange(3))
                ops.append("CS %s %s %d %s" % (hx(nm), hx(T if rng.random() < 0.5 else bad), rng.choice(ints),
                                               rng.choice(["~", hx("ftp://x"), hx(""), hx("nothttp"), hx("http://ok")])))
                # whatever was created must be usable (an out-of-range number must not poison it)
                ops += ["PULL %s 1 1" % hx(nm), "GS " + hx(nm)]
                if rng.random() < 0.4:
                    # a well-formed name in ANOTHER project than the topic's: rejected, and nothing is left behind
                    xp = sname("q2", "xp%d" % rng.randrange(3))
                    ops += ["CS %s %s 10 ~" % (hx(xp), hx(T)), "GS " + hx(xp), "LS %s 0 -" % hx("projects/q2"),
                            "STATS " + hx(xp)]
            elif k == 4:
                ops.append("GS " + hx(bad))
            elif k == 5:
                ops.append("DS " + hx(bad))
            elif k == 6:
                ops.append("%s %s %d %s" % (rng.choice(["LT", "LS"]), hx(rng.choice(["projects/p", bad])),
                                            rng.choice(ints), hx(rng.choice(BAD_TOKENS + [""] + UNISSUED_TOKENS))))
            elif k == 7:
                ops.append("LTS %s %d %s" % (hx(rng.choice([T, bad])), rng.choice(ints),
                                             hx(rng.choice(BAD_TOKENS + [""] + UNISSUED_TOKENS))))
            elif k == 8:
                ops.append("PUB %s 1 61 0" % hx(bad))
            elif k == 9:
                ops.append("PULL %s %d 1" % (hx(rng.choice([Sn, bad])), rng.choice(ints)))
            elif k == 10:
                ids = [hx(rng.choice(BAD_ACK_IDS)) if rng.random() < 0.6 else "@0" for _ in range(rng.randrange(1, 4))]
                rng.shuffle(ids)
                ops.append("ACK %s %d %s" % (hx(rng.choice([Sn, Sn, bad])), len(ids), " ".join(ids)))
            elif k == 11:
                ids = [hx(rng.choice(BAD_ACK_IDS)) if rng.random() < 0.5 else "@0" for _ in range(rng.randrange(1, 4))]
                rng.shuffle(ids)
                ops.append("MOD %s %d %d %s" % (hx(rng.choice([Sn, Sn, bad])), rng.choice(ints + [5, 600]), len(ids), " ".join(ids)))
            elif k == 12:
                sid = 400 + len(ops)        # never the id of a stream opened before in this case
                ops += ["SO %d %s %d %d 10" % (sid, hx(rng.choice([Sn, bad])), rng.choice(ints), rng.choice([0, -1, 5])), "SR %d" % sid]
            else:
                # a stream with one bad control message at a random position of the batch
                acks = ["@0"] + ([hx(rng.choice(BAD_ACK_IDS))] if rng.random() < 0.5 else [])
                mods = ["@0"] + ([hx(rng.choice(BAD_ACK_IDS))] if rng.random() < 0.4 else [])
                rng.shuffle(acks)
                rng.shuffle(mods)
                secs = [rng.choice([5, 0, -1, 600]) for _ in mods]
                if rng.random() < 0.2:
                    secs.append(1)
                sid = 20 + len(ops)
                ops += ["SO %d %s 10 0 10" % (sid, hx(Sn)), "SR %d" % sid, "STATS " + hx(Sn),
                        " ".join(("SS %d - 0 0 %d %s %d %s %d %s" % (sid, len(acks), " ".join(acks), len(mods), " ".join(mods),
                                                                      len(secs), " ".join(map(str, secs)))).split()),
                        "SR %d" % sid, "SC %d" % sid]
            ops.append("STATS " + hx(Sn))
        # health probe: everything else still works
        ops += ["GT " + hx(T), "GS " + hx(Sn), "PUB %s 1 7a 0" % hx(T), "PULL %s 10 1" % hx(Sn), "ACK %s 1 @0" % hx(Sn),
                "LT %s 0 -" % hx("projects/p"), "LS %s 0 -" % hx("projects/p"), "LTS %s 0 -" % hx(T), "STATS " + hx(Sn)]
        cases.append(("%s%d" % (prefix, i), [" ".join(o.split()) for o in ops]))
    return cases


# ---------------------------------------------------------------- payloads (C09)

def payload_cases(seed, n, prefix="pl"):
    rng = random.Random(seed)
    cases = []
    big = bytes(rng.randrange(256) for _ in range(5000))
    datas = [b"", b"\x00", b"\xff" * 3, big, "héllo wörld ✓".encode(), bytes(range(256))]
    keys = ["k", "", "é", "a b", "K", "k" * 50, "z/z"]
    for i in range(n):
        T, S1, S2 = tname("p", "t"), sname("p", "a"), sname("p", "b")
        ops = ["CT " + hx(T), "CS %s %s 10 ~" % (hx(S1), hx(T)), "CS %s %s 12 ~" % (hx(S2), hx(T))]
        for _ in range(rng.randrange(1, 4)):
            k = rng.randrange(1, 4)
            parts = [str(k)]
            for _ in range(k):
                parts.append(hx(rng.choice(datas)))
                na = rng.randrange(0, 4)
                ks = rng.sample(keys, na)
                parts.append(str(na))
                for key in ks:
                    parts += [hx(key), hx(rng.choice(["v", "", "ü", "x" * 40]))]
            ops.append("PUB %s %s" % (hx(T), " ".join(parts)))
        ops += ["PULL %s 2 1" % hx(S1), "PULL %s 100 1" % hx(S2), "MOD %s 0 1 @0" % hx(S2), "PULL %s 100 1" % hx(S2),
                "ADV %d" % (10200 * MS), "PULL %s 100 1" % hx(S1), "ADV %d" % (12200 * MS), "PULL %s 100 1" % hx(S2)]
        # delete and re-create the topic under the same name: ids must not repeat
        ops += ["DT " + hx(T), "CT " + hx(T), "CS %s %s 10 ~" % (hx(sname("p", "c")), hx(T)), "PUB %s 1 6e 0" % hx(T),
                "PULL %s 5 1" % hx(sname("p", "c")), "PULL %s 100 1" % hx(S1), "GS " + hx(S1)]
        cases.append(("%s%d" % (prefix, i), ops))
    return cases


# ---------------------------------------------------------------- waiting consumers (C06) and deletion (C12)

def wait_enum_cases(prefix="wq", endpoint="~"):
    """Every combination of up to three waiting consumers (stream max 1 / stream max 10 / blocked Pull max 1 /
    blocked Pull max 5) with every availability event (publish 1, publish 3, nack, expiry, empty publish),
    observed after each event."""
    T, Sn = hx(tname("p", "t")), hx(sname("p", "s"))
    kinds = {"s1": ("S", 1), "s10": ("S", 10), "p1": ("P", 1), "p5": ("P", 5), "s0": ("S", 0), "p0": ("P", 65536)}
    events = {
        "pub1": ["PUB %s 1 61 0" % T], "pub3": ["PUB %s 3 61 0 62 0 63 0" % T], "pub0": ["PUB %s 0" % T],
        "nack": ["MOD %s 0 1 @0" % Sn], "expire": ["ADV %d" % (10200 * MS)], "ack": ["ACK %s 1 @0" % Sn],
    }
    cases = []
    import itertools
    names = list(kinds)
    base = [k for k in names if k not in ("s0", "p0")]
    combos = [c for r in (1, 2, 3) for c in itertools.product(base, repeat=r)]
    # consumers whose batch limit is 0 (one message per pull): alone, and in front of / behind an ordinary one
    combos += [("s0",), ("p0",), ("s0", "p1"), ("p1", "s0"), ("s0", "s1"), ("p0", "p5"), ("s0", "p0"), ("s0", "p5", "s10")]
    evseqs = [("pub1", "nack", "pub3"), ("pub3", "expire", "pub1"), ("pub0", "pub1", "expire"),
              ("pub1", "pub0", "pub3", "nack"), ("pub3", "ack", "expire", "pub0", "pub1")]
    n = 0
    for combo in combos:
        for evs in evseqs:
            ops = ["SEED %d" % (n % 50), "CT " + T, "CS %s %s 10 %s" % (Sn, T, endpoint)]
            cons = []
            for i, k in enumerate(combo):
                kind, mx = kinds[k]
                if kind == "S":
                    ops += ["SO %d %s %d 0 10" % (i + 1, Sn, mx), "SR %d" % (i + 1)]
                    cons.append(("S", i + 1))
                else:
                    ops += ["BG %d PULL %s %d 0" % (100 + i, Sn, mx), "Q", "JOIN %d" % (100 + i)]
                    cons.append(("P", 100 + i))
            for e in evs:
                ops += events[e]
                ops.append("STATS " + Sn)
                for kind, cid in cons:
                    ops.append(("SR %d" if kind == "S" else "JOIN %d") % cid)
                ops.append("STATS " + Sn)
            cases.append(("%s-%s-%s" % (prefix, "_".join(combo), "_".join(evs)), ops))
            n += 1
    return cases


def mixed_modify_wake_cases(prefix="mx"):
    """Consumers wait on an empty backlog while a stream holds three deliveries; ONE control message on that stream
    nacks some of them and extends others (every split); the nacked ones must reach a waiting consumer at once."""
    import itertools
    T, Sn = hx(tname("p", "t")), hx(sname("p", "s"))
    cases = []
    for waiters in (("P",), ("S",), ("P", "S"), ("P", "P")):
        for ids in (("^0", "^1"), ("^1", "^0"), ("^0", "^1", "^2"), ("^2", "^0")):
            for secs in itertools.product([0, 30], repeat=len(ids)):
                if 0 not in secs:
                    continue
                ops = ["SEED 5", "CT " + T, "CS %s %s 10 ~" % (Sn, T), "PUB %s 3 61 0 62 0 63 0" % T,
                       "SO 1 %s 10 0 10" % Sn, "SR 1"]
                obs = []
                for i, w in enumerate(waiters):
                    if w == "P":
                        ops += ["BG %d PULL %s 5 0" % (100 + i, Sn), "Q", "JOIN %d" % (100 + i)]
                        obs.append("JOIN %d" % (100 + i))
                    else:
                        ops += ["SO %d %s 10 0 10" % (2 + i, Sn), "SR %d" % (2 + i)]
                        obs.append("SR %d" % (2 + i))
                ops += ["STATS " + Sn,
                        "SS 1 - 0 0 0 %d %s %d %s" % (len(ids), " ".join(ids), len(secs), " ".join(map(str, secs))),
                        "STATS " + Sn] + obs + ["SR 1", "STATS " + Sn, "ADV %d" % (10200 * MS), "STATS " + Sn] + obs + \
                       ["SR 1", "STATS " + Sn]
                cases.append(("%s-%s-%s-%s" % (prefix, "".join(waiters), "".join(i[1] for i in ids), "_".join(map(str, secs))), ops))
    return cases


def delete_release_cases(seeds, prefix="del"):
    """DeleteSubscription with open streams (request side open or closed), blocked Pulls and calls racing it."""
    T, Sn, S2 = hx(tname("p", "t")), hx(sname("p", "s")), hx(sname("p", "other"))
    cases = []
    for seed in seeds:
        for variant in range(6):
            ops = ["SEED %d" % seed, "CT " + T, "CS %s %s 10 ~" % (Sn, T), "CS %s %s 10 ~" % (S2, T),
                   "PUB %s 2 61 0 62 0" % T, "PULL %s 1 1" % Sn]
            a, b = (1, 2) if variant < 2 else (901, 902)
            ops += ["SO %d %s 10 0 10" % (a, Sn), "SR %d" % a, "SO %d %s 1 0 10" % (b, Sn), "SR %d" % b,
                    "SO 3 %s 5 0 10" % S2, "SR 3"]
            if variant % 2 == 1:
                ops.append("SC %d" % a)
            ops += ["BG 100 PULL %s 5 0" % Sn, "Q", "JOIN 100", "BG 101 PULL %s 5 0" % S2, "Q", "JOIN 101"]
            if variant >= 2:
                # calls racing the deletion: started without letting the runtime settle
                ops += ["BG 900 ACK %s 1 @0" % Sn, "BG 901 MOD %s 0 1 @1" % Sn]
            if variant >= 4:
                ops += ["BG 902 PULL %s 3 1" % Sn, "BG 903 GS %s" % Sn, "BG 904 PUB %s 1 63 0" % T]
            ops += ["DS " + Sn, "SR %d" % a, "SR %d" % b, "JOIN 100"]
            if variant >= 2:
                ops += ["JOIN 900", "JOIN 901"]
            if variant >= 4:
                ops += ["JOIN 902", "JOIN 903", "JOIN 904"]
            ops += ["SR 3", "JOIN 101", "GS " + Sn, "PULL %s 1 1" % Sn, "ACK %s 1 @0" % Sn, "LTS %s 0 -" % T,
                    "PUB %s 1 64 0" % T, "SR 3", "JOIN 101", "SR %d" % a, "ADV %d" % (301000 * MS), "JOIN 100", "SR %d" % b]
            cases.append(("%s-s%d-v%d" % (prefix, seed, variant), ops))
    return cases


# ---------------------------------------------------------------- abandoned requests (C16)

def abandon_cases(ks=(1, 2, 3, 4, 6), ys=(0, 1, 4), fills=(0, 16, 24), prefix="ab"):
    """A library-level request polled k times (y yields in between) and dropped, with the target actor's mailbox
    empty or saturated; then probes.  Returns (id, ops, index of the XC line, equivalent complete op)."""
    T, Sn, S2, S3 = tname("p", "t"), sname("p", "s"), sname("p", "new"), sname("p", "twin")
    out = []
    n = 0
    EP = hx("http://127.0.0.1:9/push")
    for kind in ("CS", "CSP", "DS", "DSW", "DST", "PUB", "PUBS", "PULL", "ACK", "ACKN", "DT"):
        for k in ks:
            for y in ys:
                for fill in fills:
                    ops = ["SEED %d" % (n % 40), "CT " + hx(T), "CS %s %s 10 ~" % (hx(Sn), hx(T)),
                           "CS %s %s 10 ~" % (hx(S3), hx(T)), "PUB %s 2 61 0 62 0" % hx(T), "PULL %s 1 1" % hx(Sn)]
                    if kind == "CS":
                        xc = "XC CS %d %d %d %s %s 10" % (k, y, fill, hx(S2), hx(T))
                        eq = "CS %s %s 10 ~" % (hx(S2), hx(T))
                    elif kind == "CSP":
                        # the same for a PUSH subscription: stored, attached and registered for push - all or nothing
                        xc = "XC CS %d %d %d %s %s 10 %s" % (k, y, fill, hx(S2), hx(T), EP)
                        eq = "CS %s %s 10 %s" % (hx(S2), hx(T), EP)
                    elif kind == "DS":
                        xc = "XC DS %d %d %d %s" % (k, y, fill, hx(Sn))
                        eq = "DS " + hx(Sn)
                    elif kind == "DSW":
                        # DeleteSubscription abandoned while a stream and a blocked Pull wait on the subscription
                        ops += ["SO 7 %s 10 0 10" % hx(Sn), "SR 7", "BG 800 PULL %s 1 0" % hx(Sn), "Q"]
                        xc = "XC DS %d %d %d %s" % (k, y, fill, hx(Sn))
                        eq = "DS " + hx(Sn)
                    elif kind == "DST":
                        # the same request with the TOPIC's mailbox saturated: the deletion waits for the topic
                        ops += ["SO 7 %s 10 0 10" % hx(Sn), "SR 7"]
                        xc = "XC DST %d %d %d %s %s" % (k, y, fill, hx(Sn), hx(T))
                        eq = "DS " + hx(Sn)
                    elif kind == "PUB":
                        xc = "XC PUB %d %d %d %s 7a" % (k, y, fill, hx(T))
                        eq = "PUB %s 1 7a 0" % hx(T)
                    elif kind == "PUBS":
                        # the same with the mailbox of one of the topic's two subscriptions saturated
                        xc = "XC PUBS %d %d %d %s 7a %s" % (k, y, fill, hx(T), hx(Sn if n % 2 else S3))
                        eq = "PUB %s 1 7a 0" % hx(T)
                    elif kind == "PULL":
                        xc = "XC PULL %d %d %d %s 5" % (k, y, fill, hx(Sn))
                        eq = "PULL %s 5 1" % hx(Sn)
                    elif kind == "ACK":
                        xc = "XC ACK %d %d %d %s %s" % (k, y, fill, hx(Sn), hx("1"))
                        eq = "ACK %s 1 %s" % (hx(Sn), hx("1"))
                    elif kind == "ACKN":
                        # one Acknowledge naming 300 deliveries: all of them go, or none
                        ops += ["PUBN %s 300 78" % hx(T), "PULL %s 1000 1" % hx(Sn), "STATS " + hx(Sn)]
                        xc = "XC ACKN %d %d %d %s 2 300" % (k, y, fill, hx(Sn))
                        eq = "ACK %s 300 %s" % (hx(Sn), " ".join(hx(str(v)) for v in range(2, 302)))
                    else:
                        xc = "XC DT %d %d %d %s" % (k, y, fill, hx(T))
                        eq = "DT " + hx(T)
                    idx = len(ops)
                    ops.append(xc)
                    if kind in ("DSW", "DST"):
                        ops += ["Q", "SR 7"] + (["JOIN 800"] if kind == "DSW" else [])
                    ops += ["Q", "GS " + hx(S2), "REG", "GS " + hx(Sn), "GT " + hx(T), "LTS %s 0 -" % hx(T), "LS %s 0 -" % hx("projects/p"),
                            "STATS " + hx(Sn), "STATS " + hx(S3), "STATS " + hx(S2), "PUB %s 1 70 0" % hx(T), "STATS " + hx(Sn), "STATS " + hx(S2),
                            "PULL %s 10 1" % hx(S2), "ADV %d" % (10200 * MS), "STATS " + hx(Sn), "PULL %s 10 1" % hx(Sn),
                            "CT " + hx(T), "CS %s %s 10 ~" % (hx(S2), hx(T)), "DS " + hx(S2), "DS " + hx(Sn), "DT " + hx(T),
                            "LT %s 0 -" % hx("projects/p"), "LS %s 0 -" % hx("projects/p")]
                    out.append(("%s-%s-k%d-y%d-f%d" % (prefix, kind, k, y, fill), ops, idx, eq))
                    n += 1
    return out


# ---------------------------------------------------------------- concurrent publishers (C08)

def concurrent_publish_cases(seeds, prefix="cp"):
    """Several Publish calls to one topic started without letting the runtime settle, two subscriptions, consumers of
    different batch sizes afterwards (and one stream opened before)."""
    cases = []
    for seed in seeds:
        rng = random.Random(seed)
        T, S1, S2 = hx(tname("p", "t")), hx(sname("p", "a")), hx(sname("p", "b"))
        ops = ["SEED %d" % seed, "CT " + T, "CS %s %s 10 ~" % (S1, T), "CS %s %s 10 ~" % (S2, T),
               "SO 901 %s %d 0 10" % (S2, rng.choice([1, 2, 10])), "SR 901"]
        npub = rng.randrange(2, 7)
        big = seed % 5 == 4           # requests larger than any internal batch limit
        for i in range(npub):
            if big and i < 3:
                ops.append("BG %d PUBN %s %d %s" % (910 + i, T, rng.choice([1001, 1100, 1300]), hx("b%d" % i)))
            else:
                k = rng.randrange(1, 4)
                msgs = " ".join("%s 0" % hx("p%d-%d" % (i, j)) for j in range(k))
                ops.append("BG %d PUB %s %d %s" % (910 + i, T, k, msgs))
            if rng.random() < 0.3:
                ops.append("YIELD %d" % rng.randrange(1, 6))
        ops += ["Q"] + ["JOIN %d" % (910 + i) for i in range(npub)]
        ops += ["SR 901", "PULL %s %d 1" % (S1, rng.choice([1, 2, 3])), "MOD %s 0 1 @0" % S1, "PULL %s 1000 1" % S1,
                "PULL %s 1000 1" % S1, "SR 901", "STATS " + S1, "STATS " + S2]
        cases.append(("%s%d" % (prefix, seed), ops))
    return cases


def burst_cases(seeds, prefix="bu"):
    """More concurrent requests than an actor's mailbox holds (16), combined with publish and delete (C07)."""
    T, Sn, S2 = hx(tname("p", "t")), hx(sname("p", "s")), hx(sname("p", "s2"))
    cases = []
    for seed in seeds:
        rng = random.Random(1000 + seed)
        ops = ["SEED %d" % seed, "CT " + T, "CS %s %s 10 ~" % (Sn, T), "CS %s %s 10 ~" % (S2, T), "PUB %s 1 61 0" % T]
        calls = []
        n = 900
        for _ in range(rng.choice([rng.randrange(17, 40), rng.randrange(40, 70)])):
            kind = rng.choice(["GS", "GS", "GS", "STATS", "PULL", "ACK", "ACK", "LTS", "GT"])
            if kind == "GS":
                calls.append("GS " + Sn)
            elif kind == "STATS":
                calls.append("GS " + S2)
            elif kind == "PULL":
                calls.append("PULL %s 1 1" % Sn)
            elif kind == "ACK":
                calls.append("ACK %s 1 %s" % (Sn, hx("1")))
            elif kind == "LTS":
                calls.append("LTS %s 0 -" % T)
            else:
                calls.append("GT " + T)
        special = ["DS " + Sn, "PUB %s 2 62 0 63 0" % T]
        if rng.random() < 0.5:
            special.append("PUB %s 1 64 0" % T)
        if rng.random() < 0.4:
            special.append("DS " + Sn)
        if rng.random() < 0.3:
            special.append("DT " + T)
        for sp in special:
            calls.insert(rng.randrange(0, len(calls) + 1), sp)
        ids = []
        for c in calls:
            ops.append("BG %d %s" % (n, c))
            ids.append(n)
            n += 1
            if rng.random() < 0.1:
                ops.append("YIELD %d" % rng.randrange(1, 4))
        ops.append("Q")
        ops += ["JOIN %d" % i for i in ids]
        ops += ["GS " + Sn, "GS " + S2, "GT " + T, "PUB %s 1 65 0" % T, "PULL %s 10 1" % S2, "LTS %s 0 -" % T]
        cases.append(("%s%d" % (prefix, seed), ops))
    return cases


# ---------------------------------------------------------------- push (C14)

PUSH_OUTCOMES = ["200", "201", "202", "204", "301", "400", "404", "500", "503", "reset", "203", "205", "206", "226", "299"]


def push_cases(seed, n, with_hang=False, prefix="ps"):
    """Push subscriptions against the scripted endpoint: per-attempt outcomes in all sequences up to length 3
    (first cases) and random longer ones; a pull subscription and a refused endpoint next to it; deletion."""
    rng = random.Random(seed)
    T = hx(tname("p", "t"))
    P0, P1, PL, PR = hx(sname("p", "push0")), hx(sname("p", "push1")), hx(sname("p", "plain")), hx(sname("p", "refused"))
    import itertools
    scripts = [list(s) for r in (1, 2, 3) for s in itertools.product(["200", "204", "500", "404", "reset"], repeat=r)]
    # every 2xx status that is NOT an acceptance, followed by an acceptance
    scripts += [[st, "200"] for st in ("203", "205", "206", "207", "208", "226", "250", "299")]
    rng.shuffle(scripts)
    cases = []
    for i in range(n):
        script = scripts[i] if i < len(scripts) else [rng.choice(PUSH_OUTCOMES) for _ in range(rng.randrange(1, 7))]
        if with_hang and i % 4 == 0:
            script = script[:1] + ["hang"] + script[1:2]
        ops = ["MODE push", "SEED %d" % i, "CT " + T,
               "CS %s %s 10 %s" % (P0, T, hx("http://ep/e0")), "CS %s %s 10 ~" % (PL, T)]
        if i % 3 == 0:
            ops.append("CS %s %s 10 %s" % (P1, T, hx("http://ep/e1")))
        if i % 5 == 0:
            ops.append("CS %s %s 10 %s" % (PR, T, hx("http://refused/")))
        ops += ["REG", "EP 0 %d %s" % (len(script), " ".join(script))]
        k = rng.randrange(1, 4)
        msgs = []
        for j in range(k):
            na = rng.choice([0, 0, 1, 2])
            keys = rng.sample(["k", "é", "a b"], na)
            msgs.append("%s %d %s" % (hx(rng.choice([b"", b"hello", b"\x00\xff", "wü".encode(),
                                                     b"\x00\xfb\xef\xbe\xff\xfe\xfd>?\x7f\x80", bytes(range(256))])), na,
                                      " ".join("%s %s" % (hx(x), hx(rng.choice(["v", "", "ü"]))) for x in keys)))
        ops.append(" ".join(("PUB %s %d %s" % (T, k, " ".join(msgs))).split()))
        rounds = rng.randrange(2, 5)
        for r in range(rounds):
            ops.append("ROUND")
            if r == 0 and rng.random() < 0.4:
                ops.append("PUB %s 1 %s 0" % (T, hx("later")))
        ops += ["STATS " + P0, "PULL %s 10 1" % PL]
        if i % 5 == 1:
            # a second CreateSubscription for the existing PULL subscription, naming a push endpoint: rejected, and the
            # subscription stays a pull subscription
            ops += ["CS %s %s 10 %s" % (PL, T, hx("http://ep/e1")), "REG", "PUB %s 1 %s 0" % (T, hx("for-plain")),
                    "ROUND", "ROUND", "STATS " + PL, "PULL %s 10 1" % PL]
        if i % 4 == 2:
            # the topic goes first, then the (orphaned) push subscription; both names come back, the subscription
            # without / with another endpoint: nothing may be POSTed for it to the old endpoint
            ops += ["DT " + T, "REG", "ROUND", "DS " + P0, "REG", "CT " + T,
                    "CS %s %s 10 %s" % (P0, T, "~" if i % 8 == 2 else hx("http://ep/e1")), "REG",
                    "EP 0 1 200", "EP 1 1 200", "PUB %s 1 %s 0" % (T, hx("second-life")), "ROUND", "ROUND", "STATS " + P0, "REG"]
        elif i % 2 == 0:
            ops += ["DS " + P0, "PUB %s 1 %s 0" % (T, hx("after-delete")), "ROUND", "REG"]
        else:
            ops += ["LOOP 40 2", "STATS " + P0]
        cases.append(("%s%d" % (prefix, i), ops))
    return cases


# ---------------------------------------------------------------- racing namespace operations (C10)

def racing_namespace_cases(seeds, prefix="rn"):
    """Clients that act on a response at once (SEQ op ;; get) racing each other on one name: two or three
    deletes of one subscription / topic, two or three creates of one name, with publishers keeping the topic busy."""
    cases = []
    for seed in seeds:
        rng = random.Random(4000 + seed)
        T, Sn, S2 = hx(tname("p", "t")), hx(sname("p", "victim")), hx(sname("p", "fresh"))
        T2 = hx(tname("p", "fresh-topic"))
        ops = ["SEED %d" % seed, "CT " + T, "CS %s %s 10 ~" % (Sn, T)]
        kind = seed % 4
        n = 900
        calls = []
        for _ in range(rng.randrange(0, 8)):
            calls.append("PUB %s 1 61 0" % T)
        k = rng.choice([2, 2, 3])
        if kind == 0:      # racing deletes of one subscription
            calls += ["SEQ DS %s ;; GS %s" % (Sn, Sn)] * k
        elif kind == 1:    # racing creates of one subscription
            calls += ["SEQ CS %s %s 10 ~ ;; GS %s" % (S2, T, S2)] * k
        elif kind == 2:    # racing creates of one topic
            calls += ["SEQ CT %s ;; GT %s" % (T2, T2)] * k
        else:              # racing deletes of one topic
            calls += ["SEQ DT %s ;; GT %s" % (T, T)] * k
        rng.shuffle(calls)
        ids = []
        for c in calls:
            ops.append("BG %d %s" % (n, c))
            ids.append(n)
            n += 1
            if rng.random() < 0.3:
                ops.append("YIELD %d" % rng.randrange(1, 8))
        ops.append("Q")
        ops += ["JOIN %d" % i for i in ids]
        ops += ["GS " + Sn, "GS " + S2, "GT " + T, "GT " + T2, "LS %s 0 -" % hx("projects/p"), "LT %s 0 -" % hx("projects/p")]
        cases.append(("%s%d" % (prefix, seed), ops))
    return cases


# ---------------------------------------------------------------- id lists mixing live / stale / unknown / duplicate (C02, C05)

def id_list_cases(prefix="il"):
    """Three leased messages, the first already acknowledged (stale id); then one Acknowledge / nack / modify /
    streaming ack whose id list is every sequence of length 1..3 over {stale, live-1, live-2, unknown, odd spelling
    of live-1}, followed by STATS, expiry and a drain."""
    import itertools
    T, Sn = hx(tname("p", "t")), hx(sname("p", "s"))
    syms = {"stale": "^0", "live1": "^1", "live2": "^2", "unknown": hx("77"), "odd1": hx("+2")}
    cases = []
    for r in (1, 2, 3):
        for combo in itertools.product(list(syms), repeat=r):
            ids = " ".join(syms[c] for c in combo)
            for kind in ("ack", "nack", "mod", "sack"):
                if kind != "ack" and r == 3 and combo[0] == combo[1] == combo[2]:
                    continue
                ops = ["SEED 1", "CT " + T, "CS %s %s 10 ~" % (Sn, T), "PUB %s 3 61 0 62 0 63 0" % T]
                if kind == "sack":
                    ops += ["SO 1 %s 10 0 10" % Sn, "SR 1", "SS 1 - 0 0 1 ^0 0 0", "STATS " + Sn,
                            "SS 1 - 0 0 %d %s 0 0" % (r, ids), "SR 1"]
                else:
                    ops += ["PULL %s 10 1" % Sn, "ACK %s 1 ^0" % Sn, "STATS " + Sn]
                    if kind == "ack":
                        ops.append("ACK %s %d %s" % (Sn, r, ids))
                    elif kind == "nack":
                        ops.append("MOD %s 0 %d %s" % (Sn, r, ids))
                    else:
                        ops.append("MOD %s 30 %d %s" % (Sn, r, ids))
                ops += ["STATS " + Sn, "PULL %s 10 1" % Sn, "ADV %d" % (10200 * MS), "STATS " + Sn, "PULL %s 10 1" % Sn,
                        "ADV %d" % (20000 * MS), "STATS " + Sn, "PULL %s 10 1" % Sn]
                if kind == "sack":
                    ops.append("SR 1")
                cases.append(("%s-%s-%s" % (prefix, kind, "_".join(combo)), ops))
    # one StreamingPull control message that acknowledges AND modifies: every pair (acked ids, modified ids with
    # seconds) over the two live leases - an id that is acknowledged in a message is gone whatever the same message
    # asks for its deadline (the acks of a message are applied before its modifications)
    for acks in (["^1"], ["^2"], ["^1", "^2"]):
        for mods in (["^1"], ["^2"], ["^1", "^2"], ["^2", "^1"]):
            for secs in itertools.product([0, 30], repeat=len(mods)):
                ops = ["SEED 2", "CT " + T, "CS %s %s 10 ~" % (Sn, T), "PUB %s 3 61 0 62 0 63 0" % T,
                       "SO 1 %s 10 0 10" % Sn, "SR 1", "SS 1 - 0 0 1 ^0 0 0", "STATS " + Sn,
                       "SS 1 - 0 0 %d %s %d %s %d %s" % (len(acks), " ".join(acks), len(mods), " ".join(mods), len(secs),
                                                        " ".join(map(str, secs))),
                       "SR 1", "STATS " + Sn, "PULL %s 10 1" % Sn, "ADV %d" % (10200 * MS), "SR 1", "STATS " + Sn,
                       "PULL %s 10 1" % Sn, "ADV %d" % (25000 * MS), "SR 1", "STATS " + Sn, "PULL %s 10 1" % Sn, "SR 1"]
                cases.append(("%s-sackmod-%s-%s-%s" % (prefix, "".join(a[1] for a in acks), "".join(m[1] for m in mods),
                                                      "_".join(map(str, secs))), ops))
    return cases


def subset_list_cases(prefix="sub", n=4):
    """n messages leased in one batch (or two batches 40 ms apart), all live; then ONE Acknowledge / nack / extension /
    streaming ack naming every ordered subset of 1..3 of them; then STATS, the first deadline, the extended one, and a
    drain: what the request named is gone (or back at once, or back later), what it did not name comes back at its
    own deadline."""
    import itertools
    T, Sn = hx(tname("p", "t")), hx(sname("p", "s"))
    pub = "PUB %s %d %s" % (T, n, " ".join("%02x 0" % (0x61 + i) for i in range(n)))
    cases = []
    for r in (1, 2, 3):
        for combo in itertools.permutations(range(n), r):
            ids = " ".join("^%d" % c for c in combo)
            for kind in ("ack", "nack", "mod", "sack"):
                for split in (False, True):
                    if split and (r == 1 or kind == "sack"):
                        continue
                    ops = ["SEED 3", "CT " + T, "CS %s %s 10 ~" % (Sn, T), pub]
                    if kind == "sack":
                        ops += ["SO 1 %s 10 0 10" % Sn, "SR 1", "SS 1 - 0 0 %d %s 0 0" % (r, ids), "SR 1"]
                    else:
                        if split:
                            ops += ["PULL %s 2 1" % Sn, "ADV %d" % (40 * MS), "PULL %s 10 1" % Sn]
                        else:
                            ops += ["PULL %s 10 1" % Sn]
                        ops.append({"ack": "ACK %s %d %s", "nack": "MOD %s 0 %d %s", "mod": "MOD %s 30 %d %s"}[kind]
                                   % ((Sn, r, ids)))
                    ops += ["STATS " + Sn, "PULL %s 10 1" % Sn, "ADV %d" % (10200 * MS), "STATS " + Sn, "PULL %s 10 1" % Sn,
                            "ADV %d" % (20000 * MS), "STATS " + Sn, "PULL %s 10 1" % Sn]
                    if kind == "sack":
                        ops.append("SR 1")
                    cases.append(("%s-%s-%s%s" % (prefix, kind, "".join(map(str, combo)), "-split" if split else ""), ops))
    return cases


def cancel_woken_cases(ks, prefix="cw"):
    """Two blocked Pulls A (older) and B; a Publish wakes A; A is cancelled k scheduler yields after the Publish was
    started (k sweeps the whole wake-up: before A runs, while its pull request is queued, after it was answered)."""
    T, Sn = hx(tname("p", "t")), hx(sname("p", "s"))
    cases = []
    for ngs in (0, 20):
        for k in ks:
            ops = ["SEED %d" % (k % 7), "CT " + T, "CS %s %s 10 ~" % (Sn, T),
                   "BG 900 PULL %s 1 0" % Sn, "Q", "BG 901 PULL %s 1 0" % Sn, "Q",
                   "BG 902 PUB %s 1 61 0" % T]
            ops += ["BG %d GS %s" % (910 + i, Sn) for i in range(ngs)]
            ops += ["YIELD %d" % k, "CANCEL 900", "Q", "STATS " + Sn, "JOIN 901", "STATS " + Sn,
                    "ADV %d" % (10200 * MS), "STATS " + Sn, "JOIN 901", "STATS " + Sn, "JOIN 900"]
            cases.append(("%s-g%d-k%d" % (prefix, ngs, k), ops))
    return cases


def woken_dropped_cases(fills=(0, 1, 15, 16, 17, 24), polls=(0, 1, 2, 3), prefix="wd"):
    """The unary Pull handler itself, polled by the harness (XH): A (older) and a blocked Pull B wait; a Publish wakes
    A; with `fill` requests put into the subscription's mailbox A is polled k times and dropped (XP) - at fill >= 16 A
    is then waiting for room in the mailbox with the notification consumed.  Variants: two messages, a stream as B,
    A's drop replaced by nothing (control)."""
    T, Sn = hx(tname("p", "t")), hx(sname("p", "s"))
    cases = []
    for variant in ("pull", "stream", "two"):
        for fill in fills:
            for k in polls:
                ops = ["SEED %d" % (fill + k), "CT " + T, "CS %s %s 10 ~" % (Sn, T), "XH 1 %s 1" % Sn]
                if variant == "stream":
                    ops += ["SO 5 %s 1 0 10" % Sn, "SR 5"]
                else:
                    ops += ["BG 901 PULL %s 1 0" % Sn, "Q"]
                ops += ["PUB %s %s" % (T, "1 61 0" if variant != "two" else "2 61 0 62 0"), "XP 1 %d %d" % (fill, k), "Q",
                        "STATS " + Sn]
                obs = "SR 5" if variant == "stream" else "JOIN 901"
                ops += [obs, "STATS " + Sn, "ADV %d" % (10200 * MS), "STATS " + Sn, obs, "STATS " + Sn]
                cases.append(("%s-%s-f%d-k%d" % (prefix, variant, fill, k), ops))
    return cases


def burst_shape_cases(seeds, prefix="bs"):
    """Structured bursts around a deletion (all calls started without letting the runtime settle): a Publish the topic
    takes up first, DeleteSubscription, g further calls, possibly a second DeleteSubscription, m further calls on the
    same subscription (more than its mailbox holds, up to three times as many), possibly a Publish at the end; a
    stream and a blocked Pull wait on the subscription beforehand and are observed afterwards."""
    T, Sn, S2 = hx(tname("p", "t")), hx(sname("p", "s")), hx(sname("p", "s2"))
    cases = []
    for seed in seeds:
        rng = random.Random(7000 + seed)
        ops = ["SEED %d" % seed, "CT " + T, "CS %s %s 10 ~" % (Sn, T), "CS %s %s 10 ~" % (S2, T), "PUB %s 1 61 0" % T]
        waiters = rng.random() < 0.6
        if waiters:
            ops += ["PULL %s 10 1" % Sn, "SO 1 %s 10 0 10" % Sn, "SR 1", "BG 800 PULL %s 1 0" % Sn, "Q"]
        filler = rng.choice(["GS", "ACK", "MIX"])

        def fill():
            k = filler if filler != "MIX" else rng.choice(["GS", "ACK", "MOD", "PULL"])
            return {"GS": "GS " + Sn, "ACK": "ACK %s 1 %s" % (Sn, hx("1")), "MOD": "MOD %s 0 1 %s" % (Sn, hx("1")),
                    "PULL": "PULL %s 1 1" % Sn}[k]
        calls = []
        if rng.random() < 0.6:
            calls.append("PUB %s 2 62 0 63 0" % T)
        calls.append("DS " + Sn)
        calls += [fill() for _ in range(rng.choice([0, 1, 5, 15, 16]))]
        if rng.random() < 0.5:
            calls.append("DS " + Sn)
        calls += [fill() for _ in range(rng.choice([16, 17, 24, 32, 40, 48]))]
        if rng.random() < 0.7:
            calls.append("PUB %s 1 64 0" % T)
        ids = []
        n = 900
        for c in calls:
            ops.append("BG %d %s" % (n, c))
            ids.append(n)
            n += 1
        ops.append("Q")
        ops += ["JOIN %d" % i for i in ids]
        if waiters:
            ops += ["SR 1", "JOIN 800"]
        ops += ["GS " + Sn, "GS " + S2, "GT " + T, "PUB %s 1 65 0" % T, "PULL %s 10 1" % S2, "LTS %s 0 -" % T]
        cases.append(("%s%d" % (prefix, seed), ops))
    return cases


# ---------------------------------------------------------------- ConcSub at poll granularity (docs/FORMAT-cs.md)

def cs_cases(seed, n, prefix="cs"):
    """Schedules for the held-handler engine: new consumer / one poll / drop / fill the mailbox / let the runtime
    run / publish k / let every lease run out / delete, on one subscription.  The generator only keeps the mailbox
    from being over-filled (the model has no senders waiting for room other than consumers): it tracks an upper
    bound of the occupancy and the consumers that may be waiting for room."""
    rng = random.Random(seed)
    T, Sn = hx(tname("p", "t")), hx(sname("p", "s"))
    cases = []
    for i in range(n):
        ops = ["SEED %d" % (i % 23), "CT " + T, "CS %s %s 10 ~" % (Sn, T)]
        occ, blocked, live, nid, advs, deleted = 0, set(), [], 0, 0, False
        heavy_fill = rng.random() < 0.5
        if rng.random() < 0.5:
            # start with 1-3 consumers asleep on the empty subscription
            k = rng.randrange(1, 4)
            for _ in range(k):
                nid += 1
                live.append(nid)
                ops.append("%s %d %s %d" % (rng.choice(["XN", "XN", "XS"]), nid, Sn, rng.choice([1, 1, 2, 5])))
            ops += ["XQ %d" % c for c in live] + ["XT"] + ["XQ %d" % c for c in live]
        for _ in range(rng.randrange(6, 40)):
            x = rng.random()
            if x < 0.07 and live and not blocked and not deleted:
                # a wake-up that meets a full mailbox: publish, fill the mailbox, poll one consumer (it consumes
                # the notification if it was the one woken and then waits for room), and often drop it there
                c = rng.choice(live)
                ops += ["PUBN %s 1 78" % T, "XF %s 16" % Sn, "XQ %d" % c]
                occ = 16
                blocked.add(c)
                if rng.random() < 0.7:
                    ops.append("XD %d" % c)
                    live.remove(c)
                    blocked.discard(c)
                continue
            if 0.07 <= x < 0.12 and len(live) >= 2 and not blocked and not deleted:
                # a wake-up whose pull is queued and whose consumer then goes away: publish, poll one consumer (the
                # woken one sends its pull), drop it before the runtime runs
                c = rng.choice(live)
                ops += ["XT", "PUBN %s 1 78" % T, "XQ %d" % c, "XD %d" % c]
                live.remove(c)
                occ = 1
                continue
            if x < 0.16 and len(live) < 5 and not deleted:
                nid += 1
                live.append(nid)
                ops.append("%s %d %s %d" % (rng.choice(["XN", "XN", "XS"]), nid, Sn, rng.choice([1, 1, 2, 5])))
            elif x < 0.46 and live:
                c = rng.choice(live)
                ops.append("XQ %d" % c)
                if occ >= 16:
                    blocked.add(c)
                else:
                    occ += 1
                    blocked.discard(c)
            elif x < 0.54 and live:
                c = rng.choice(live)
                live.remove(c)
                blocked.discard(c)
                ops.append("XD %d" % c)
            elif x < 0.66 and not blocked and occ < 16 and not deleted:
                k = (16 - occ) if heavy_fill and rng.random() < 0.7 else rng.randrange(1, 17 - occ)
                ops.append("XF %s %d" % (Sn, k))
                occ += k
            elif x < 0.76:
                ops.append("XT")
                occ = 0
            elif x < 0.88:
                ops.append("PUBN %s %d 78" % (T, rng.choice([1, 1, 2, 3])))
                occ = 0
            elif x < 0.93 and advs < 20:
                # the mailbox is emptied first: whether a queued pull or the expiry is handled first is the
                # actor's select! order, which the model leaves open
                ops += ["XT", "ADV %d" % (11000 * MS)]
                advs += 1
                occ = 0
            elif x < 0.95 and not deleted:
                ops.append("DS " + Sn)
                deleted = True
                occ = 0
            else:
                ops.append("STATS " + Sn)
                occ = 0
        # epilogue: 2n+3 rounds of (runtime runs; every consumer polled) for n consumers, so that a chain of
        # hand-offs can reach each of them (a stream needs two rounds per batch); then the state
        for _ in range(2 * len(live) + 3):
            ops += ["XT"] + ["XQ %d" % c for c in live]
        ops += ["STATS " + Sn]
        cases.append(("%s%d" % (prefix, i), ops))
    return cases


def big_walk_cases(n=1001, sizes=(1000, 1001, 5000, 2147483647), prefix="pgbig"):
    """More topics / subscriptions than the largest page (1000): no page may hold more, whatever size is asked."""
    cases = []
    T0 = tname("p", "t0000")
    for size in sizes:
        ops = ["CT " + hx(tname("p", "t%04d" % i)) for i in range(n)]
        ops += ["CS %s %s 10 ~" % (hx(sname("p", "s%04d" % i)), hx(T0)) for i in range(n)]
        for kind, arg in (("LT", hx("projects/p")), ("LS", hx("projects/p")), ("LTS", hx(T0))):
            tok = "-"
            eff = min(size, 1000)
            for k in range(3):
                ops.append("%s %s %d %s" % (kind, arg, size, tok))
                tok = hx(token_of((k + 1) * eff))
        cases.append(("%s-s%d" % (prefix, size), ops))
    return cases


def push_hang_cases(prefix="phq"):
    """Two or three messages in one push pass, one of them answered with an accepted status at once, another never
    answered (the pass is abandoned after 20 s, its lease has run out by then): in the following passes the accepted
    one must not be POSTed again, the unanswered one must."""
    T, P0 = hx(tname("p", "t")), hx(sname("p", "push0"))
    cases = []
    for i, script in enumerate((["200", "hang"], ["hang", "204"], ["200", "hang", "500"])):
        k = len(script)
        msgs = " ".join("%s 0" % hx("m%d" % j) for j in range(k))
        ops = ["MODE push", "SEED %d" % i, "CT " + T, "CS %s %s 10 %s" % (P0, T, hx("http://ep/e0")),
               "EP 0 %d %s" % (k, " ".join(script)), "PUB %s %d %s" % (T, k, msgs), "ROUND", "STATS " + P0, "ROUND",
               "STATS " + P0, "ROUND", "STATS " + P0]
        cases.append(("%s%d" % (prefix, i), ops))
    return cases


def modify_batch_cases(prefix="mb"):
    """Three leases handed out together; ONE StreamingPull control message modifies two or three of them with a
    different number of seconds each (shortening, extending, nacking, in every order); then the clock passes every
    deadline involved, with the stream read and the state printed at each."""
    import itertools
    T, Sn = hx(tname("p", "t")), hx(sname("p", "s"))
    cases = []
    n = 0
    for ids in list(itertools.permutations(["^0", "^1", "^2"], 2)) + list(itertools.permutations(["^0", "^1", "^2"], 3)):
        for secs in itertools.product([0, 5, 12, 30], repeat=len(ids)):
            if len(set(secs)) == 1:
                continue
            ops = ["SEED %d" % (n % 11), "CT " + T, "CS %s %s 10 ~" % (Sn, T), "PUB %s 3 61 0 62 0 63 0" % T,
                   "SO 1 %s 10 0 10" % Sn, "SR 1", "ADV %d" % ((1000 if (n // 2) % 2 else 8000) * MS),
                   "SS 1 - 0 0 0 %d %s %d %s" % (len(ids), " ".join(ids), len(secs), " ".join(map(str, secs))),
                   "SR 1", "STATS " + Sn]
            for adv in (5100, 5000, 3000, 8000, 10100, 12000):
                ops += ["ADV %d" % (adv * MS), "SR 1", "STATS " + Sn]
            cases.append(("%s%d" % (prefix, n), ops))
            n += 1
    return cases


def big_chain_cases(prefix="bc"):
    """Two blocked Pulls (limit 10) and one Publish that brings the backlog to 2^16 or just above: the first Pull
    leaves messages behind, so the second must be woken as well."""
    T, Sn = hx(tname("p", "t")), hx(sname("p", "s"))
    cases = []
    for n in (65535, 65536, 65537, 65546, 131072, 131077):
        ops = ["SEED 1", "CT " + T, "CS %s %s 10 ~" % (Sn, T), "BG 900 PULL %s 10 0" % Sn, "Q", "BG 901 PULL %s 10 0" % Sn, "Q"]
        left = n
        # one Publish call (the server takes any size)
        ops += ["PUBN %s %d 78" % (T, n), "Q", "STATS " + Sn, "JOIN 900", "JOIN 901", "STATS " + Sn]
        cases.append(("%s-%d" % (prefix, n), ops))
    return cases


def pull_limit_cases(prefix="pl300"):
    """A blocked Pull that is woken by availability events which bring nothing for it (an empty Publish) must still
    return when its 300 s limit has passed."""
    T, Sn = hx(tname("p", "t")), hx(sname("p", "s"))
    cases = []
    for gap in (100, 240, 299):
        ops = ["SEED %d" % gap, "CT " + T, "CS %s %s 10 ~" % (Sn, T), "BG 100 PULL %s 5 0" % Sn, "Q"]
        t = 0
        while t + gap < 300:
            ops += ["ADV %d" % (gap * S), "PUB %s 0" % T, "JOIN 100"]
            t += gap
        ops += ["ADV %d" % ((300 - t) * S - MS), "JOIN 100", "ADV %d" % (2 * MS), "JOIN 100", "PUB %s 0" % T,
                "ADV %d" % (gap * S), "JOIN 100", "STATS " + Sn]
        cases.append(("%s-%d" % (prefix, gap), ops))
    # nothing at all happens on the subscription (no event that could wake the Pull): the limit is a timer of its own
    for pre in (0, 100, 299):
        ops = ["SEED %d" % pre, "CT " + T, "CS %s %s 10 ~" % (Sn, T)]
        if pre == 299:      # ordinary use first
            ops += ["PUB %s 1 61 0" % T, "PULL %s 5 1" % Sn, "ACK %s 1 ^0" % Sn]
        ops += ["BG 100 PULL %s 5 0" % Sn, "Q"]
        if pre == 100:
            ops += ["ADV %d" % (100 * S), "PUB %s 0" % T, "JOIN 100", "ADV %d" % (202 * S)]
        else:
            ops += ["ADV %d" % (299 * S), "JOIN 100", "ADV %d" % (3 * S)]
        ops += ["JOIN 100", "STATS " + Sn]
        cases.append(("%s-quiet-%d" % (prefix, pre), ops))
    return cases


def requeue_order_cases(prefix="rq"):
    """Two or three Publish requests of 30-60 messages; a few are pulled and come back (nack or expiry) while most of
    the backlog has never been delivered; then everything is pulled: the first deliveries must still be in publish
    order (a requeue may move redeliveries, never the messages nobody has seen yet)."""
    T, Sn = hx(tname("p", "t")), hx(sname("p", "s"))
    cases = []
    n = 0
    for sizes in ((40, 40), (30, 30, 30), (60, 25), (100, 1)):
        for first in (1, 5, 25):
            for how in ("nack", "expire"):
                ops = ["SEED %d" % n, "CT " + T, "CS %s %s 10 ~" % (Sn, T)]
                ops += ["PUBN %s %d %s" % (T, k, hx("r%d" % i)) for i, k in enumerate(sizes)]
                ops += ["PULL %s %d 1" % (Sn, first)]
                if how == "nack":
                    ops.append("MOD %s 0 %d %s" % (Sn, first, " ".join("^%d" % j for j in range(first))))
                else:
                    ops.append("ADV %d" % (10200 * MS))
                ops += ["STATS " + Sn, "PULL %s 1000 1" % Sn, "STATS " + Sn, "ADV %d" % (10200 * MS), "PULL %s 7 1" % Sn,
                        "PULL %s 1000 1" % Sn]
                cases.append(("%s%d" % (prefix, n), ops))
                n += 1
    return cases


def create_delete_race_cases(ks=range(0, 14), prefix="cdr"):
    """CreateSubscription of a fresh name and DeleteSubscription of that name in flight together (the delete is
    started k scheduler turns after the create and tried three times in a row), next to a subscription that stays.
    Whichever way the server orders them, once both have returned the topic must list exactly the subscriptions that
    exist, and a Publish must go through."""
    T, Kept, Racy = hx(tname("p", "t")), hx(sname("p", "kept")), hx(sname("p", "racy"))
    cases = []
    for k in ks:
        for variant in range(2):
            ops = ["SEED %d" % (k + 20 * variant), "CT " + T, "CS %s %s 10 ~" % (Kept, T)]
            for r in range(3):
                ops += ["BG %d CS %s %s 10 ~" % (900 + 2 * r, Racy, T), "YIELD %d" % k,
                        "BG %d SEQ DS %s ;; DS %s ;; DS %s" % (901 + 2 * r, Racy, Racy, Racy), "Q",
                        "JOIN %d" % (900 + 2 * r), "JOIN %d" % (901 + 2 * r),
                        "GS " + Racy, "GS " + Kept, "LTS %s 0 -" % T, "PUB %s 1 61 0" % T, "PULL %s 10 1" % Kept]
                if variant:
                    ops += ["DS " + Racy]
            cases.append(("%s-k%d-v%d" % (prefix, k, variant), ops))
        # the other way round: the subscription exists, its deletion is in flight (behind a large Publish in the
        # topic's mailbox) and the name is created again meanwhile (tried three times in a row)
        ops = ["SEED %d" % (k + 40), "CT " + T, "CS %s %s 10 ~" % (Kept, T)]
        for r in range(2):
            ops += ["CS %s %s 10 ~" % (Racy, T)]
            ops += ["BG %d PUBN %s 600 78" % (950 + 10 * r + j, T) for j in range(8)]
            ops += ["BG %d DS %s" % (901 + 3 * r, Racy), "YIELD %d" % k,
                    "BG %d SEQ %s" % (902 + 3 * r, " ;; ".join(["CS %s %s 10 ~" % (Racy, T)] * 8)), "Q"]
            ops += ["JOIN %d" % (950 + 10 * r + j) for j in range(8)]
            ops += ["JOIN %d" % (901 + 3 * r), "JOIN %d" % (902 + 3 * r),
                    "GS " + Racy, "GS " + Kept, "LTS %s 0 -" % T, "PUB %s 1 61 0" % T, "PULL %s 6000 1" % Kept,
                    "PULL %s 6000 1" % Racy, "DS " + Racy, "GS " + Racy, "LTS %s 0 -" % T]
        cases.append(("%s-k%d-recreate" % (prefix, k), ops))
    # a second DeleteSubscription while the first one waits for the topic (XD2: the topic's mailbox pre-filled, delete #1
    # polled k times with y scheduler rounds after each poll, then delete #2 polled once): whenever #2 has answered OK the
    # subscription is gone from the manager
    for k2 in (1, 2, 3):
        for y in (0, 1, 2, 3, 5):
            for fill in (0, 16, 17, 40):
                ops = ["SEED %d" % (k2 + y), "CT " + T, "CS %s %s 10 ~" % (Kept, T), "CS %s %s 10 ~" % (Racy, T),
                       "PUB %s 1 61 0" % T, "XD2 %d %d %d %s %s" % (k2, y, fill, Racy, T), "Q",
                       "GS " + Racy, "GS " + Kept, "LTS %s 0 -" % T, "PUB %s 1 62 0" % T, "PULL %s 10 1" % Kept]
                cases.append(("%s-second-delete-k%d-y%d-f%d" % (prefix, k2, y, fill), ops))
    return cases


def control_enum_cases(depth, prefix="ce"):
    """One topic name, one subscription name: EVERY sequence (up to the given length) over create / delete of both,
    publish, pull, ack, expiry, get and list - on the bare server and after "create topic; create subscription" -
    followed by probes of every read operation and a drain.  Order-specific defects of the lifecycle (delete the
    topic before the subscription, re-create a name, publish with nothing attached, ...) all lie in here."""
    T, Sn = hx(tname("p", "t")), hx(sname("p", "s"))
    alpha = {
        "ct": "CT " + T, "dt": "DT " + T, "cs": "CS %s %s 10 ~" % (Sn, T), "ds": "DS " + Sn,
        "pub": "PUB %s 1 6d 0" % T, "pull": "PULL %s 10 1" % Sn, "ack": "ACK %s 1 @0" % Sn,
        "adv": "ADV %d" % (10200 * MS), "gs": "GS " + Sn, "lts": "LTS %s 0 -" % T,
    }
    keys = list(alpha)
    probes = ["GS " + Sn, "GT " + T, "LTS %s 0 -" % T, "LS %s 0 -" % hx("projects/p"), "LT %s 0 -" % hx("projects/p"),
              "PUB %s 1 7a 0" % T, "STATS " + Sn, "PULL %s 10 1" % Sn]
    cases = []
    for pre_name, pre in (("", []), ("ct_cs_", ["ct", "cs"])):
        for d in range(1, depth + 1):
            for seq in enum_sequences(d, keys):
                ops = ["SEED %d" % (len(cases) % 17)] + [alpha[k] for k in pre + list(seq)] + probes
                cases.append(("%s-%s%s" % (prefix, pre_name, "-".join(seq)), with_drain(ops)))
    return cases


def stream_enum_cases(depth, prefix="se"):
    """One subscription with an open StreamingPull: EVERY sequence (up to the given length) over publish, streaming ack
    of the last / first delivery, streaming nack, streaming extensions by 1 s and 30 s, a competing unary pull, expiry
    steps and closing the request side; the stream is read and the state printed after every step; a drain at the end."""
    T, Sn = hx(tname("p", "t")), hx(sname("p", "s"))
    alpha = {
        "pub": ["PUB %s 1 6d 0" % T], "pub2": ["PUB %s 2 61 0 62 0" % T],
        "sackL": ["SS 1 - 0 0 1 @0 0 0"], "sackF": ["SS 1 - 0 0 1 ^0 0 0"],
        "snack": ["SS 1 - 0 0 0 1 @0 1 0"], "smod30": ["SS 1 - 0 0 0 1 @0 1 30"], "smod1": ["SS 1 - 0 0 0 1 ^0 1 1"],
        "pull": ["PULL %s 10 1" % Sn], "adv5": ["ADV %d" % (5100 * MS)], "adv10": ["ADV %d" % (10100 * MS)],
        "close": ["SC 1"],
    }
    keys = list(alpha)
    cases = []
    for d in range(1, depth + 1):
        for seq in enum_sequences(d, keys):
            ops = ["SEED %d" % (len(cases) % 13), "CT " + T, "CS %s %s 10 ~" % (Sn, T), "SO 1 %s 10 0 10" % Sn, "SR 1"]
            for k in seq:
                ops += alpha[k] + ["SR 1", "STATS " + Sn]
            cases.append(("%s-%s" % (prefix, "-".join(seq)), with_drain(ops)))
    return cases


def big_ack_cases(prefix="bigack"):
    """More than 1000 deliveries acknowledged with ONE request (unary and streaming), after one big pull or several
    pulls; nothing may come back after the deadline."""
    T, Sn, S2 = hx(tname("p", "t")), hx(sname("p", "s")), hx(sname("p", "other"))
    cases = []
    for n, pulls in ((1001, 1), (1500, 1), (1200, 3), (999, 1), (1000, 1)):
        ops = ["SEED %d" % n, "CT " + T, "CS %s %s 10 ~" % (Sn, T), "CS %s %s 10 ~" % (S2, T), "PUBN %s %d 78" % (T, n)]
        per = (n + pulls - 1) // pulls
        ops += ["PULL %s %d 1" % (Sn, max(per, 1001) if pulls == 1 else per)] * pulls
        ops += ["ADV %d" % (1000 * MS), "ACK %s %d %s" % (Sn, n, " ".join("^%d" % k for k in range(n))),
                "STATS " + Sn, "STATS " + S2, "ADV %d" % (10200 * MS), "STATS " + Sn, "PULL %s 2000 1" % Sn,
                "ADV %d" % (10200 * MS), "PULL %s 2000 1" % Sn, "STATS " + S2]
        cases.append(("%s-%d-%d" % (prefix, n, pulls), ops))
    return cases


# ---------------------------------------------------------------- round 6

def stream_flood_cases(ns=(99, 100, 101, 130), prefix="sf"):
    """Many StreamingPull streams open at once on ONE connection (more than any transport-level stream limit one
    might be tempted to set), then the calls those streams are waiting for: everything is answered."""
    T, Sn, S2 = hx(tname("p", "t")), hx(sname("p", "s")), hx(sname("p", "other"))
    cases = []
    for n in ns:
        ops = ["SEED 9", "CT " + T, "CS %s %s 10 ~" % (Sn, T), "CS %s %s 10 ~" % (S2, T)]
        for i in range(n):
            ops.append("SO %d %s 10 0 10" % (i + 1, Sn if i % 2 == 0 else S2))
        ops += ["PUB %s 1 61 0" % T, "GS " + Sn, "STATS " + Sn, "PULL %s 5 1" % Sn, "SR 1", "SR 2",
                "DS " + Sn, "DS " + S2, "SR 1", "SR 2", "SR %d" % n, "GT " + T]
        cases.append(("%s-n%d" % (prefix, n), ops))
    return cases


def busy_list_cases(prefix="bl"):
    """Listing while another request is on its way to one of the listed resources (started just before, without
    letting the runtime settle): the listing is still in creation order, each resource once."""
    cases = []
    order = [3, 7, 1, 6, 2, 5, 4]
    T = hx(tname("p", "t"))
    for victim in range(len(order)):
      for yk in (0, 1, 2, 3, 4, 5, 6, 8, 11):
        for size in (0, 3):
            if size and yk % 2:
                continue
            ops = ["SEED %d" % victim, "CT " + T, "CT " + hx(tname("p", "t2")), "CT " + hx(tname("p", "t0"))]
            subs = [hx(sname("p", "s%d" % k)) for k in order]
            for sn in subs:
                ops.append("CS %s %s 10 ~" % (sn, T))
            ops.append("PUB %s 1 61 0" % T)
            n = 900
            for kind, arg in (("LS", hx("projects/p")), ("LTS", T), ("LT", hx("projects/p"))):
                tok = "-"
                for page in range(4 if size else 1):
                    ops.append("BG %d PULL %s 1 1" % (n, subs[victim]))
                    ops.append("BG %d GS %s" % (n + 1, subs[(victim + 3) % len(subs)]))
                    if yk:
                        ops.append("YIELD %d" % yk)       # how far the two requests have got when the List starts
                    ops.append("%s %s %d %s" % (kind, arg, size, tok))
                    ops += ["Q", "JOIN %d" % n, "JOIN %d" % (n + 1)]
                    n += 2
                    tok = hx(token_of((page + 1) * size)) if size else "-"
            cases.append(("%s-v%d-y%d-s%d" % (prefix, victim, yk, size), ops))
    return cases


def many_topics_cases(prefix="mt"):
    """24 topics, 12 single-message Publish calls each (so that topic-internal ids and per-topic counters both pass 10
    and 20): every id distinct, every delivery carries the id its Publish returned."""
    ops = ["SEED 4"]
    topics = [hx(tname("p", "t%02d" % i)) for i in range(24)]
    subs = [hx(sname("p", "s%02d" % i)) for i in range(24)]
    for t, sn in zip(topics, subs):
        ops += ["CT " + t, "CS %s %s 10 ~" % (sn, t)]
    for j in range(12):
        for i, t in enumerate(topics):
            ops.append("PUB %s 1 %s 0" % (t, hx("t%d-m%d" % (i, j))))
    for sn in subs:
        ops.append("PULL %s 100 1" % sn)
    return [(prefix, ops)]


def create_vs_delete_topic_cases(ks=range(0, 10), prefix="cvd"):
    """CreateSubscription racing the DeleteTopic of its topic (each client looks at its result at once): whatever the
    create answers, the name exists exactly if it answered OK."""
    cases = []
    for k in ks:
        T, S2 = hx(tname("p", "t")), hx(sname("p", "fresh"))
        ops = ["SEED %d" % k, "CT " + T, "CS %s %s 10 ~" % (hx(sname("p", "old")), T)]
        a, b = "BG 900 SEQ DT %s ;; GT %s" % (T, T), "BG 901 SEQ CS %s %s 10 ~ ;; GS %s" % (S2, T, S2)
        first, second = (a, b) if k % 2 == 0 else (b, a)
        ops += [first, "YIELD %d" % (k // 2), second, "Q", "JOIN 900", "JOIN 901", "GS " + S2, "LS %s 0 -" % hx("projects/p"),
                "CS %s %s 10 ~" % (S2, T), "GS " + S2]
        cases.append(("%s-k%d" % (prefix, k), ops))
    return cases


def abandoned_delete_during_create_cases(prefix="adc"):
    """A CreateSubscription polled once (stored, its attachment still on its way) and, WITHOUT letting anything run, a
    DeleteSubscription of it that has to wait for room in the subscription's saturated mailbox and is abandoned there:
    a deletion that was never received has no effect - the subscription exists, so it is attached."""
    T, S2, Sn = hx(tname("p", "t")), hx(sname("p", "new")), hx(sname("p", "s"))
    cases = []
    for fill in (16, 17, 24):
        for k in (1, 2):
            ops = ["SEED 6", "CT " + T, "CS %s %s 10 ~" % (Sn, T),
                   "SEQ XC CS 1 0 0 %s %s 10 ;; XC DS %d 0 %d %s" % (S2, T, k, fill, S2), "Q",
                   "GS " + S2, "LTS %s 0 -" % T, "STATS " + S2, "PUB %s 1 70 0" % T, "STATS " + S2, "PULL %s 10 1" % S2]
            cases.append(("%s-f%d-k%d" % (prefix, fill, k), ops))
    return cases


def registry_enum_cases(depth=4, prefix="rg"):
    """EVERY sequence (up to the given length) over create-as-push / create-as-pull / delete of one subscription name
    and create / delete of its topic, with the push registry, the subscription and the topic's list read after each
    step: the registry holds exactly the push subscriptions that exist."""
    import itertools
    T, Sn = hx(tname("p", "t")), hx(sname("p", "s"))
    EP1, EP2 = hx("http://127.0.0.1:9/one"), hx("http://127.0.0.1:9/two")
    alpha = {"push": "CS %s %s 10 %s" % (Sn, T, EP1), "push2": "CS %s %s 10 %s" % (Sn, T, EP2), "pull": "CS %s %s 10 ~" % (Sn, T),
             "ds": "DS " + Sn, "dt": "DT " + T, "ct": "CT " + T}
    cases = []
    for d in range(1, depth + 1):
        for seq in itertools.product(list(alpha), repeat=d):
            if seq[0] in ("ds", "ct"):
                continue
            ops = ["SEED 8", "CT " + T]
            for a in seq:
                ops += [alpha[a], "REG", "GS " + Sn]
            ops += ["LTS %s 0 -" % T, "LS %s 0 -" % hx("projects/p"), "REG"]
            cases.append(("%s-%s" % (prefix, "_".join(seq)), ops))
    return cases


def orphan_wait_cases(prefix="ow"):
    """A subscription whose topic has been deleted still holds a leased message; a blocking Pull on it must wait (for
    the nack, or for the lease to run out) like on any other subscription - not answer empty at once."""
    T, Sn = hx(tname("p", "t")), hx(sname("p", "s"))
    cases = []
    for how in ("nack", "expire", "limit"):
        for recreate in (False, True):
            ops = ["SEED 2", "CT " + T, "CS %s %s 10 ~" % (Sn, T), "PUB %s 1 61 0" % T, "PULL %s 5 1" % Sn, "DT " + T]
            if recreate:
                ops.append("CT " + T)
            ops += ["BG 100 PULL %s 5 0" % Sn, "Q", "JOIN 100", "STATS " + Sn]
            if how == "nack":
                ops += ["MOD %s 0 1 ^0" % Sn, "Q", "JOIN 100"]
            elif how == "expire":
                ops += ["ADV %d" % (5000 * MS), "JOIN 100", "ADV %d" % (5200 * MS), "JOIN 100"]
            else:
                ops += ["ACK %s 1 ^0" % Sn, "ADV %d" % (299000 * MS), "JOIN 100", "ADV %d" % (1100 * MS), "JOIN 100"]
            ops += ["STATS " + Sn, "JOIN 100"]
            cases.append(("%s-%s%s" % (prefix, how, "-recreated" if recreate else ""), ops))
    return cases


def control_shape_cases(prefix="cshape"):
    """Every shape of a follow-up StreamingPull control message: 0..2 ack ids, 0..2 modify ids, 0..2 seconds. When the
    modify ids and the seconds differ in number the message is inconsistent: INVALID_ARGUMENT, nothing applied."""
    T, Sn = hx(tname("p", "t")), hx(sname("p", "s"))
    cases = []
    for na in (0, 1, 2):
        for nm in (0, 1, 2):
            for ns in (0, 1, 2):
                acks = ["^0", "^1"][:na]
                mods = ["^2", "^1"][:nm]
                secs = ["30", "0"][:ns]
                ops = ["SEED 3", "CT " + T, "CS %s %s 10 ~" % (Sn, T), "PUB %s 3 61 0 62 0 63 0" % T,
                       "SO 1 %s 10 0 10" % Sn, "SR 1", "STATS " + Sn,
                       " ".join(("SS 1 - 0 0 %d %s %d %s %d %s" % (na, " ".join(acks), nm, " ".join(mods), ns, " ".join(secs))).split()),
                       "SR 1", "STATS " + Sn, "GT " + T, "PULL %s 5 1" % Sn, "SR 1"]
                cases.append(("%s-a%d-m%d-s%d" % (prefix, na, nm, ns), ops))
    return cases


def push_slow_cases(prefix="pslow"):
    """An endpoint that takes 11 s (real time) to answer with an accepted status, on a push subscription whose ack
    deadline (60 s) leaves it that time: the message is POSTed once and never again."""
    T, P0 = hx(tname("p", "t")), hx(sname("p", "push0"))
    ops = ["MODE push", "SEED 1", "CT " + T, "CS %s %s 60 %s" % (P0, T, hx("http://ep/e0")),
           "EP 0 3 slow200 200 200", "PUB %s 1 %s 0" % (T, hx("m0")), "ROUND", "STATS " + P0, "ROUND", "STATS " + P0,
           "ROUND", "STATS " + P0]
    return [(prefix, ops)]


def push_delete_cases(prefix="pdel"):
    """The real push loop in the middle of a page of n messages towards an endpoint that does not answer, when the
    subscription is deleted over gRPC: once DeleteSubscription has answered no further message is POSTed."""
    T, P0 = hx(tname("p", "t")), hx(sname("p", "push0"))
    cases = []
    for n, after, outcome in ((40, 3, "hang"), (40, 1, "hang"), (60, 10, "hang"), (40, 3, "slow200"), (30, 2, "reset")):
        ops = ["MODE push", "SEED 1", "CT " + T, "CS %s %s 60 %s" % (P0, T, hx("http://ep/e0")),
               "EP 0 %d %s" % (n, " ".join([outcome] * n)),
               "PUB %s %d %s" % (T, n, " ".join("%s 0" % hx("m%d" % i) for i in range(n))),
               "LOOPDEL 20 %s %d 400" % (P0, after), "GS " + P0, "REG"]
        cases.append(("%s-%d-%d-%s" % (prefix, n, after, outcome), ops))
    return cases


def backed_up_stream_cases(prefix="bus"):
    """A StreamingPull handler whose client has stopped reading (held by the harness at the hand-over of a batch, XS/XQ,
    never polled again) next to a consumer that really waits (a blocked Pull, or a stream that is read): a message
    published then must reach the waiting consumer.  Ack deadline 600 s: nothing else can wake anybody."""
    T, Sn = hx(tname("p", "t")), hx(sname("p", "s"))
    cases = []
    for first in (1, 2, 3):
        for waiter in ("pull", "stream", "two"):
            for later in (1, 2):
                for prewait in (0, 1):
                    ops = ["SEED %d" % (first * 7 + later), "CT " + T, "CS %s %s 600 ~" % (Sn, T), "XS 1 %s 100" % Sn]
                    if prewait:      # the handler finds nothing and really waits before the first message arrives
                        ops += ["XQ 1", "XT", "XQ 1"]
                    for i in range(first):
                        ops += ["PUB %s 1 %s 0" % (T, hx("a%d" % i)), "XQ 1", "XT", "XQ 1"]
                    if waiter == "stream":
                        ops += ["SO 5 %s 10 0 600" % Sn, "SR 5"]
                        obs = ["SR 5"]
                    elif waiter == "pull":
                        ops += ["BG 901 PULL %s 5 0" % Sn, "Q"]
                        obs = ["JOIN 901"]
                    else:
                        ops += ["BG 901 PULL %s 5 0" % Sn, "Q", "BG 902 PULL %s 5 0" % Sn, "Q"]
                        obs = ["JOIN 901", "JOIN 902"]
                    ops += ["PUB %s %d %s" % (T, later, " ".join("%s 0" % hx("b%d" % i) for i in range(later))), "Q", "STATS " + Sn]
                    ops += obs + ["STATS " + Sn]
                    cases.append(("%s-%d-%s-%d-w%d" % (prefix, first, waiter, later, prewait), ops))
    return cases


def late_ack_cases(seeds=range(0, 8), prefix="lack"):
    """Acknowledge calls (library level, one per delivery, each awaited until it has returned) one second before the
    deadline of the deliveries, then - with nothing run in between - the clock moves past that deadline: what was
    acknowledged is never delivered again, whatever the actor finds first when it runs."""
    T, Sn = hx(tname("p", "t")), hx(sname("p", "s"))
    cases = []
    for n in (1, 3, 6):
        for seed in seeds:
            ops = ["SEED %d" % seed, "CT " + T, "CS %s %s 10 ~" % (Sn, T),
                   "PUB %s %d %s" % (T, n, " ".join("%s 0" % hx("m%d" % i) for i in range(n))), "PULL %s %d 1" % (Sn, n),
                   "ADV %d" % (9000 * MS), "STATS " + Sn,
                   "LACK %s %d %d %s" % (Sn, 3000 * MS, n, " ".join(hx(str(i + 1)) for i in range(n))),
                   "STATS " + Sn, "PULL %s 10 1" % Sn, "ADV %d" % (11000 * MS), "PULL %s 10 1" % Sn, "STATS " + Sn]
            cases.append(("%s-n%d-s%d" % (prefix, n, seed), ops))
    return cases


def big_pull_cases(prefix="bigpull"):
    """Unary Pulls asking for more than 1000 messages on a backlog of more than 1000 (three Publish requests of 400..700),
    acknowledged at once, then three more messages and Pulls across the ack deadline: every message is delivered
    once, in publish order (what a Pull leases it also returns)."""
    T, Sn = hx(tname("p", "t")), hx(sname("p", "s"))
    cases = []
    for per, ask in ((400, 2000), (400, 1100), (700, 65535), (334, 1001), (400, 1000)):
        ops = ["SEED %d" % per, "CT " + T, "CS %s %s 10 ~" % (Sn, T)]
        ops += ["PUBN %s %d 78" % (T, per)] * 3
        ops += ["STATS " + Sn, "PULL %s %d 1" % (Sn, ask), "STATS " + Sn, "PUBN %s 3 79" % T, "PULL %s %d 1" % (Sn, ask),
                "STATS " + Sn, "ADV %d" % (11000 * MS), "PULL %s %d 1" % (Sn, ask), "STATS " + Sn]
        cases.append(("%s-%d-%d" % (prefix, per, ask), ops))
    return cases


def push_late_answer_cases(prefix="plate"):
    """The real push loop at a 200..300 ms interval and an endpoint that accepts 700 ms after the request arrived - later
    than one interval, far within the 10 s ack deadline: the message is POSTed once, its acceptance counts (1.5 s of
    real time after the loop, so that an answer still on its way on a slow machine has arrived before STATS)."""
    T, P0 = hx(tname("p", "t")), hx(sname("p", "push0"))
    cases = []
    for interval, n in ((300, 1), (200, 3), (250, 2)):
        rounds = 1500 // interval
        ops = ["MODE push", "SEED 1", "CT " + T, "CS %s %s 10 %s" % (P0, T, hx("http://ep/e0")),
               "EP 0 %d %s" % (4 * n, " ".join(["late200"] * (4 * n))),
               "PUB %s %d %s" % (T, n, " ".join("%s 0" % hx("m%d" % i) for i in range(n))),
               "LOOP %d %d" % (interval, rounds), "ADV %d" % (1500 * MS), "STATS " + P0, "PULL %s 10 1" % P0]
        cases.append(("%s-%d-%d" % (prefix, interval, n), ops))
    return cases


def expiry_with_backlog_cases(prefix="exb"):
    """A lease runs out while the subscription has unpulled messages (published later, left over by a small Pull, or
    nacked) and nobody pulls: 250 ms after the deadline the delivery is no longer outstanding, and the next Pull
    returns the message."""
    T, Sn = hx(tname("p", "t")), hx(sname("p", "s"))
    head = ["CT " + T, "CS %s %s 10 ~" % (Sn, T)]
    tail = ["STATS " + Sn, "PULL %s 10 1" % Sn, "STATS " + Sn, "ADV %d" % (10250 * MS), "STATS " + Sn, "PULL %s 10 1" % Sn]
    bodies = {
        "later": ["PUB %s 1 61 0" % T, "PULL %s 1 1" % Sn, "ADV %d" % (5000 * MS), "PUB %s 1 62 0" % T, "ADV %d" % (4999 * MS),
                  "STATS " + Sn, "ADV %d" % (251 * MS)],
        "leftover": ["PUB %s 2 61 0 62 0" % T, "PULL %s 1 1" % Sn, "ADV %d" % (9999 * MS), "STATS " + Sn, "ADV %d" % (251 * MS)],
        "nacked": ["PUB %s 2 61 0 62 0" % T, "PULL %s 2 1" % Sn, "MOD %s 0 1 ^0" % Sn, "ADV %d" % (10250 * MS)],
        "three": ["PUB %s 3 61 0 62 0 63 0" % T, "PULL %s 1 1" % Sn, "ADV %d" % (2000 * MS), "PULL %s 1 1" % Sn, "ADV %d" % (8250 * MS),
                  "STATS " + Sn, "ADV %d" % (2000 * MS)],
        "many": ["PUBN %s 40 78" % T, "PULL %s 7 1" % Sn, "ADV %d" % (3000 * MS), "PUBN %s 5 79" % T, "ADV %d" % (7250 * MS)],
    }
    return [("%s-%s-s%d" % (prefix, k, seed), ["SEED %d" % seed] + head + b + tail) for k, b in bodies.items() for seed in (1, 2, 3)]


def stale_topic_delete_cases(prefix="xdt"):
    """Two holders of a topic's handle (two DeleteTopic calls that both looked the name up): the first deletes, the name
    is created again, the second deletes (XDT, library level).  Per name, successful creates minus successful deletes
    says whether the topic exists afterwards - for Get, List, a further create, a publish."""
    T, Sn = hx(tname("p", "t")), hx(sname("p", "s"))
    cases = []
    for withsub in (0, 1):
        for again in (0, 1):
            ops = ["SEED %d" % (withsub * 2 + again), "CT " + T]
            if withsub:
                ops += ["CS %s %s 10 ~" % (Sn, T)]
            ops += ["XDT " + T, "GT " + T, "LT %s 0 -" % hx("projects/p"), "CT " + T, "PUB %s 1 61 0" % T]
            if again:
                ops += ["XDT " + T, "GT " + T, "CT " + T]
            ops += ["DT " + T, "GT " + T]
            cases.append(("%s-%d-%d" % (prefix, withsub, again), ops))
    return cases


def publish_vs_delete_topic_cases(ks=range(0, 10), prefix="pvd"):
    """A Publish racing the DeleteTopic of its topic (either may be handled first; the subscription outlives the topic
    with its backlog): whatever ids the racing Publish returns, no id is ever issued twice."""
    T, Sn = hx(tname("p", "t")), hx(sname("p", "s"))
    cases = []
    for k in ks:
        for first in ("dt", "pub"):
            ops = ["SEED %d" % k, "CT " + T, "CS %s %s 10 ~" % (Sn, T), "PUB %s 2 61 0 62 0" % T]
            a, b = "BG 900 DT " + T, "BG 901 PUB %s 2 63 0 64 0" % T
            x, y = (a, b) if first == "dt" else (b, a)
            ops += [x] + (["YIELD %d" % k] if k else []) + [y, "BG 902 PUB %s 1 65 0" % T, "Q", "JOIN 900", "JOIN 901", "JOIN 902",
                                                           "PULL %s 10 1" % Sn, "GT " + T]
            cases.append(("%s-%s-k%d" % (prefix, first, k), ops))
    return cases


def delete_both_cases(ks=range(0, 8), prefix="db"):
    """DeleteTopic and DeleteSubscription of one of its subscriptions in flight together, with a stream and a blocked
    Pull on the subscription: once both have answered (and a retried DeleteSubscription has), the subscription is gone
    and its consumers are released."""
    T, Sn = hx(tname("p", "t")), hx(sname("p", "s"))
    cases = []
    for k in ks:
        for first in ("dt", "ds"):
            ops = ["SEED %d" % k, "CT " + T, "CS %s %s 10 ~" % (Sn, T), "SO 1 %s 10 0 10" % Sn, "SR 1",
                   "BG 100 PULL %s 5 0" % Sn, "Q", "JOIN 100"]
            a, b = "BG 900 DT " + T, "BG 901 DS " + Sn
            x, y = (a, b) if first == "dt" else (b, a)
            ops += [x] + (["YIELD %d" % k] if k else []) + [y, "Q", "JOIN 900", "JOIN 901", "DS " + Sn, "GS " + Sn, "SR 1", "JOIN 100",
                                                           "LS %s 0 -" % hx("projects/p")]
            cases.append(("%s-%s-k%d" % (prefix, first, k), ops))
    return cases


def ordering_key_cases(prefix="ok"):
    """Publish requests whose messages carry ordering keys in every order (none, equal, sorted, reversed, mixed with
    key-less ones): the i-th id answers the i-th message and first deliveries follow the request order."""
    import itertools
    T, Sn = hx(tname("p", "t")), hx(sname("p", "s"))
    keysets = [["zebra", "", "apple", "zebra", "mango"], ["b", "a"], ["", "k"], ["k", ""], ["a", "a", "a"], ["a", "b", "c"],
               ["c", "b", "a"], ["é", "z", "A", ""]]
    cases = []
    for n, keys in enumerate(keysets):
        msgs = " ".join("%s %s" % (hx("m%d" % j), hx(k)) for j, k in enumerate(keys))
        ops = ["SEED %d" % n, "CT " + T, "CS %s %s 10 ~" % (Sn, T), "PUB %s 2 %s 0 %s 0" % (T, hx("w0"), hx("w1")),
               "PUBK %s %d %s" % (T, len(keys), msgs), "PULL %s 100 1" % Sn, "PUBK %s %d %s" % (T, len(keys), msgs),
               "PULL %s 2 1" % Sn, "PULL %s 100 1" % Sn]
        cases.append(("%s-%d" % (prefix, n), ops))
    return cases
