"""bin/check <property> [--tier quick|thorough] [--replay file]

1. proof gate     : full Coq build, audit (no Admitted/Axiom/...), Print Assumptions of
                    every theorem listed for the property in Props/<id>.v
2. correspondence : model (extracted from Coq) vs /repo's current working tree on the
                    property's case streams
3. on any failure : search for a concrete failing input with the property's monitor on the
                    implementation's own outputs; report VIOLATION (+ replay), known findings
4. evidence       : evidence/<id>.json
"""
import argparse, glob, hashlib, json, os, re, sys, time, traceback

sys.path.insert(0, os.path.dirname(os.path.abspath(__file__)))
from common import *
import props as P

FORBIDDEN = re.compile(r"\b(Admitted|admit|Axiom|Axioms|Parameter|Parameters|Conjecture|Hypothesis|Hypotheses|"
                       r"Variable|Variables|Admit Obligations|bypass_check)\b|Guard Checking|Positivity Checking|"
                       r"Universe Checking|type-in-type|impredicative-set")
ALLOWED_AXIOMS = set()  # every theorem is expected to be "Closed under the global context"


def strip_comments(src):
    out, depth, i = [], 0, 0
    while i < len(src):
        if src.startswith("(*", i):
            depth += 1
            i += 2
        elif src.startswith("*)", i) and depth > 0:
            depth -= 1
            i += 2
        else:
            if depth == 0:
                out.append(src[i])
            i += 1
    return "".join(out)


SECTION_LOCAL = re.compile(r"^\s*(Variable|Variables|Hypothesis|Hypotheses)\b")


def audit_sources():
    """Forbidden vernacular in the files of the development (those listed in _CoqProject), comments excluded.
    Variable / Hypothesis are allowed only inside a Section (where they are discharged at End)."""
    hits = []
    listed = [l.strip() for l in open(os.path.join(COQ, "_CoqProject")) if l.strip().endswith(".v")]
    for rel in listed:
        f = os.path.join(COQ, rel)
        src = strip_comments(open(f).read())
        depth = 0
        for n, line in enumerate(src.split("\n"), 1):
            if re.match(r"^\s*Section\s+\w+\s*\.", line):
                depth += 1
            elif re.match(r"^\s*End\s+\w+\s*\.", line) and depth > 0:
                depth -= 1
            if FORBIDDEN.search(line):
                if depth > 0 and SECTION_LOCAL.match(line):
                    continue
                hits.append("%s:%d: %s" % (os.path.relpath(f, ROOT), n, line.strip()))
    proj = open(os.path.join(COQ, "_CoqProject")).read()
    if re.search(r"type-in-type|impredicative-set|-vos|-vok|bypass", proj):
        hits.append("_CoqProject: forbidden flag")
    return hits


def stems_of(pid):
    pf_path = os.path.join(ROOT, "lib", "propfiles.json")
    pfiles = json.load(open(pf_path)).get(pid) if os.path.exists(pf_path) else None
    return [e["file"] for e in pfiles] if pfiles else [pid]


def proof_gate(pid, tier):
    """-> (ok, obligations, discharged, detail dict)"""
    spec = P.PROPS[pid]
    detail = {"theorems": {}, "audit": [], "build": "ok"}
    names = spec["theorems"]
    ok, out = build_coq()
    if not ok:
        detail["build"] = out[-3000:]
        return False, len(names), 0, detail
    hits = audit_sources()
    detail["audit"] = hits
    pf_path = os.path.join(ROOT, "lib", "propfiles.json")
    pfiles = json.load(open(pf_path)).get(pid) if os.path.exists(pf_path) else None
    stems = [e["file"] for e in pfiles] if pfiles else [pid]
    discharged = 0
    seen = set()
    for stem in stems:
        pfile = os.path.join(COQ, "Props", stem + ".v")
        if not os.path.exists(pfile):
            detail["build"] = "missing " + pfile
            return False, len(names), 0, detail
        src = strip_comments(open(pfile).read())
        tmpvo = os.path.join(workdir("gate-" + pid), stem + ".vo")
        p = sh(["timeout", "600", "coqc", "-q", "-Q", ".", "Deltio", "-o", tmpvo, os.path.join("Props", stem + ".v")],
               cwd=COQ, check=False)
        if p.returncode != 0:
            detail["build"] = p.stdout[-3000:]
            return False, len(names), 0, detail
        # Print Assumptions output: one block per command, in file order
        blocks = re.split(r"(?=Closed under the global context|Axioms:)", p.stdout)
        blocks = [b for b in blocks if b.startswith("Closed under") or b.startswith("Axioms:")]
        printed = re.findall(r"Print Assumptions\s+([A-Za-z0-9_']+)\s*\.", src)
        for n in names:
            if n in seen or not re.search(r"\b(Theorem|Lemma|Corollary)\s+%s\b" % re.escape(n), src):
                continue
            seen.add(n)
            st = {"stated": True, "assumptions": None, "file": "Props/%s.v" % stem}
            if n in printed and printed.index(n) < len(blocks):
                b = blocks[printed.index(n)]
                if b.startswith("Closed under"):
                    st["assumptions"] = "closed"
                else:
                    axs = re.findall(r"^([A-Za-z0-9_.']+)\s*:", b, re.M)
                    st["assumptions"] = axs
            good = (st["assumptions"] == "closed" or
                    (isinstance(st["assumptions"], list) and set(st["assumptions"]) <= ALLOWED_AXIOMS))
            st["ok"] = good
            detail["theorems"][n] = st
            if good:
                discharged += 1
    for n in names:
        if n not in seen:
            detail["theorems"][n] = {"stated": False, "assumptions": None, "ok": False}
    ok = discharged == len(names) and not hits
    if tier == "thorough" and ok:
        t0 = time.time()
        mods = ["Deltio.Props." + x for x in stems] + (["Deltio.Gen." + g[2] for g in spec.get("generated", [])])
        q = sh("timeout 2400 coqchk -silent -o -Q . Deltio %s" % " ".join(mods), cwd=COQ, check=False)
        detail["coqchk"] = {"rc": q.returncode, "tail": q.stdout[-1500:], "wall_s": round(time.time() - t0, 1)}
        if q.returncode != 0:
            ok = False
    return ok, len(names), discharged, detail


def replay_path(pid, payload):
    os.makedirs(os.path.join(ROOT, "replays"), exist_ok=True)
    h = hashlib.sha256(json.dumps(payload, sort_keys=True).encode()).hexdigest()[:12]
    path = os.path.join(ROOT, "replays", "%s-%s.json" % (pid, h))
    with open(path, "w") as f:
        json.dump(payload, f, indent=1)
    return os.path.relpath(path, ROOT)


def load_known(pid):
    """findings/known.txt: lines `known: property=<id> signature=<regex> <text>` and
    `fixed: property=<id> <commit> <text>` (the latter suppress nothing)."""
    out = []
    path = os.path.join(ROOT, "findings", "known.txt")
    if os.path.exists(path):
        for line in open(path):
            m = re.match(r"known:\s+property=(\S+)\s+signature=(\S+)\s+(.*)", line.strip())
            if m and m.group(1) == pid:
                out.append((m.group(2), m.group(3)))
    return out


def main():
    ap = argparse.ArgumentParser()
    ap.add_argument("prop")
    ap.add_argument("--tier", default=os.environ.get("VERIF_TIER", "quick"))
    ap.add_argument("--replay")
    args = ap.parse_args()
    pid = args.prop
    tier = args.tier if args.tier in ("quick", "thorough") else "quick"
    seed = int(os.environ.get("VERIF_SEED", "1") or 1)
    if pid not in P.PROPS:
        print("unknown property", pid)
        return 2
    spec = P.PROPS[pid]
    t0 = time.time()
    violations = []      # (kind, text, payload)
    known_hits = []
    stats = {"evaluations": 0, "distinct": set(), "samples": [], "streams": {}, "traces": 0}

    try:
        okh, outh = build_harness()
    except Exception as e:
        okh, outh = False, str(e)
    gate_ok, obligations, discharged, gdetail = (False, len(spec["theorems"]), 0, {})
    try:
        gate_ok, obligations, discharged, gdetail = proof_gate(pid, tier)
    except Exception as e:
        gdetail = {"error": traceback.format_exc()[-2000:]}

    # obligations generated from /repo's sources on this run (translator tie, DESIGN 4a)
    gen_failed = []
    for gname, gfn, _gfile in spec.get("generated", []):
        try:
            okg, gd = gfn()
        except Exception:
            okg, gd = False, {"theorems": {}, "failed": "generated obligation crashed", "output": traceback.format_exc()[-2000:]}
        gdetail.setdefault("theorems", {})
        gdetail.setdefault("generated", {})[gname] = {k: v for k, v in gd.items() if k != "theorems"}
        for n, st in gd.get("theorems", {}).items():
            gdetail["theorems"][n] = st
            obligations += 1
            discharged += 1 if st.get("ok") else 0
        if not okg:
            gen_failed.append((gname, gd))

    if not okh:
        # /repo no longer builds with the hooks on: nothing can be tied to the code.
        violations.append(("build", "harness/deltio build failed", {"build_output": outh[-3000:]}))
    elif args.replay:
        payload = json.load(open(args.replay))
        r = P.replay(pid, payload, seed)
        stats["evaluations"] += 1
        if r:
            violations.append(r)
    else:
        ctx = P.Ctx(pid, tier, seed, stats)
        for eng in spec["engines"]:
            try:
                for v in eng(ctx):
                    violations.append(v)
                    if len(violations) >= 5:
                        break
            except BuildError as e:
                violations.append(("engine", "engine %s could not run" % eng.__name__, {"error": str(e)[-3000:]}))
            except Exception:
                violations.append(("engine", "engine %s crashed" % eng.__name__,
                                   {"error": traceback.format_exc()[-3000:]}))
            if len(violations) >= 5:
                break

    if not gate_ok:
        violations.append(("proof", "proof gate failed for %s" % pid,
                           {"theorems": gdetail.get("theorems"), "audit": gdetail.get("audit"),
                            "build": gdetail.get("build"), "error": gdetail.get("error"),
                            "coqchk": gdetail.get("coqchk")}))

    for gname, gd in gen_failed:
        violations.append(("proof", "generated obligation %s: theorem %s of Gen/%s.v no longer checks against the "
                           "sources" % (gname, gd.get("failed"), gd.get("check_file", "LockCheck")),
                           {"theorem": gd.get("failed"), "edges": gd.get("edges"), "awaits_under_lock": gd.get("awaits_under_lock"),
                            "unanalysed": gd.get("unanalysed"), "output": gd.get("output"),
                            "signature": "generated:%s:%s" % (gname, gd.get("failed"))}))

    # known findings: a violation whose signature is listed is reported as such
    known = load_known(pid)
    real = []
    for kind, text, payload in violations:
        sig = payload.get("signature", "") if isinstance(payload, dict) else ""
        hit = next((k for k in known if sig and re.fullmatch(k[0], sig)), None)
        if hit:
            known_hits.append((hit, text))
        else:
            real.append((kind, text, payload))
    for k in known:
        # findings are demonstrated by the engines themselves (they emit the signature);
        # print one line per listed finding that was observed on this run
        if any(h[0] == k for h in known_hits):
            print("KNOWN-FINDING: property=%s %s" % (pid, k[1]))

    wall = time.time() - t0
    ev = {
        "property_id": pid, "tier": tier, "seed": seed, "level": "proof",
        "coverage": {
            "obligations": obligations, "discharged": discharged,
            "checker_cmd": "cd coq && coq_makefile -f _CoqProject -o Makefile && make -j16 && "
                           + " && ".join("coqc -Q . Deltio Props/%s.v" % x for x in stems_of(pid))
                           + (" && coqchk -o -Q . Deltio " + " ".join("Deltio.Props." + x for x in stems_of(pid))
                              if tier == "thorough" else ""),
            "trusted_base": spec["trusted_base"],
            "theorems": gdetail.get("theorems", {}),
            "evaluations": stats["evaluations"],
            "distinct_nontrivial": len(stats["distinct"]),
            "rule": spec["rule"],
            "samples": stats["samples"][:6] or [{"note": "no case was run"}],
            "traces_validated_against_impl": stats["traces"],
            "streams": stats["streams"],
            "cases_accepted_under_second_reading": stats.get("alt_readings", 0),
            "exhaustive": False,
        },
        "assumptions": spec["assumptions"],
        "wall_s": round(wall, 2),
        "violations": len(real),
    }
    if "generated" in gdetail:
        ev["coverage"]["generated_obligations"] = gdetail["generated"]
    if "coqchk" in gdetail:
        ev["coverage"]["coqchk"] = gdetail["coqchk"]
    evdir = os.path.join(CACHE, "evidence-alt") if ALT_REPO else os.path.join(ROOT, "evidence")
    os.makedirs(evdir, exist_ok=True)
    with open(os.path.join(evdir, pid + ".json"), "w") as f:
        json.dump(ev, f, indent=1, default=str)

    if real:
        for kind, text, payload in real[:5]:
            payload = dict(payload) if isinstance(payload, dict) else {"detail": payload}
            payload.update({"property": pid, "kind": kind, "text": text, "seed": seed, "tier": tier})
            path = replay_path(pid, payload)
            tail = "" if payload.get("failing_input_found") else " no-failing-input-found"
            print("VIOLATION property=%s replay=%s%s" % (pid, path, tail))
            log("  " + text)
        return 1
    print("OK property=%s tier=%s obligations=%d/%d evaluations=%d distinct=%d wall=%.1fs" % (
        pid, tier, discharged, obligations, stats["evaluations"], len(stats["distinct"]), wall))
    return 0


if __name__ == "__main__":
    sys.exit(main())
