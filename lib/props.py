"""Per-property configuration: theorems, correspondence streams, monitors."""
import hashlib, itertools, json, os, random, re
from common import *
import gen
import monitors as M

TB_COMMON = [
    "Coq 8.16.1 kernel (coqc; vm_compute used inside a few proofs by reflection over finite sweeps; no native_compute); thorough tier re-checks with coqchk",
    "axioms: none - every listed theorem prints 'Closed under the global context'",
    "extraction to OCaml (Require Extraction + ExtrOcamlBasic only: its stock Extract Inductive for bool, option, list, prod, unit, sumbool, sumor; no Extract Constant) and the 60-line glue driver/main.ml that moves bytes",
    "the hand-written Gallina model coq/Model/*.v is tied to /repo only by the correspondence check (Rust harness harness/src, built against /repo's working tree with --cfg deltio_verif, real tonic gRPC over an in-memory pipe, paused tokio clock)",
    "python orchestration lib/*.py (generators, comparison, shrinking, monitors used only to classify an alarm)",
    "not modelled: tonic/h2/prost framing, reqwest/hyper, serde_json, SystemTime, OS; tokio's mpsc/Notify/timer semantics are assumed as described in DESIGN.md section 1",
]


class Ctx:
    def __init__(self, pid, tier, seed, stats):
        self.pid, self.tier, self.seed, self.stats = pid, tier, seed, stats
        self.thorough = tier == "thorough"

    def n(self, quick, thorough):
        return thorough if self.thorough else quick

    # ---- bookkeeping
    def note_cases(self, stream, cases, impl, triggers):
        st = self.stats
        st["evaluations"] += len(cases)
        s = st["streams"].setdefault(stream, {"cases": 0, "ops": {}, "status": {}})
        s["cases"] += len(cases)
        for cid, ops in cases:
            lines = impl.get(cid, [])
            nontrivial = False
            for i, o in enumerate(ops):
                k = o.split(" ", 1)[0]
                s["ops"][k] = s["ops"].get(k, 0) + 1
                if i < len(lines):
                    toks = lines[i].split(" ")
                    code = toks[1] if len(toks) > 1 else "-"
                    if k not in ("ADV", "SEED", "SC", "SS", "SR", "REG"):
                        s["status"][code] = s["status"].get(code, 0) + 1
                    if k in triggers and (code == "0" or k in ("SR",)):
                        nontrivial = True
            if nontrivial:
                st["distinct"].add(hashlib.sha1("\n".join(ops).encode()).hexdigest())
        if len(st["samples"]) < 6 and cases:
            cid, ops = cases[min(len(cases) - 1, 3)]
            st["samples"].append({"stream": stream, "case": cid,
                                  "ops": [decode_line(o)[:200] for o in ops[:40]],
                                  "impl": [decode_line(l)[:200] for l in impl.get(cid, [])[:40]]})

    # ---- sequential differential stream
    def seq(self, stream, cases, relevant=None, triggers=(), monitor=None):
        tag = "%s-%s" % (self.pid, stream)
        bad, impl, model = seqdiff(tag, cases, relevant)
        self.note_cases(stream, cases, impl, triggers)
        self.stats["traces"] += len(cases) - len(bad)
        out = []
        if not bad:
            return out
        # 1. shrink the first disagreement
        cid, ops, idx, a, b = bad[0]

        def still_bad(cand):
            bb, _, _ = seqdiff(tag + "-shrink", [("x", cand)], relevant)
            return bool(bb)
        small = shrink_case(tag, ops, still_bad, max_rounds=60)
        bb, im, mo = seqdiff(tag + "-shrink", [("x", small)], relevant)
        if bb:
            _, ops2, idx2, a2, b2 = bb[0]
        else:
            ops2, idx2, a2, b2 = ops, idx, a, b
        payload = {"engine": "seq", "stream": stream, "relevant": sorted(relevant) if relevant else None,
                   "case": ops2, "impl": a2, "model": b2, "first_disagreement": idx2,
                   "readable": [decode_line(o)[:300] for o in ops2],
                   "readable_impl": decode_line(a2[idx2])[:600] if idx2 < len(a2) else None,
                   "readable_model": decode_line(b2[idx2])[:600] if idx2 < len(b2) else None,
                   "disagreeing_cases": len(bad), "cases_in_stream": len(cases),
                   "broken": "correspondence stream '%s' (model Deltio.Model.Driver.run_file vs /repo)" % stream}
        # 2. search for a concrete failing input with the monitor, model out of the loop:
        #    the shrunk case first, then every case of the stream.
        found = None
        if monitor:
            cands = [("shrunk", ops2, a2)] + [(c, o, impl.get(c, [])) for c, o in cases]
            for c, o, lines in cands:
                try:
                    why = monitor(o, lines)
                except Exception as e:
                    why = None
                if why:
                    found = (c, o, lines, why)
                    break
        if any(l.startswith("!") for l in a2):
            bang = next(l for l in a2 if l.startswith("!"))
            found = found or ("shrunk", ops2, a2, "the server did not answer with a status: " + decode_line(bang)[:200])
        if found:
            c, o, lines, why = found
            payload.update({"failing_input_found": True, "monitor": why, "case": o, "impl": lines,
                            "readable": [decode_line(x)[:300] for x in o]})
            payload["signature"] = "monitor:" + why.split(":")[0]
            out.append(("violation", "%s: %s" % (stream, why), payload))
        else:
            payload["failing_input_found"] = False
            payload["signature"] = "correspondence:" + stream
            out.append(("correspondence", "%s: %d of %d cases disagree with the model" % (stream, len(bad), len(cases)),
                        payload))
        return out

    # ---- pure differential stream
    def pure(self, stream, ops, monitor=None, nontrivial=None):
        tag = "%s-%s" % (self.pid, stream)
        bad, a, b = puresweep(tag, ops)
        st = self.stats
        st["evaluations"] += len(ops)
        s = st["streams"].setdefault(stream, {"cases": 0, "ops": {}, "status": {}})
        s["cases"] += len(ops)
        for i, o in enumerate(ops):
            k = o.split(" ", 1)[0]
            s["ops"][k] = s["ops"].get(k, 0) + 1
            res = a[i] if i < len(a) else ""
            key = " ".join(res.split(" ")[:2])
            s["status"][key] = s["status"].get(key, 0) + 1
            if nontrivial is None or nontrivial(o, res):
                st["distinct"].add(hashlib.sha1(o.encode()).hexdigest())
        st["traces"] += len(ops) - len(bad)
        if len(st["samples"]) < 6 and ops:
            st["samples"].append({"stream": stream, "ops": [decode_line(o)[:160] for o in ops[:8]],
                                  "impl": [decode_line(x)[:160] for x in a[:8]]})
        out = []
        if not bad:
            return out
        o, x, y = bad[0]
        payload = {"engine": "pure", "stream": stream, "op": o, "impl": x, "model": y,
                   "readable": decode_line(o)[:300], "readable_impl": decode_line(x)[:300],
                   "readable_model": decode_line(y)[:300], "disagreeing": len(bad), "ops_in_stream": len(ops),
                   "broken": "correspondence stream '%s' (model Deltio.Model.PureDriver.pure_file vs /repo)" % stream}
        found = None
        if monitor:
            hit = monitor(ops, a)
            if hit:
                i, found = hit
                payload.update({"op": ops[i], "impl": a[i], "model": b[i] if i < len(b) else None,
                                "readable": decode_line(ops[i])[:300], "readable_impl": decode_line(a[i])[:300],
                                "readable_model": decode_line(b[i])[:300] if i < len(b) else None})
        if x.startswith("!"):
            found = found or "panic instead of a result: " + decode_line(x)[:200]
        if found:
            payload.update({"failing_input_found": True, "monitor": found})
            payload["signature"] = "monitor:" + found.split(":")[0]
            out.append(("violation", "%s: %s" % (stream, found), payload))
        else:
            payload["failing_input_found"] = False
            payload["signature"] = "correspondence:" + stream
            out.append(("correspondence", "%s: %d of %d ops disagree with the model" % (stream, len(bad), len(ops)),
                        payload))
        return out


def replay(pid, payload, seed):
    """Re-runs a replay file on the current tree."""
    if payload.get("engine") == "seq":
        rel = set(payload["relevant"]) if payload.get("relevant") else None
        bad, impl, model = seqdiff("replay-" + pid, [("replay", payload["case"])], rel)
        mon = PROPS[pid].get("monitor")
        why = mon(payload["case"], impl.get("replay", [])) if mon else None
        if bad or why:
            p = dict(payload)
            p.update({"impl": impl.get("replay"), "model": model.get("replay"), "monitor": why,
                      "failing_input_found": bool(why)})
            return ("replay", "replayed case still fails", p)
        return None
    if payload.get("engine") == "pure":
        bad, a, b = puresweep("replay-" + pid, [payload["op"]])
        mon = PROPS[pid].get("pure_monitor")
        hit = mon([payload["op"]], a) if mon else None
        if bad or hit:
            p = dict(payload)
            p.update({"impl": a[0], "model": b[0], "monitor": hit[1] if hit else None,
                      "failing_input_found": bool(hit)})
            return ("replay", "replayed op still disagrees", p)
        return None
    return ("replay", "unknown replay engine", dict(payload))


# ================================================================= engines

NAME_ALPHABET = ["p", "s", "/", "-", "é"]


def strings_upto(alpha, n):
    for k in range(n + 1):
        for t in itertools.product(alpha, repeat=k):
            yield "".join(t)


def eng_names_pure(ctx):
    """C18: TN/SN on exhaustive and random strings around the two fixed segments."""
    rng = random.Random(ctx.seed)
    ops = []
    free = list(strings_upto(NAME_ALPHABET, ctx.n(2, 3)))
    mids = ["/topics/", "/subscriptions/", "/topic/", "/topics", "topics/", "/Topics/", "//topics/", "/topics//",
            "/ptions/", "/subscriptions", "/x/", "/", ""]
    heads = ["projects/", "project/", "projects", "/projects/", "Projects/", ""]
    for h in heads:
        for m in mids:
            sample_a = free if h == "projects/" and m in ("/topics/", "/subscriptions/") else free[:12]
            for a in sample_a:
                for b in (free if len(a) <= 1 else free[:8]):
                    s = h + a + m + b
                    ops.append("TN " + hx(s))
                    ops.append("SN " + hx(s))
    for s in gen.MALFORMED_NAMES + [gen.tname("p", i) for i in gen.ODD_VALID_IDS] + \
            [gen.sname("p", i) for i in gen.ODD_VALID_IDS]:
        ops.append("TN " + hx(s))
        ops.append("SN " + hx(s))
    chars = list("ps/-é0t") + ["topics", "subscriptions", "projects", "/topics/", "/subscriptions/", "projects/"]
    for _ in range(ctx.n(3000, 50000)):
        s = "".join(rng.choice(chars) for _ in range(rng.randrange(0, 9)))
        if rng.random() < 0.7:
            s = "projects/" + s
        ops.append(("TN " if rng.random() < 0.5 else "SN ") + hx(s))
    ops = list(dict.fromkeys(ops))
    return ctx.pure("names-pure", ops, monitor=M.mon_names_pure,
                    nontrivial=lambda o, r: r.split(" ")[1:2] == ["1"])


def eng_names_echo(ctx):
    """C18: names echoed by Create/Get and used as map keys through gRPC."""
    rng = random.Random(ctx.seed + 1)
    cases = []
    ids = gen.ODD_VALID_IDS + ["t", "u1"]
    for i in range(ctx.n(60, 600)):
        ops = ["SEED %d" % i]
        a, b = rng.choice(ids), rng.choice(ids)
        pa, pb = rng.choice(["p", "q2", "é"]), rng.choice(["p", "q2"])
        ta, tb = gen.tname(pa, a), gen.tname(pb, b)
        bad = rng.choice(gen.MALFORMED_NAMES)
        ops += ["CT " + hx(ta), "CT " + hx(tb), "CT " + hx(bad), "GT " + hx(ta), "GT " + hx(tb),
                "GT " + hx(gen.sname(pa, a)), "LT %s 0 -" % hx("projects/" + pa)]
        sa = gen.sname(pa, rng.choice(ids))
        ops += ["CS %s %s 10 ~" % (hx(sa), hx(ta)), "GS " + hx(sa), "GS " + hx(ta),
                "CS %s %s 10 ~" % (hx(ta), hx(ta)), "CS %s %s 10 ~" % (hx(sa), hx(sa)),
                "LS %s 0 -" % hx("projects/" + pa), "LTS %s 0 -" % hx(ta),
                "PUB %s 1 61 0" % hx(ta), "PULL %s 5 1" % hx(sa), "DS " + hx(sa), "DT " + hx(ta),
                "GT " + hx(ta), "GS " + hx(sa)]
        cases.append(("echo%d" % i, ops))
    return ctx.seq("names-echo", cases, relevant={"CT", "GT", "CS", "GS", "LT", "LS", "LTS", "DT", "DS", "PUB", "PULL"},
                   triggers={"CT", "CS"}, monitor=M.mon_names_seq)


PROPS = {}


def prop(pid, theorems, engines, rule, monitor=None, assumptions=None, extra_tb=None, **kw):
    PROPS[pid] = dict(theorems=theorems, engines=engines, rule=rule, monitor=monitor,
                      assumptions=assumptions or [], trusted_base=TB_COMMON + (extra_tb or []), **kw)


prop("C18",
     theorems=["C18_shape", "C18_roundtrip", "C18_injective", "C18_kinds_disjoint", "C18_map_keys"],
     engines=[eng_names_pure, eng_names_echo],
     rule="pure stream: every string TopicName/SubscriptionName::try_parse is called on (exhaustive over "
          "{p,s,/,-,é} up to length 2/3 in each free slot x near-miss heads and middle segments, plus random); "
          "distinct = distinct strings, non-trivial = accepted by the implementation. seq stream: gRPC "
          "create/get/list/delete scripts over odd names; non-trivial = at least one successful create",
     monitor=M.mon_names_seq, pure_monitor=M.mon_names_pure,
     assumptions=["strings are valid UTF-8 (gRPC string fields); the byte-level model of strip_prefix/find is exact on those"],
     title="Resource names are parsed canonically", design_ref="7/C18",
     level_text="Theorems over all byte strings about the model of try_parse/Display (shape, round trip, injectivity, "
                "disjoint kinds, map keys); the model is tied to the Rust by differential runs of the parser on "
                "exhaustively enumerated and random strings and of the names echoed through gRPC.",
     level_note="Assumes the correspondence streams reach every behaviour of the two 15-line parsers (they are exhaustive "
                "around both fixed segments); the proof itself has no axioms.",
     technique="Coq proof over all byte strings (Names.v/NamesP.v) + differential correspondence of the parser and of echoed names")
