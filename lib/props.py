"""Per-property configuration: theorems, correspondence streams, monitors."""
import hashlib, itertools, json, os, random, re
from common import *
import gen
import monitors as M

TB_COMMON = [
    "Coq 8.16.1 kernel (coqc; vm_compute used inside a few proofs by reflection over finite sweeps; no native_compute); thorough tier re-checks with coqchk",
    "axioms: none - every listed theorem prints 'Closed under the global context'",
    "extraction to OCaml (Require Extraction + ExtrOcamlBasic only: its stock Extract Inductive for bool, option, list, prod, unit, sumbool, sumor; no Extract Constant) and the 60-line glue driver/main.ml that moves bytes",
    "the hand-written Gallina model coq/Model/*.v is tied to /repo only by the correspondence check (Rust harness harness/src, built against /repo's working tree with --cfg deltio_verif, real tonic gRPC over an in-memory pipe, paused tokio clock)",
    "python orchestration lib/*.py (generators, comparison, shrinking, monitors used only to classify an alarm)",
    "not modelled: tonic/h2/prost framing, reqwest/hyper, serde_json, SystemTime, OS; tokio's mpsc/Notify/timer semantics are assumed as described in DESIGN.md section 1",
]


class Ctx:
    def __init__(self, pid, tier, seed, stats):
        self.pid, self.tier, self.seed, self.stats = pid, tier, seed, stats
        self.thorough = tier == "thorough"

    def n(self, quick, thorough):
        return thorough if self.thorough else quick

    # ---- bookkeeping
    def note_cases(self, stream, cases, impl, triggers):
        st = self.stats
        st["evaluations"] += len(cases)
        s = st["streams"].setdefault(stream, {"cases": 0, "ops": {}, "status": {}})
        s["cases"] += len(cases)
        for cid, ops in cases:
            lines = impl.get(cid, [])
            nontrivial = False
            for i, o in enumerate(ops):
                k = o.split(" ", 1)[0]
                s["ops"][k] = s["ops"].get(k, 0) + 1
                if i < len(lines):
                    toks = lines[i].split(" ")
                    code = toks[1] if len(toks) > 1 else "-"
                    if k not in ("ADV", "SEED", "SC", "SS", "SR", "REG"):
                        s["status"][code] = s["status"].get(code, 0) + 1
                    if k in triggers and (code == "0" or k in ("SR",)):
                        nontrivial = True
            if nontrivial:
                st["distinct"].add(hashlib.sha1("\n".join(ops).encode()).hexdigest())
        if len(st["samples"]) < 6 and cases:
            cid, ops = cases[min(len(cases) - 1, 3)]
            st["samples"].append({"stream": stream, "case": cid,
                                  "ops": [decode_line(o)[:200] for o in ops[:40]],
                                  "impl": [decode_line(l)[:200] for l in impl.get(cid, [])[:40]]})

    # ---- sequential differential stream
    def seq(self, stream, cases, relevant=None, triggers=(), monitor=None, always_monitor=False, model_free=False,
            alt=None):
        """alt: ops -> ops or None; a second reading of a case that the model may be given when the first one
        disagrees with the implementation (real-time effects the case cannot pin down, e.g. how many passes a push
        loop completed in its time slot); the case counts as a disagreement only if both readings disagree."""
        tag = "%s-%s" % (self.pid, stream)
        if model_free:
            # a stream with ops the sequential model has no counterpart for (CANCEL at a chosen scheduler
            # turn): the implementation alone runs and the monitor decides.
            d = workdir(tag)
            write_cases(os.path.join(d, "cases.txt"), cases)
            run_impl_seq(os.path.join(d, "cases.txt"), os.path.join(d, "impl.out"))
            bad, impl, model = [], parse_results(os.path.join(d, "impl.out")), {}
        else:
            bad, impl, model = seqdiff(tag, cases, relevant)
            if bad and alt:
                alts = [(cid, alt(ops)) for cid, ops, _, _, _ in bad]
                alts = [(cid, o) for cid, o in alts if o]
                if alts:
                    d = workdir(tag + "-alt")
                    ap, ao = os.path.join(d, "cases.txt"), os.path.join(d, "model.out")
                    write_cases(ap, alts)
                    run_model_seq(ap, ao)
                    am = parse_results(ao)
                    still = []
                    for cid, ops, idx, a, b in bad:
                        o2 = dict(alts).get(cid)
                        if o2 is not None and diff_case(ops, a, am.get(cid, []), relevant) is None:
                            self.stats.setdefault("alt_readings", 0)
                            self.stats["alt_readings"] += 1
                            continue
                        still.append((cid, ops, idx, a, b))
                    bad = still
        self.note_cases(stream, cases, impl, triggers)
        self.stats["traces"] += len(cases) - len(bad)
        out = []
        if always_monitor and monitor:
            # streams whose outputs legitimately depend on the schedule (calls started concurrently) are
            # compared with the model only for completion; the property itself is then read off the
            # implementation's own answers on every case, not only after a disagreement.
            for cid, ops in cases:
                why = monitor(ops, impl.get(cid, []))
                if why:
                    payload = {"engine": "seq", "stream": stream, "relevant": sorted(relevant) if relevant else None,
                               "case": ops, "impl": impl.get(cid), "model": model.get(cid),
                               "readable": [decode_line(o)[:300] for o in ops], "failing_input_found": True,
                               "monitor": why, "signature": "monitor:" + why.split(":")[0],
                               "monitor_fn": monitor.__name__, "model_free": model_free,
                               "broken": "monitor of stream '%s' on the implementation's own answers" % stream}
                    return [("violation", "%s: %s" % (stream, why), payload)]
        if not bad:
            return out
        # 1. shrink the first disagreement
        cid, ops, idx, a, b = bad[0]

        def still_bad(cand):
            bb, _, _ = seqdiff(tag + "-shrink", [("x", cand)], relevant)
            return bool(bb)
        small = shrink_case(tag, ops, still_bad, max_rounds=60)
        bb, im, mo = seqdiff(tag + "-shrink", [("x", small)], relevant)
        if bb:
            _, ops2, idx2, a2, b2 = bb[0]
        else:
            ops2, idx2, a2, b2 = ops, idx, a, b
        payload = {"engine": "seq", "stream": stream, "relevant": sorted(relevant) if relevant else None,
                   "case": ops2, "impl": a2, "model": b2, "first_disagreement": idx2,
                   "readable": [decode_line(o)[:300] for o in ops2],
                   "readable_impl": decode_line(a2[idx2])[:600] if idx2 < len(a2) else None,
                   "readable_model": decode_line(b2[idx2])[:600] if idx2 < len(b2) else None,
                   "disagreeing_cases": len(bad), "cases_in_stream": len(cases),
                   "monitor_fn": monitor.__name__ if monitor else None,
                   "broken": "correspondence stream '%s' (model Deltio.Model.Driver.run_file vs /repo)" % stream}
        # 2. search for a concrete failing input with the monitor, model out of the loop:
        #    the shrunk case first, then every case of the stream.
        found = None
        if monitor:
            cands = [("shrunk", ops2, a2)] + [(c, o, impl.get(c, [])) for c, o in cases]
            for c, o, lines in cands:
                try:
                    why = monitor(o, lines)
                except Exception as e:
                    why = None
                if why:
                    found = (c, o, lines, why)
                    break
        if any(l.startswith("!") for l in a2):
            bang = next(l for l in a2 if l.startswith("!"))
            found = found or ("shrunk", ops2, a2, "the server did not answer with a status: " + decode_line(bang)[:200])
        if found:
            c, o, lines, why = found
            payload.update({"failing_input_found": True, "monitor": why, "case": o, "impl": lines,
                            "readable": [decode_line(x)[:300] for x in o]})
            payload["signature"] = "monitor:" + why.split(":")[0]
            out.append(("violation", "%s: %s" % (stream, why), payload))
        else:
            payload["failing_input_found"] = False
            payload["signature"] = "correspondence:" + stream
            out.append(("correspondence", "%s: %d of %d cases disagree with the model" % (stream, len(bad), len(cases)),
                        payload))
        return out

    # ---- pure differential stream
    def pure(self, stream, ops, monitor=None, nontrivial=None):
        tag = "%s-%s" % (self.pid, stream)
        bad, a, b = puresweep(tag, ops)
        st = self.stats
        st["evaluations"] += len(ops)
        s = st["streams"].setdefault(stream, {"cases": 0, "ops": {}, "status": {}})
        s["cases"] += len(ops)
        for i, o in enumerate(ops):
            k = o.split(" ", 1)[0]
            s["ops"][k] = s["ops"].get(k, 0) + 1
            res = a[i] if i < len(a) else ""
            key = " ".join(res.split(" ")[:2])
            s["status"][key] = s["status"].get(key, 0) + 1
            if nontrivial is None or nontrivial(o, res):
                st["distinct"].add(hashlib.sha1(o.encode()).hexdigest())
        st["traces"] += len(ops) - len(bad)
        if len(st["samples"]) < 6 and ops:
            st["samples"].append({"stream": stream, "ops": [decode_line(o)[:160] for o in ops[:8]],
                                  "impl": [decode_line(x)[:160] for x in a[:8]]})
        out = []
        if not bad:
            return out
        o, x, y = bad[0]
        payload = {"engine": "pure", "stream": stream, "op": o, "impl": x, "model": y,
                   "readable": decode_line(o)[:300], "readable_impl": decode_line(x)[:300],
                   "readable_model": decode_line(y)[:300], "disagreeing": len(bad), "ops_in_stream": len(ops),
                   "broken": "correspondence stream '%s' (model Deltio.Model.PureDriver.pure_file vs /repo)" % stream}
        found = None
        if monitor:
            hit = monitor(ops, a)
            if hit:
                i, found = hit
                payload.update({"op": ops[i], "impl": a[i], "model": b[i] if i < len(b) else None,
                                "readable": decode_line(ops[i])[:300], "readable_impl": decode_line(a[i])[:300],
                                "readable_model": decode_line(b[i])[:300] if i < len(b) else None})
        if x.startswith("!"):
            found = found or "panic instead of a result: " + decode_line(x)[:200]
        if found:
            payload.update({"failing_input_found": True, "monitor": found})
            payload["signature"] = "monitor:" + found.split(":")[0]
            out.append(("violation", "%s: %s" % (stream, found), payload))
        else:
            payload["failing_input_found"] = False
            payload["signature"] = "correspondence:" + stream
            out.append(("correspondence", "%s: %d of %d ops disagree with the model" % (stream, len(bad), len(ops)),
                        payload))
        return out


def replay(pid, payload, seed):
    """Re-runs a replay file on the current tree."""
    if payload.get("kind") in ("proof", "build"):
        return None     # the proof gate and the generated obligations are re-checked on every invocation anyway
    if payload.get("engine") in ("seq", "abandon"):
        rel = set(payload["relevant"]) if payload.get("relevant") else None
        name = payload.get("monitor_fn")
        mon = (getattr(M, name, None) or globals().get(name)) if name else None
        if payload.get("engine") == "abandon":
            mon = M.mon_abandon
        mon = mon or PROPS[pid].get("monitor")
        no_model = any(o.split(" ")[0] in ("CANCEL", "XH", "XP", "XC") for o in payload["case"])
        if payload.get("model_free") or payload.get("engine") == "abandon" or no_model:
            d = workdir("replay-" + pid)
            write_cases(os.path.join(d, "cases.txt"), [("replay", payload["case"])])
            run_impl_seq(os.path.join(d, "cases.txt"), os.path.join(d, "impl.out"))
            bad, impl, model = [], parse_results(os.path.join(d, "impl.out")), {}
        else:
            bad, impl, model = seqdiff("replay-" + pid, [("replay", payload["case"])], rel)
        why = mon(payload["case"], impl.get("replay", [])) if mon else None
        if bad or why:
            p = dict(payload)
            p.update({"impl": impl.get("replay"), "model": model.get("replay"), "monitor": why,
                      "failing_input_found": bool(why)})
            return ("replay", "replayed case still fails", p)
        return None
    if payload.get("engine") == "orderstress":
        out = eng_orderstress(Ctx(pid, "quick", seed, {"evaluations": 0, "distinct": set(), "samples": [], "streams": {}, "traces": 0}))
        return out[0] if out else None
    if payload.get("engine") in ("topicstress", "deletestress", "pushstress", "nsstress", "datastress", "grpcstress"):
        fn = {"topicstress": eng_topicstress, "deletestress": eng_deletestress, "pushstress": eng_pushstress,
              "nsstress": eng_nsstress, "datastress": eng_datastress, "grpcstress": eng_grpcstress}[payload["engine"]]
        out = fn(Ctx(pid, "quick", seed, {"evaluations": 0, "distinct": set(), "samples": [], "streams": {}, "traces": 0}))
        return out[0] if out else None
    if payload.get("engine") == "racestress":
        out = eng_racestress(Ctx(pid, "quick", seed, {"evaluations": 0, "distinct": set(), "samples": [], "streams": {}, "traces": 0}))
        return out[0] if out else None
    if payload.get("engine") == "fc":
        bad, a, b = fc_diff("replay-" + pid, [("replay", payload["case"])])
        why = mon_fc(payload["case"], a.get("replay", []))
        if bad or why:
            p = dict(payload)
            p.update({"impl": a.get("replay"), "model": b.get("replay"), "monitor": why, "failing_input_found": bool(why)})
            return ("replay", "replayed schedule still fails", p)
        return None
    if payload.get("engine") == "pure":
        bad, a, b = puresweep("replay-" + pid, [payload["op"]])
        mon = PROPS[pid].get("pure_monitor")
        hit = mon([payload["op"]], a) if mon else None
        if bad or hit:
            p = dict(payload)
            p.update({"impl": a[0], "model": b[0], "monitor": hit[1] if hit else None,
                      "failing_input_found": bool(hit)})
            return ("replay", "replayed op still disagrees", p)
        return None
    return ("replay", "unknown replay engine", dict(payload))


# ================================================================= engines

NAME_ALPHABET = ["p", "s", "/", "-", "é", "P", "\\", "'"]


def strings_upto(alpha, n):
    for k in range(n + 1):
        for t in itertools.product(alpha, repeat=k):
            yield "".join(t)


def eng_names_pure(ctx):
    """C18: TN/SN on exhaustive and random strings around the two fixed segments."""
    rng = random.Random(ctx.seed)
    ops = []
    free = list(strings_upto(NAME_ALPHABET, ctx.n(2, 3)))
    mids = ["/topics/", "/subscriptions/", "/topic/", "/topics", "topics/", "/Topics/", "//topics/", "/topics//",
            "/ptions/", "/subscriptions", "/x/", "/", ""]
    heads = ["projects/", "project/", "projects", "/projects/", "Projects/", ""]
    for h in heads:
        for m in mids:
            sample_a = free if h == "projects/" and m in ("/topics/", "/subscriptions/") else free[:12]
            for a in sample_a:
                for b in (free if len(a) <= 1 else free[:8]):
                    s = h + a + m + b
                    ops.append("TN " + hx(s))
                    ops.append("SN " + hx(s))
    for s in gen.MALFORMED_NAMES + [gen.tname("p", i) for i in gen.ODD_VALID_IDS] + \
            [gen.sname("p", i) for i in gen.ODD_VALID_IDS]:
        ops.append("TN " + hx(s))
        ops.append("SN " + hx(s))
    chars = list("ps/-é0tPTÉ\\'\"\t\n ") + ["\u0301", "\x7f", "topics", "subscriptions", "projects", "/topics/", "/subscriptions/", "projects/"]
    for _ in range(ctx.n(3000, 50000)):
        s = "".join(rng.choice(chars) for _ in range(rng.randrange(0, 9)))
        if rng.random() < 0.7:
            s = "projects/" + s
        ops.append(("TN " if rng.random() < 0.5 else "SN ") + hx(s))
    ops = list(dict.fromkeys(ops))
    return ctx.pure("names-pure", ops, monitor=M.mon_names_pure,
                    nontrivial=lambda o, r: r.split(" ")[1:2] == ["1"])


def eng_names_echo(ctx):
    """C18: names echoed by Create/Get and used as map keys through gRPC."""
    rng = random.Random(ctx.seed + 1)
    cases = []
    ids = gen.ODD_VALID_IDS + ["t", "u1"]
    for i in range(ctx.n(60, 600)):
        ops = ["SEED %d" % i]
        a, b = rng.choice(ids), rng.choice(ids)
        pa, pb = rng.choice(["p", "q2", "é", "P", "Q2"]), rng.choice(["p", "q2", "P", "É"])
        if i % 3 == 0:
            # two names that differ only in the case of one part
            a = b = rng.choice(["t", "u1", "T"])
            pa, pb = rng.choice([("p", "P"), ("q2", "Q2"), ("é", "É"), ("p", "p")])
            if pa == pb:
                a, b = "tt", "tT"
        ta, tb = gen.tname(pa, a), gen.tname(pb, b)
        bad = rng.choice(gen.MALFORMED_NAMES)
        ops += ["CT " + hx(ta), "CT " + hx(tb), "CT " + hx(bad), "GT " + hx(ta), "GT " + hx(tb),
                "GT " + hx(gen.sname(pa, a)), "LT %s 0 -" % hx("projects/" + pa)]
        sa = gen.sname(pa, rng.choice(ids))
        ops += ["CS %s %s 10 ~" % (hx(sa), hx(ta)), "GS " + hx(sa), "GS " + hx(ta),
                "CS %s %s 10 ~" % (hx(ta), hx(ta)), "CS %s %s 10 ~" % (hx(sa), hx(sa)),
                "LS %s 0 -" % hx("projects/" + pa), "LTS %s 0 -" % hx(ta),
                "PUB %s 1 61 0" % hx(ta), "PULL %s 5 1" % hx(sa), "DS " + hx(sa), "DT " + hx(ta),
                "GT " + hx(ta), "GS " + hx(sa)]
        cases.append(("echo%d" % i, ops))
    return ctx.seq("names-echo", cases, relevant={"CT", "GT", "CS", "GS", "LT", "LS", "LTS", "DT", "DS", "PUB", "PULL"},
                   triggers={"CT", "CS"}, monitor=M.mon_names_seq)


PROPS = {}


def prop(pid, theorems, engines, rule, monitor=None, assumptions=None, extra_tb=None, **kw):
    PROPS[pid] = dict(theorems=theorems, engines=engines, rule=rule, monitor=monitor,
                      assumptions=assumptions or [], trusted_base=TB_COMMON + (extra_tb or []), **kw)


prop("C18",
     theorems=["C18_shape", "C18_roundtrip", "C18_injective", "C18_kinds_disjoint", "C18_map_keys"],
     engines=[eng_names_pure, eng_names_echo],
     rule="pure stream: every string TopicName/SubscriptionName::try_parse is called on (exhaustive over "
          "{p,s,/,-,é} up to length 2/3 in each free slot x near-miss heads and middle segments, plus random); "
          "distinct = distinct strings, non-trivial = accepted by the implementation. seq stream: gRPC "
          "create/get/list/delete scripts over odd names; non-trivial = at least one successful create",
     monitor=M.mon_names_seq, pure_monitor=M.mon_names_pure,
     assumptions=["strings are valid UTF-8 (gRPC string fields); the byte-level model of strip_prefix/find is exact on those"],
     title="Resource names are parsed canonically", design_ref="7/C18",
     level_text="Theorems over all byte strings about the model of try_parse/Display (shape, round trip, injectivity, "
                "disjoint kinds, map keys); the model is tied to the Rust by differential runs of the parser on "
                "exhaustively enumerated and random strings and of the names echoed through gRPC.",
     level_note="Assumes the correspondence streams reach every behaviour of the two 15-line parsers (they are exhaustive "
                "around both fixed segments); the proof itself has no axioms.",
     technique="Coq proof over all byte strings (Names.v/NamesP.v) + differential correspondence of the parser and of echoed names")


# ================================================================= more engines

import lockgate
THEOREMS = json.load(open(os.path.join(ROOT, "lib", "theorems.json")))
DATA_OPS = {"PUB", "PUBN", "PULL", "ACK", "MOD", "STATS", "SR", "SO", "SS"}
CTL_OPS = {"CT", "GT", "DT", "CS", "GS", "DS", "LT", "LS", "LTS", "REG"}


def seeded(cases):
    """Give every case a runtime seed so that select! order is reproducible."""
    out = []
    for i, (cid, ops) in enumerate(cases):
        out.append((cid, ops if ops and ops[0].startswith("SEED") else ["SEED %d" % (i % 97)] + ops))
    return out


def eng_data_random(mon, triggers, relevant=DATA_OPS, streams=False, nq=250, nt=6000, tag="data-random", drain=False,
                    always=False):
    def eng(ctx):
        w = gen.merge(gen.W_DATA, {"CS": 1, "DS": 1, "DT": 1, "CT": 1}, gen.W_STREAM if streams else {})
        cases = seeded(gen.random_cases(ctx.seed * 1000 + 7, ctx.n(nq, nt), w, "r", allow_streams=streams))
        if drain:
            cases = [(c, gen.with_drain(o)) for c, o in cases]
        return ctx.seq(tag, cases, relevant=relevant, triggers=triggers, monitor=mon, always_monitor=always)
    eng.__name__ = "eng_" + tag.replace("-", "_")
    return eng


def eng_data_enum(mon, triggers, relevant=DATA_OPS, dq=3, dt=4):
    def eng(ctx):
        cases = seeded(gen.data_plane_enum(ctx.n(dq, dt)))
        out = ctx.seq("data-enum", cases, relevant=relevant, triggers=triggers, monitor=mon)
        ctx.stats["streams"]["data-enum"]["exhaustive_depth"] = ctx.n(dq, dt)
        return out
    return eng


def eng_control_random(mon, triggers, relevant=CTL_OPS | DATA_OPS, nq=250, nt=6000, drain=False, always=False):
    def eng(ctx):
        w = gen.merge(gen.W_CONTROL, {"PUB": 3, "PULL": 3, "ACK": 1, "ADV": 1, "STATS": 2})
        cases = seeded(gen.random_cases(ctx.seed * 1000 + 11, ctx.n(nq, nt), w, "c", n_ops=(10, 45)))
        if drain:
            cases = [(c, gen.with_drain(o)) for c, o in cases]
        return ctx.seq("control-drain" if drain else "control-random", cases, relevant=relevant, triggers=triggers,
                       monitor=mon, always_monitor=always)
    return eng


def eng_deadline_probes(mods, mon, tag):
    def eng(ctx):
        phases = list(range(0, 100, 7)) + [99] if not ctx.thorough else list(range(100))
        cases = seeded(gen.deadline_probe_cases(phases, ackdls=(0, 5, 11, 700) if not ctx.thorough else (0, 1, 5, 9, 10, 11, 15, 600, 700, 3600),
                                                mods=mods, prefix=tag,
                                                gaps=(40, 70) if not ctx.thorough else (10, 40, 70, 95)))
        # the same probes with a Publish arriving just before each of them (requests of another kind must not move a deadline)
        cases += seeded(gen.deadline_probe_cases(phases[::3] if not ctx.thorough else phases, ackdls=(0, 11) if not ctx.thorough else (0, 5, 11, 700),
                                                 mods=mods[:2], prefix=tag, gaps=(40,), pub_probe=True))
        cases = [(c, gen.with_drain(o)) for c, o in cases]

        def mon2(ops, lines):
            return mon(ops, lines) or M.mon_fanout(ops, lines)
        return ctx.seq(tag, cases, relevant=DATA_OPS, triggers={"PULL"}, monitor=mon2)
    eng.__name__ = "eng_" + tag.replace("-", "_")
    return eng


def eng_expiry_load(ctx):
    """Hundreds to thousands of leases that run out at one instant while requests reach the subscription at that
    very moment (no settling between the clock jump and the requests), then a drain: everything comes back."""
    sizes = (255, 256, 257, 512, 1000, 2000) if not ctx.thorough else (1, 255, 256, 257, 300, 511, 512, 513, 767, 768,
                                                                       1000, 1024, 2000, 3000, 5000)
    cases = seeded(gen.expiry_load_cases(sizes, reps=(1, 4) if not ctx.thorough else (1, 2, 4, 8)))
    return ctx.seq("expiry-load", cases, relevant={"PULL", "STATS"}, triggers={"PULL"}, monitor=M.mon_fanout,
                   always_monitor=True)


def eng_deadline_pure(ctx):
    """AckDeadline::new against round_deadline: every ms phase of the 100 ms grid, sub-ms and sub-us offsets."""
    rng = random.Random(ctx.seed + 5)
    ops = []
    for ms in range(0, 300):
        ops.append("DL %d" % (ms * gen.MS))
    for ms in range(0, 100, 3 if not ctx.thorough else 1):
        for off in (1, 499, 500, 999, 1000, 1001, 999999, 500000):
            ops.append("DL %d" % (ms * gen.MS + off))
            ops.append("DL %d" % (10 * gen.S + ms * gen.MS + off))
    for _ in range(ctx.n(2000, 100000)):
        ops.append("DL %d" % rng.randrange(0, 700 * gen.S))
    # a server that has been up for a while: around every power of two of the microsecond count from 2^24 (16.8 s)
    # to 2^52 (142 years), and hours / days / a year
    for e in range(24, 53):
        for d in (-1000 * 1001, -1001, -1, 0, 1, 999, 1000, 1001, 37 * gen.MS + 613, 10 * gen.S + 41 * gen.MS):
            ops.append("DL %d" % (2 ** e * 1000 + d))
    for secs in (3600, 4294, 4295, 4320, 7200, 86400, 30 * 86400, 365 * 86400):
        for d in (0, 1, 41 * gen.MS + 7, 99 * gen.MS + 999999):
            ops.append("DL %d" % (secs * gen.S + d))
    for _ in range(ctx.n(500, 20000)):
        ops.append("DL %d" % rng.randrange(0, 400 * 86400 * gen.S))
    dx = [-2147483648, -1, 0, 1, 9, 10, 11, 599, 600, 601, 2147483647] + [rng.randrange(-700, 700) for _ in range(200)]
    for k in (1, 2, 3, 255, 256, 32767):              # values whose low 16 bits are small
        dx += [k * 65536 + d for d in (-1, 0, 1, 2, 30, 599, 600, 601)]
    dx += [rng.randrange(-2 ** 31, 2 ** 31) for _ in range(300)]
    dx += [rng.randrange(1, 32768) * 65536 + rng.randrange(0, 700) for _ in range(300)]
    for v in dx:
        ops.append("DX %d" % v)
    ops = list(dict.fromkeys(ops))

    def mon(o, a):
        for i, (op, r) in enumerate(zip(o, a)):
            if op.startswith("DL "):
                t = int(op[3:])
                try:
                    d = int(r.split(" ")[1])
                except Exception:
                    return i, "C04-noanswer: %s -> %s" % (op, r)
                if d < t:
                    return i, "C04-deadline-before-instant: AckDeadline::new(EPOCH+%d ns) = EPOCH+%d ns" % (t, d)
                if d >= t + 100 * gen.MS + 1000:
                    return i, "C04-deadline-too-late: AckDeadline::new(EPOCH+%d ns) = EPOCH+%d ns" % (t, d)
            if op.startswith("DX "):
                v = int(op[3:])
                want = "DX 3" if v < 0 else "DX 0 -" if v == 0 else "DX 0 %d" % min(v, 600)
                if r != want:
                    return i, ("C05-seconds: ModifyAckDeadline seconds=%d is read as %r (expected: <0 rejected, 0 nack, "
                               "1..599 as given, >=600 capped at 600)" % (v, r))
        return None
    PROPS[ctx.pid]["pure_monitor"] = mon
    return ctx.pure("deadline-pure", ops, monitor=mon)


def eng_paging_pure(ctx):
    rng = random.Random(ctx.seed + 9)
    ops = []
    offs = [0, 1, 19, 20, 21, 999, 1000, 1001, 2 ** 32 - 1, 2 ** 32, 2 ** 63, 2 ** 64 - 1]
    for o in offs + [rng.randrange(2 ** 64) for _ in range(ctx.n(300, 5000))]:
        ops.append("PE %d" % o)
        ops.append("PD " + hx(gen.token_of(o)))
    for t in gen.BAD_TOKENS + ["", "AAAAAAAAAAA=", "AAAAAAAAAAE=", "AAAAAAAAAAI=", "/////////w==", "//////////8="]:
        ops.append("PD " + hx(t))
    alphabet = "AQgw/+=9"
    for _ in range(ctx.n(1500, 30000)):
        n = rng.choice([0, 4, 8, 11, 12, 12, 12, 13, 16])
        s = "".join(rng.choice(alphabet) for _ in range(n))
        if n == 12 and rng.random() < 0.5:
            s = s[:11] + "="
        ops.append("PD " + hx(s))
    for size in [-2147483648, -1, 0, 1, 20, 1000, 1001, 2147483647]:
        for tok in ["", gen.token_of(0), gen.token_of(7), "zz", "AAAAAAAAAAA"]:
            ops.append("PG %d %s" % (size, hx(tok)))
    for cnt in [0, 1, 5, 20, 21, 45]:
        for size in [0, 1, 2, 19, 20, 21, 1000, 5000]:
            for off in ["-", "0", "1", str(cnt - 1 if cnt else 0), str(cnt), str(cnt + 1), str(2 ** 64 - 1)]:
                ops.append("PP %d %d %s" % (cnt, size, off))
    ops = list(dict.fromkeys(ops))
    return ctx.pure("paging-pure", ops, monitor=M.mon_paging_pure)


def eng_paging_walks(ctx):
    counts = [0, 1, 2, 19, 20, 21, 41] if not ctx.thorough else list(range(0, 46)) + [60]
    sizes = [-1, 0, 1, 7, 20, 21, 1000, 1001] if not ctx.thorough else [-1, 0, 1, 2, 3, 19, 20, 21, 44, 45, 46, 1000, 1001,
                                                                          2147483647]
    cases = seeded(gen.paging_walk_cases(counts, sizes, seed=ctx.seed))
    def mon2(ops, lines):
        # a first page without a next token is a complete listing: it must equal the live set
        return M.mon_walk(ops, lines) or M.mon_namespace(ops, lines)
    out = ctx.seq("paging-walks", cases, relevant={"LT", "LS", "LTS", "CT", "CS", "DT", "DS"},
                  triggers={"LT", "LS", "LTS"}, monitor=mon2)
    if out:
        return out
    cases = seeded(gen.big_walk_cases(sizes=(1001, 2147483647, 250, 124) if not ctx.thorough else (1000, 1001, 5000, 10001, 2147483647, 250, 124, 31, 255)))
    return ctx.seq("paging-big", cases, relevant={"LT", "LS", "LTS"}, triggers={"LT", "LS", "LTS"}, monitor=M.mon_walk,
                   always_monitor=True)


def eng_capacity(ctx):
    backlogs = [0, 1, 2, 999, 1000, 1001, 1500] if not ctx.thorough else [0, 1, 2, 999, 1000, 1001, 1500, 2500, 65535, 65536, 65541]
    maxes = [1, 2, 1000, 1001, 1400, 65535, 65536, 65537, 131072, 2147483647]
    if ctx.thorough:
        maxes += [3, 999, 2000, 5000, 196608, 0, -1]
    # the extracted model handles a batch of n messages in O(n^2) (sorted association lists): backlogs beyond the
    # 16-bit range meet only the limits that keep the batch small, plus one 5000-message batch
    small = [b for b in backlogs if b < 60000]
    cases = seeded(gen.capacity_cases(small, maxes))
    if ctx.thorough:
        cases += seeded(gen.capacity_cases([b for b in backlogs if b >= 60000], [1, 2, 65536, 65537, 131072, 196608, 0]))
        cases += seeded(gen.capacity_cases([65541], [5000], prefix="capfull"))   # larger batches overflow the driver's stack
    if not ctx.thorough:
        # one backlog larger than the 16-bit range in the quick tier too: a limit that wraps to 0 must not release it
        cases += seeded(gen.capacity_cases([65540], [65536], prefix="capx"))
    out = ctx.seq("capacity", cases, relevant={"PULL", "STATS", "PUB", "PUBN"}, triggers={"PULL"}, monitor=M.mon_batch,
                  always_monitor=True)
    if out:
        return out
    smax = [0, 1, 2, 1000, 1001, 1400, 65535, 65536, -1, 2147483647]
    cases = seeded(gen.stream_capacity_cases([0, 1, 5, 1001, 1500] if not ctx.thorough else [0, 1, 5, 1001, 1500, 2500], smax))
    return ctx.seq("stream-capacity", cases, relevant={"SO", "SR", "STATS"}, triggers={"SR"}, monitor=M.mon_batch)


def eng_malformed(ctx):
    cases = gen.malformed_cases(ctx.seed, ctx.n(200, 5000))
    return ctx.seq("malformed", cases, relevant=None, triggers={"GT", "GS", "PUB"}, monitor=M.mon_malformed)


def eng_payload(ctx):
    cases = seeded(gen.payload_cases(ctx.seed, ctx.n(120, 3000)))
    return ctx.seq("payload", cases, relevant={"PUB", "PULL", "SR", "GS"}, triggers={"PULL"}, monitor=M.mon_payload)


def eng_codec_pure(ctx):
    rng = random.Random(ctx.seed + 3)
    ops = []
    for t in [0, 1, 2, 3, 4294967295, 65536]:
        for c in [0, 1, 2, 4294967295, 4294967294, 65536]:
            ops.append("MI %d %d" % (t, c))
    for _ in range(ctx.n(500, 20000)):
        ops.append("MI %d %d" % (rng.randrange(2 ** 32), rng.randrange(2 ** 32)))
    for s in gen.BAD_ACK_IDS + gen.ODD_OK_ACK_IDS + ["7", "00", "+", "+-1", "18446744073709551615", "18446744073709551616",
                                                       "1" * 25, "٣", "１"]:
        ops.append("AI " + hx(s))
    for _ in range(ctx.n(500, 20000)):
        ops.append("AI " + hx("".join(rng.choice("0123456789+- x") for _ in range(rng.randrange(0, 22)))))
    for s in ["", "http", "http://x", " https://a.b/c ", "ftp://x", "HTTP://x", "\thttp://t\n", "xhttp://"]:
        ops.append("PC " + hx(s))
    for s in ["projects/p", "projects/", "projects", "", "projects/p/q", "Projects/p"]:
        ops.append("PJ " + hx(s))
    ops = list(dict.fromkeys(ops))
    return ctx.pure("codec-pure", ops)


def reg(pid, engines, rule, monitor, title, design_ref, technique, level_text, level_note, assumptions=None, **kw):
    prop(pid, theorems=THEOREMS[pid], engines=engines, rule=rule, monitor=monitor, assumptions=assumptions or [],
         title=title, design_ref=design_ref, technique=technique, level_text=level_text, level_note=level_note, **kw)


SEQ_NOTE = ("The theorems are about the Coq model; the model is tied to /repo on every run by executing the same case "
            "files on the extracted model and on the real server (gRPC in-process, paused clock, fresh process per "
            "case) and comparing every relevant result line. Schedules are those of one request at a time run to "
            "quiescence; interleavings of concurrent requests are the business of the concurrent models.")

CSUB_NOTE = ("The concurrent theorems are about a small-step Coq model of ONE subscription (tokio Notify modelled exactly: "
             "permit, FIFO waiters, notify_waiters counter, forwarding on drop; the actor with its bounded mailbox; unary and "
             "streaming consumers at the granularity of their await points; cancellation, the 300 s limit and the deleted "
             "branch as steps). It is hand-written from subscription_actor.rs, api/subscriber.rs and tokio's notify.rs and "
             "is tied to the code on every run at poll granularity (stream concsub-polls: the server's own unary Pull "
             "handlers held and polled one poll at a time by the harness, dropped at chosen points, the mailbox filled, "
             "the runtime run only when the schedule says so; the extracted model Model/CsDriver.v must give the same "
             "answers, docs/FORMAT-cs.md). Streaming consumers and interleavings finer than one poll (multi-thread "
             "runtime) are covered by the theorems only; the refutation theorem for the pinned code was replayed on the "
             "implementation and failed there exactly as predicted (and no longer fails after fix fd73b54).")

def eng_stream_enum(mon):
    def eng(ctx):
        cases = gen.stream_enum_cases(ctx.n(3, 4))

        def mon2(ops, lines):
            return mon(ops, lines) or M.mon_fanout(ops, lines)
        out = ctx.seq("stream-enum", cases, relevant=DATA_OPS, triggers={"SS"}, monitor=mon2)
        ctx.stats["streams"]["stream-enum"]["exhaustive_depth"] = ctx.n(3, 4)
        return out
    eng.__name__ = "eng_stream_enum"
    return eng


def eng_big_ack(ctx):
    cases = [(c, gen.with_drain(o)) for c, o in gen.big_ack_cases()]

    def mon2(ops, lines):
        return M.mon_ack_final(ops, lines) or M.mon_fanout(ops, lines)
    return ctx.seq("big-ack", cases, relevant=DATA_OPS, triggers={"ACK"}, monitor=mon2)


def eng_pushstress(ctx):
    """Multi-thread runtime: the real push loop at 1 ms while four tasks create, use and delete push subscriptions;
    a watchdog outside the runtime reports requests that never complete.  A stress search: it can only find."""
    ms = ctx.n(2500, 30000)
    p = sh([HARNESS, "pushstress", str(ms), "4"], check=False, timeout=3000)
    m = re.search(r"PUSHSTRESS completed=(\d+) hung=(\d)", p.stdout or "")
    st = ctx.stats
    st["evaluations"] += int(m.group(1)) if m else 0
    st["streams"]["pushstress"] = {"cases": int(m.group(1)) if m else None, "hung": int(m.group(2)) if m else None}
    if not m:
        return [("engine", "pushstress did not finish", {"output": (p.stdout or "")[-2000:], "signature": "engine:pushstress"})]
    st["distinct"].add("pushstress")
    if m.group(2) == "1":
        why = ("C07-pending: with the push loop running and push subscriptions being created and deleted concurrently "
               "(multi-thread runtime) no request completed for 15 s after %s had completed: requests wait for ever" % m.group(1))
        return [("violation", "pushstress: " + why,
                 {"engine": "pushstress", "failing_input_found": True, "monitor": why, "signature": "monitor:C07-pending",
                  "replay_cmd": ".cache/target/release/harness pushstress %d 4" % ms, "output": (p.stdout or "")[-2000:],
                  "broken": "stress search on the implementation (multi-thread runtime)"})]
    return []


def eng_stream_flood(ctx):
    """99..130 StreamingPull streams open at once on one connection, then the calls they are waiting for."""
    cases = gen.stream_flood_cases((99, 100, 101, 130) if not ctx.thorough else (99, 100, 101, 130, 257, 1001))
    return ctx.seq("stream-flood", cases, triggers={"SO"}, monitor=M.mon_no_hang, always_monitor=True, model_free=True)


def eng_busy_lists(ctx):
    """List calls issued while other requests are on their way to the listed resources."""
    cases = gen.busy_list_cases()
    return ctx.seq("busy-lists", cases, relevant={"LS", "LTS", "LT"}, triggers={"LS", "LTS", "LT"}, monitor=M.mon_creation_order,
                   always_monitor=True)


def eng_many_topics(ctx):
    """24 topics x 12 Publish calls: topic ids and per-topic counters both pass 10 and 20."""
    cases = gen.many_topics_cases()
    return ctx.seq("many-topics", cases, relevant={"PUB", "PULL"}, triggers={"PULL"}, monitor=M.mon_payload, always_monitor=True)


def eng_create_vs_delete_topic(ctx):
    """CreateSubscription racing the DeleteTopic of its topic."""
    cases = gen.create_vs_delete_topic_cases(range(0, 10) if not ctx.thorough else range(0, 40))
    return ctx.seq("create-vs-delete-topic", cases, triggers={"JOIN"}, monitor=M.mon_racing_namespace, always_monitor=True,
                   model_free=True)


def eng_abandoned_delete_during_create(ctx):
    """A DeleteSubscription abandoned while waiting for room in the mailbox of a subscription whose attachment is
    still on its way: it has no effect."""
    cases = gen.abandoned_delete_during_create_cases()
    return ctx.seq("abandoned-delete-during-create", cases, triggers={"SEQ"}, monitor=M.mon_exists_attached, always_monitor=True,
                   model_free=True)


def eng_registry_enum(ctx):
    """All lifecycle sequences of one push/pull subscription name and its topic, the push registry read after each step."""
    cases = gen.registry_enum_cases(ctx.n(4, 5))
    out = ctx.seq("registry-enum", cases, relevant={"CS", "DS", "DT", "CT", "REG", "GS", "LTS", "LS"}, triggers={"REG"},
                  monitor=M.mon_namespace, always_monitor=True)
    ctx.stats["streams"]["registry-enum"]["exhaustive_depth"] = ctx.n(4, 5)
    return out


def eng_orphan_wait(ctx):
    """Blocking Pulls on a subscription whose topic is gone: they wait for the nack / the expiry / their limit."""
    cases = gen.orphan_wait_cases()

    def mon2(ops, lines):
        return M.mon_blocking_empty(ops, lines) or M.mon_wait(ops, lines)
    return ctx.seq("orphan-wait", cases, relevant=WAIT_OPS, triggers={"JOIN"}, monitor=mon2, always_monitor=True)


def eng_control_shape(ctx):
    """Every shape (0..2 ack ids x 0..2 modify ids x 0..2 seconds) of a follow-up StreamingPull control message."""
    cases = gen.control_shape_cases()
    return ctx.seq("control-shape", cases, relevant=DATA_OPS | {"GT"}, triggers={"SS"}, monitor=M.mon_control_shape, always_monitor=True)


def eng_publish_vs_delete_topic(ctx):
    """A Publish racing the DeleteTopic of its topic."""
    cases = gen.publish_vs_delete_topic_cases(range(0, 10) if not ctx.thorough else range(0, 40))
    return ctx.seq("publish-vs-delete-topic", cases, triggers={"JOIN"}, monitor=M.mon_ids_unique, always_monitor=True, model_free=True)


def eng_delete_both(ctx):
    """DeleteTopic racing DeleteSubscription, with consumers waiting on the subscription."""
    cases = gen.delete_both_cases(range(0, 8) if not ctx.thorough else range(0, 30))
    return ctx.seq("delete-both", cases, triggers={"JOIN"}, monitor=M.mon_delete_both, always_monitor=True, model_free=True)


def eng_ordering_keys(ctx):
    """Publish requests whose messages carry ordering keys (the emulator has no ordered delivery: keys change nothing)."""
    cases = gen.ordering_key_cases()
    return ctx.seq("ordering-keys", cases, triggers={"PULL"}, monitor=M.mon_request_order, always_monitor=True, model_free=True)


def eng_topicstress(ctx):
    """OS threads creating topics at the same instant (barrier), then one Publish per topic: message ids must be
    pairwise distinct and each subscription must receive its own topic's message.  A stress search: it can only find."""
    rounds = ctx.n(100, 2000)
    p = sh([HARNESS, "topicstress", str(rounds), "8"], check=False, timeout=3000)
    m = re.search(r"TOPICSTRESS rounds=(\d+) topics=(\d+) duplicate_ids=(\d+) wrong_delivery=(\d+)", p.stdout or "")
    st = ctx.stats
    st["evaluations"] += int(m.group(2)) if m else 0
    st["streams"]["topicstress"] = {"cases": int(m.group(2)) if m else None, "duplicate_ids": int(m.group(3)) if m else None,
                                    "wrong_delivery": int(m.group(4)) if m else None}
    if not m:
        return [("engine", "topicstress did not finish", {"output": (p.stdout or "")[-2000:], "signature": "engine:topicstress"})]
    st["distinct"].add("topicstress")
    if int(m.group(3)) or int(m.group(4)):
        why = ("C09-id-reused: with topics created concurrently from %d threads, %s message ids were returned for messages of "
               "two different topics and %s subscriptions did not receive the id their Publish returned (of %s topics)"
               % (8, m.group(3), m.group(4), m.group(2)))
        return [("violation", "topicstress: " + why,
                 {"engine": "topicstress", "failing_input_found": True, "monitor": why, "signature": "monitor:C09-id-reused",
                  "replay_cmd": ".cache/target/release/harness topicstress %d 8" % rounds, "output": (p.stdout or "")[-2000:],
                  "broken": "stress search on the implementation (OS threads)"})]
    return []


def eng_nsstress(ctx):
    """Multi-thread runtime: tasks create, delete and look up topics and subscriptions over small pools of names at
    the same time (library API).  Read afterwards: no call is left without an answer (C07); per name, successful
    creates minus successful deletes is 0 or 1 and says whether the name exists (C10: linearizable per name); at
    quiescence the topic and the manager list exactly the subscriptions that exist (C11); a final Publish per topic
    gets ids no other topic issued and reaches every surviving subscription (C09, C01).  A stress search."""
    ms = ctx.n(2000, 20000)
    p = sh([HARNESS, "nsstress", str(ms), "8"], check=False, timeout=3000)
    out = p.stdout or ""
    m = re.search(r"NSSTRESS ops=(\d+) count_mismatch=(\d+) listing_mismatch=(\d+) not_delivered=(\d+) duplicate_ids=(\d+)", out)
    h = re.search(r"NSSTRESS hung=1 phase=(\d+) ops=(\d+) in_flight\S*=(\[.*?\])", out)
    st = ctx.stats
    s = st["streams"].setdefault("nsstress", {"cases": 0})
    pid = ctx.pid if hasattr(ctx, "pid") else "?"
    if h:
        s.update({"cases": int(h.group(2)), "hung": 1})
        st["evaluations"] += int(h.group(2))
        why = ("C07-pending: with topics and subscriptions being created, deleted and looked up concurrently (multi-thread "
               "runtime) calls were left without an answer for ever after %s operations; in flight per kind (create topic x2, "
               "delete topic, create subscription x2, delete subscription, get, list): %s" % (h.group(2), h.group(3)))
        return [("violation", "nsstress: " + why,
                 {"engine": "nsstress", "failing_input_found": True, "monitor": why, "signature": "monitor:C07-pending",
                  "replay_cmd": ".cache/target/release/harness nsstress %d 8" % ms, "output": out[-2000:],
                  "broken": "stress search on the implementation (multi-thread runtime)"})]
    if not m:
        return [("engine", "nsstress did not finish", {"output": out[-2000:], "signature": "engine:nsstress"})]
    st["evaluations"] += int(m.group(1))
    s.update({"cases": int(m.group(1)), "count_mismatch": int(m.group(2)), "listing_mismatch": int(m.group(3)),
              "not_delivered": int(m.group(4)), "duplicate_ids": int(m.group(5))})
    st["distinct"].add("nsstress")
    bad = [(int(m.group(2)), "C10-not-linearizable: for %s name(s) the successful creates minus the successful deletes is not "
                             "0 or 1, or does not say whether the name exists at the end (e.g. two racing deletes of one name "
                             "both answered OK)" % m.group(2)),
           (int(m.group(3)), "C11-listing: at quiescence %s listing(s) differ from the set of subscriptions that exist" % m.group(3)),
           (int(m.group(4)), "C01-not-delivered: %s surviving subscription(s) did not receive the final Publish of their topic" % m.group(4)),
           (int(m.group(5)), "C09-id-reused: %s message id(s) were issued by two topics" % m.group(5))]
    hits = [w for n, w in bad if n]
    if hits:
        detail = "; ".join(l for l in out.splitlines() if "creates - deletes" in l or "lists" in l or "issued by" in l)[:600]
        why = hits[0] + (" [" + detail + "]" if detail else "")
        return [("violation", "nsstress: " + why,
                 {"engine": "nsstress", "failing_input_found": True, "monitor": why, "signature": "monitor:" + why.split(":")[0],
                  "replay_cmd": ".cache/target/release/harness nsstress %d 8" % ms, "output": out[-3000:],
                  "broken": "stress search on the implementation (multi-thread runtime)"})]
    return []


def _stress(ctx, name, args, pattern, fields, judge, replay_name=None):
    """Runs one stress subcommand of the harness, records its counters, and turns what `judge` finds into a violation."""
    p = sh([HARNESS, name] + [str(a) for a in args], check=False, timeout=3000)
    out = p.stdout or ""
    m = re.search(pattern, out)
    st = ctx.stats
    if not m:
        return [("engine", "%s did not finish" % name, {"output": out[-2000:], "signature": "engine:" + name})]
    vals = dict(zip(fields, (int(x) for x in m.groups())))
    st["evaluations"] += vals.get(fields[0], 0)
    st["streams"][name] = dict(vals, cases=vals.get(fields[0], 0))
    st["distinct"].add(name)
    why = judge(vals, out)
    if why:
        return [("violation", "%s: %s" % (name, why),
                 {"engine": name, "failing_input_found": True, "monitor": why, "signature": "monitor:" + why.split(":")[0],
                  "replay_cmd": ".cache/target/release/harness %s %s" % (name, " ".join(str(a) for a in args)),
                  "output": out[-3000:], "broken": "stress search on the implementation (multi-thread runtime)"})]
    return []


def eng_datastress(ctx):
    """Multi-thread runtime, shorter than an ack deadline: publishers, and consumers that ack / nack / extend, on two
    subscriptions, time-stamped with one logical clock.  A stress search: it can only find."""
    def judge(v, out):
        if "inconclusive" in out:
            return None
        first = next((l for l in out.splitlines() if l.startswith("subscription ")), "")
        if v["lost"]:
            return "C01-lost: %d published message(s) were never delivered on a subscription attached throughout [%s]" % (v["lost"], first[:200])
        if v["double_lease"]:
            return ("C03-double-lease: %d message(s) were handed out again although their previous delivery had not been "
                    "nacked and its lease was running [%s]" % (v["double_lease"], first[:200]))
        if v["after_ack"]:
            return "C02-redelivered-after-ack: %d deliveries started after an acknowledgement of the message had returned [%s]" % (v["after_ack"], first[:200])
        if v["dup_ack_ids"]:
            return "C03-ack-id-reused: %d ack ids were handed out twice" % v["dup_ack_ids"]
        if v["wrong_payload"]:
            return "C09-payload: %d message(s) were delivered with a payload other than the one published under their id" % v["wrong_payload"]
        return None
    return _stress(ctx, "datastress", [ctx.n(1500, 6000), 8],
                   r"DATASTRESS published=(\d+) deliveries=(\d+) lost=(\d+) dup_ack_ids=(\d+) double_lease=(\d+) after_ack=(\d+) wrong_payload=(\d+)",
                   ["published", "deliveries", "lost", "dup_ack_ids", "double_lease", "after_ack", "wrong_payload"], judge)


def eng_mailstress(ctx):
    """Multi-thread runtime: four lanes, each round after round: six tasks holding the subscription handle call it in a
    closed loop while it is deleted; every call must be answered (the shutdown of the actor's mailbox strands nothing).  A stress search."""
    def judge(v, out):
        if v["hung"]:
            return ("C07-pending: after the deletion of a subscription %d of the 6 callers that hold its handle were still "
                    "without an answer 15 s later (round %d, %d calls answered before)" % (v["pending"], v["rounds"], v["calls"]))
        return None
    return _stress(ctx, "mailstress", [ctx.n(6000, 30000), 8], r"MAILSTRESS rounds=(\d+) calls=(\d+) hung=(\d+) pending=(\d+)",
                   ["rounds", "calls", "hung", "pending"], judge)


def eng_grpcstress(ctx):
    """Multi-thread runtime, the real gRPC handlers: consumers on a subscription that two DeleteSubscription calls
    delete at the same time, with Get / Acknowledge racing them.  A stress search: it can only find."""
    def judge(v, out):
        first = next((l for l in out.splitlines() if l.startswith("round ")), "")
        if v["hung"]:
            return "C07-pending: %d call(s) had no answer after 15 s [%s]" % (v["hung"], first[:200])
        if v["stream_not_ended"] or v["pull_not_released"]:
            return ("C12-not-released: %d stream(s) still open and %d blocked Pull(s) still waiting 15 s after their "
                    "subscription was deleted [%s]" % (v["stream_not_ended"], v["pull_not_released"], first[:200]))
        if v["stream_wrong_status"]:
            return "C12-stream-status: %d stream(s) ended with a status other than NOT_FOUND after the deletion [%s]" % (v["stream_wrong_status"], first[:200])
        if v["delete_answers_bad"]:
            return ("C10-delete-not-atomic: in %d round(s) the two racing DeleteSubscription calls did not answer one OK and "
                    "one NOT_FOUND [%s]" % (v["delete_answers_bad"], first[:200]))
        if v["still_there"]:
            return "C10-delete-not-observed: in %d round(s) GetSubscription still found the subscription after both deletions had returned" % v["still_there"]
        return None
    return _stress(ctx, "grpcstress", [ctx.n(1500, 20000), 8],
                   r"GRPCSTRESS rounds=(\d+) hung=(\d+) stream_not_ended=(\d+) stream_wrong_status=(\d+) pull_not_released=(\d+) delete_answers_bad=(\d+) still_there=(\d+)",
                   ["rounds", "hung", "stream_not_ended", "stream_wrong_status", "pull_not_released", "delete_answers_bad", "still_there"], judge)


def eng_deletestress(ctx):
    """Closed-loop publishers on one topic and a DeleteSubscription in their midst (current-thread runtime): the number
    of Publish calls that complete before the deletion returns is bounded by what was queued ahead of it."""
    out = []
    for pubs in ((24, 40) if not ctx.thorough else (17, 24, 40, 96)):
        rounds = ctx.n(20, 200)
        p = sh([HARNESS, "deletestress", str(rounds), str(pubs)], check=False, timeout=3000)
        m = re.search(r"DELETESTRESS rounds=(\d+) publishers=(\d+) max_overtaken=(\d+) bound=(\d+) unfinished=(\d+)", p.stdout or "")
        st = ctx.stats
        st["evaluations"] += rounds
        s = st["streams"].setdefault("deletestress", {"cases": 0, "max_overtaken": 0})
        s["cases"] += rounds
        if not m:
            return [("engine", "deletestress did not finish", {"output": (p.stdout or "")[-2000:], "signature": "engine:deletestress"})]
        s["max_overtaken"] = max(s["max_overtaken"], int(m.group(3)))
        st["distinct"].add("deletestress-%d" % pubs)
        if int(m.group(3)) > int(m.group(4)) or int(m.group(5)):
            why = ("C07-delete-starved: with %s closed-loop publishers on the topic, a DeleteSubscription returned only after "
                   "%s further Publish calls had completed (bound for what can be queued ahead of it: %s); %s deletions had "
                   "not returned when every publisher was done" % (m.group(2), m.group(3), m.group(4), m.group(5)))
            out.append(("violation", "deletestress: " + why,
                        {"engine": "deletestress", "failing_input_found": True, "monitor": why, "signature": "monitor:C07-delete-starved",
                         "replay_cmd": ".cache/target/release/harness deletestress %d %d" % (rounds, pubs),
                         "output": (p.stdout or "")[-2000:], "broken": "stress search on the implementation (deterministic scheduling)"}))
            break
    return out


def eng_modify_batches(ctx):
    cases = gen.modify_batch_cases()
    if not ctx.thorough:
        cases = cases[::2]
    return ctx.seq("modify-batches", cases, relevant=DATA_OPS, triggers={"SS"}, monitor=M.mon_exclusive)


def eng_big_chain(ctx):
    cases = gen.big_chain_cases()
    return ctx.seq("big-chain", cases, triggers={"JOIN"}, monitor=M.mon_wait, always_monitor=True, model_free=True)


def eng_pull_limit(ctx):
    cases = gen.pull_limit_cases()
    return ctx.seq("pull-limit", cases, relevant={"JOIN", "STATS"}, triggers={"JOIN"}, monitor=M.mon_pull_limit,
                   always_monitor=True)


def eng_id_lists(mon, kinds):
    def eng(ctx):
        cases = [(c, gen.with_drain(o)) for c, o in gen.id_list_cases() if c.split("-")[1] in kinds]

        def mon2(ops, lines):
            # what the request left untouched must still come back: the loss reading of the drain epilogue
            return mon(ops, lines) or M.mon_fanout(ops, lines)
        return ctx.seq("id-lists", cases, relevant=DATA_OPS, triggers={"ACK", "MOD", "SS", "SR"}, monitor=mon2)
    eng.__name__ = "eng_id_lists"
    return eng


def eng_subset_lists(mon, kinds):
    """One request naming every ordered subset of 1..3 of four live deliveries (one batch, or two batches 40 ms apart),
    then both deadlines and a drain."""
    def eng(ctx):
        cases = [(c, gen.with_drain(o)) for c, o in gen.subset_list_cases() if c.split("-")[1] in kinds]

        def mon2(ops, lines):
            return mon(ops, lines) or M.mon_fanout(ops, lines)
        return ctx.seq("subset-lists", cases, relevant=DATA_OPS, triggers={"ACK", "MOD", "SS", "SR"}, monitor=mon2)
    eng.__name__ = "eng_subset_lists"
    return eng


reg("C02", [eng_id_lists(M.mon_ack_final, ("ack", "sack", "sackmod")), eng_subset_lists(M.mon_ack_final, ("ack", "sack")), eng_data_enum(M.mon_ack_final, {"ACK"}),
            eng_data_random(M.mon_ack_final, {"ACK"}, streams=True, tag="data-stream-random"),
            eng_stream_enum(M.mon_ack_final), eng_big_ack, lambda ctx: eng_datastress(ctx), lambda ctx: eng_abandon(ctx),
            lambda ctx: eng_late_ack(ctx)],
    rule="id-lists: Acknowledge (unary and streaming) with every id list of length 1..3 over {stale, live, live, unknown, "
         "oddly spelled live}, then expiry and drain; data-enum: every sequence over {pub, pub2, pull1, pullN, ack-last, ack-first, ack-unknown, nack, modify, +5.1s, +10.1s} "
         "up to the depth noted, STATS after every step, final drain; data-stream-random: random scripts with unary and "
         "streaming acks. distinct = distinct op lists; non-trivial = contains an Acknowledge answered OK",
    monitor=M.mon_ack_final, title="Acknowledgement is final and affects only that delivery", design_ref="7/C02",
    technique="Coq: tracker invariant by induction over actor turns and over server histories, frame/inertness lemmas, "
              "history theorem for finality; differential correspondence (exhaustive short sequences + random)",
    level_text="Proved for every reachable state / every turn sequence of the model: tracker coherence (the safety condition "
               "of unwrap_unchecked), ack frame, ack inertness, finality of an ack over all continuations, locality to one "
               "subscription. " + SEQ_NOTE,
    level_note="C02_final carries the hypotheses that the ids a subscription holds are distinct and that later posts "
               "never reuse the id; C02_ids_distinct discharges them along every server history whose per-topic message "
               "counters stay below 2^32 (the u32 counter of the Rust). "
               "What 'the call has returned' means is Model/ReqResp.v (every schedule of send / serve / receive / expiry: with the caller "
               "waiting for the actor's answer the request is applied before the call returns); that the code's request methods "
               "are send-then-recv is read off subscription.rs on every run (Gen/AckCheck.v against the generated suspension "
               "points), and the late-ack stream moves the clock right after Acknowledge has returned.",
    generated=[("call-waits-for-actor", lockgate.ack_gate, "AckCheck")])

reg("C03", [eng_data_random(M.mon_exclusive, {"PULL"}, tag="data-random"),
            eng_data_random(M.mon_exclusive, {"SR", "PULL"}, streams=True, tag="data-stream-random"),
            eng_data_enum(M.mon_exclusive, {"PULL"}),
            eng_deadline_probes((None,), M.mon_exclusive, "lease-probes"), eng_modify_batches,
            lambda ctx: eng_abandon(ctx), lambda ctx: eng_datastress(ctx)],
    rule="random scripts with pulls of several sizes, nacks, expiry and streams on one subscription; exhaustive short "
         "sequences; lease-probes: two leases handed out 40/70 ms apart at every phase of the 100 ms deadline grid, a "
         "third consumer pulling 1 ms before, at and 1 ms after each deadline. non-trivial = contains a Pull/stream response with at least one message",
    monitor=M.mon_exclusive, title="A delivered message is exclusively leased until its deadline", design_ref="7/C03",
    technique="Coq: fresh ack ids over all turn sequences, lease persistence, pull never hands out a leased message; "
              "differential correspondence",
    level_text="Proved for all turn sequences of one subscription actor (every consumer kind goes through these serialised "
               "turns: C03_turns): strictly increasing ack ids, no leased message is handed out, a lease persists through "
               "every turn that does not end it, no duplicate in a response. " + SEQ_NOTE,
    level_note="Interleavings of several concurrent consumers are covered by the fact that the actor serialises turns "
               "(model structure), validated on the real server only with one request in flight at a time.")

reg("C04", [eng_deadline_pure, eng_deadline_probes((None,), M.mon_deadline, "deadline-probes"),
            eng_data_random(M.mon_deadline, {"PULL"}, tag="data-random"), eng_expiry_load,
            lambda ctx: eng_expiry_with_backlog(ctx)],
    rule="expiry-load: 255..5000 leases running out at one instant while requests arrive at that moment, then a drain; "
         "deadline-pure: AckDeadline::new on every ms phase, sub-ms and sub-us offsets and random instants; "
         "deadline-probes: per hand-out phase and ack deadline, two coexisting leases probed 1 ms before, at and 1 ms "
         "after each deadline. non-trivial = a delivery happened",
    monitor=M.mon_deadline, title="Unacked deliveries are redelivered at the ack deadline, never earlier", design_ref="7/C04",
    technique="Coq: arithmetic of the rounding (lia), expiry turn specification, timer/tick lemmas, quiescence lemma; "
              "differential correspondence incl. probes around every deadline",
    level_text="Proved: deadline = round(now + max(10,dl)) with t <= round t < t + 100 ms for every instant; a lease "
               "survives every turn before its deadline; an expiry turn requeues exactly the overdue leases; the timer "
               "has fired by the first 1 ms tick at/after the deadline and then nothing overdue stays leased. " + SEQ_NOTE,
    level_note="Timer behaviour (1 ms ticks, firing order) is tokio's, assumed as modelled; validated by the probe stream.",
    generated=[("expiry-branch-unconditional", lockgate.expiry_gate, "ExpiryCheck")])


reg("C05", [eng_id_lists(M.mon_deadline, ("nack", "mod", "sackmod")), eng_subset_lists(M.mon_deadline, ("nack", "mod")), eng_deadline_pure, eng_deadline_probes((0, 1, 5, 30, 599, 600, 700, -1), M.mon_deadline, "modify-probes"),
            eng_data_random(M.mon_deadline, {"MOD"}, streams=True, tag="data-stream-random"),
            eng_data_enum(M.mon_deadline, {"MOD"}), eng_modify_batches, eng_stream_enum(M.mon_deadline)],
    rule="DX: parse of every boundary i32 and random values; modify-probes: a lease modified with N in "
         "{0,1,5,30,599,600,700,-1} three seconds after hand-out, probes around the new, the old and the neighbour's "
         "deadline; random scripts with unary and streaming modifications mixing live, stale, unknown and malformed ids. "
         "non-trivial = a ModifyAckDeadline answered OK",
    monitor=M.mon_deadline, title="ModifyAckDeadline replaces the deadline; zero means nack", design_ref="7/C05",
    technique="Coq: classification of N over all integers, single-modification specification, inertness, all-or-nothing "
              "parsing; differential correspondence",
    level_text="Proved: N classes for all integers; a modification of a live lease replaces its deadline by round(now+min(N,600)) "
               "or requeues it at once (N=0), touching nothing else; unknown ids are ignored; one malformed id or negative N "
               "rejects the whole request and changes nothing (unary and streaming). " + SEQ_NOTE,
    level_note="As C04 for time. "
               "What 'the call has returned' means is Model/ReqResp.v (every schedule of send / serve / receive / expiry: with the caller "
               "waiting for the actor's answer the request is applied before the call returns); that the code's request methods "
               "are send-then-recv is read off subscription.rs on every run (Gen/AckCheck.v against the generated suspension "
               "points), and the late-ack stream moves the clock right after Acknowledge has returned.",
    generated=[("call-waits-for-actor", lockgate.ack_gate, "AckCheck")])

def eng_push_late(ctx):
    return eng_push(ctx)


reg("C09", [eng_codec_pure, eng_payload, eng_data_random(M.mon_payload, {"PULL"}, streams=True, tag="data-stream-random"),
            eng_push_late, lambda ctx: eng_topicstress(ctx), lambda ctx: eng_many_topics(ctx),
            lambda ctx: eng_publish_vs_delete_topic(ctx)],
    rule="codec-pure: MessageId::new on boundary and random (tid, counter) pairs; payload: binary/empty/5 kB data, "
         "non-ASCII and empty attribute keys, two subscriptions, nack and expiry redelivery, topic delete + re-create; "
         "push: the HTTP push body (base64 data incl. bytes that map to the base64 digits 62/63, attributes, id) as "
         "received by the scripted endpoint. "
         "non-trivial = a delivery happened",
    monitor=M.mon_payload, title="Messages are delivered intact with a stable, globally unique identity", design_ref="7/C09",
    technique="Coq: records are moved never rebuilt (membership theorems), base64 round trip, injectivity of the id; "
              "differential correspondence of every field of every delivery",
    level_text="Proved: Publish stores one record per message with its data/attributes/publish token and consecutive ids; every "
               "delivery over any history is one of the posted records; base64 round trip for all byte strings; the id map "
               "is injective below 2^32 per topic and topic instance ids are never reused. " + SEQ_NOTE,
    level_note="HTTP push payload fields are checked by the push engine (C14), not here; counters >= 2^32 are outside the guard.")

def eng_racing_namespace(ctx):
    cases = gen.racing_namespace_cases(range(ctx.n(200, 4000)))
    return ctx.seq("racing-namespace", cases, relevant={"JOIN", "GS", "GT", "LS", "LT", "CT", "CS"}, triggers={"JOIN"},
                   monitor=M.mon_racing_namespace, always_monitor=True)


reg("C10", [lambda ctx: eng_control_enum(ctx), eng_control_random(M.mon_namespace, {"CT", "CS"}, always=True), eng_names_echo,
            eng_racing_namespace, lambda ctx: eng_nsstress(ctx), lambda ctx: eng_grpcstress(ctx),
            lambda ctx: eng_create_vs_delete_topic(ctx), lambda ctx: eng_stale_topic_delete(ctx)],
    rule="random control-plane scripts over 2 projects x 3 topics x 4 subscriptions with deletions, re-creations, "
         "cross-project and malformed names, interleaved with data-plane calls; racing-namespace: two or three clients "
         "that each do create-then-get or delete-then-get on ONE name, started without letting the runtime settle "
         "(seeded), with publishers keeping the topic busy - statuses are read off the answers on every case. "
         "non-trivial = a successful create",
    monitor=M.mon_namespace, title="Topic and subscription namespaces behave as atomic maps", design_ref="7/C10",
    technique="Coq: inductive control-plane invariant over all server histories, status/effect theorem per operation; "
              "differential correspondence of status codes and bodies",
    level_text="Proved for every reachable state: unique names and ids, creation order, exact attachment lists and registry; "
               "per operation the exact status (in the server's check order) and effect, NOT_FOUND on absent names, no "
               "effect on failure, read-back of stored attributes. " + SEQ_NOTE,
    level_note="Linearizability under truly concurrent requests is argued from the single lock-protected step per "
               "operation (DESIGN 7/C10); proved in the actor model only for the two-step operation: a CreateSubscription "
               "that has returned is observed by the topic at every later moment (C10c_create_observed); racing creates / "
               "deletes of one name are exercised by the racing-namespace stream.")

reg("C11", [lambda ctx: eng_control_enum(ctx), eng_control_random(M.mon_namespace, {"DT", "DS"}, always=True),
            eng_data_random(M.mon_namespace, {"DS", "DT"}, relevant=CTL_OPS | DATA_OPS, tag="data-random", always=True),
            lambda ctx: eng_create_delete_race(ctx), lambda ctx: eng_racestress(ctx), lambda ctx: eng_abandon(ctx),
            lambda ctx: eng_nsstress(ctx), lambda ctx: eng_registry_enum(ctx), lambda ctx: eng_create_vs_delete_topic(ctx)],
    rule="random scripts deleting and re-creating topics and subscriptions with publishes and pulls in between; "
         "ListTopicSubscriptions / GetSubscription / STATS after deletions. non-trivial = a successful delete",
    monitor=M.mon_namespace, title="Deletion keeps topics and subscriptions consistent with each other", design_ref="7/C11",
    technique="Coq: attachment invariant over all histories; differential correspondence",
    level_text="Proved for every reachable state: a live topic lists exactly the live subscriptions created on that instance; "
               "DeleteSubscription removes it from every list; DeleteTopic keeps the subscriptions, which then report the "
               "sentinel; a re-created namesake is a new instance with no subscription. " + SEQ_NOTE,
    level_note="Quiescent moments of concurrent histories: proved in the actor model (Props/C11_actors.v: at every quiescent "
               "reachable state of the repaired code a live topic lists exactly the existing, undeleted subscriptions created "
               "on it, for every interleaving incl. dropped callers; refuted for the code before fix 2446012), which is "
               "hand-written and tied to the code by the replayed refutations and the racestress / burst / abandon streams "
               "(DESIGN 9). 'Keeps serving the messages it holds' after DeleteTopic is a fact of the sequential model.")

reg("C13", [eng_paging_pure, eng_paging_walks, eng_control_random(M.mon_walk, {"LT", "LS", "LTS"}),
            lambda ctx: eng_busy_lists(ctx)],
    rule="paging-pure: token encode/decode on boundary and random offsets, random and near-miss token strings, "
         "parse_paging and Paging on all boundary sizes; paging-walks: full token walks of the three List RPCs for the "
         "counts and sizes noted, two projects, deletions before the walk, unissued and malformed tokens. "
         "non-trivial = a List call answered OK",
    monitor=M.mon_walk, title="Listing and pagination enumerate exactly the project's resources", design_ref="7/C13",
    technique="Coq: page-walk completeness by induction for all lists and sizes, token round trip, listing = creation "
              "order from the invariant; differential correspondence",
    level_text="Proved: for every list and page size the token walk yields every element once in order with bounded pages; "
               "every offset gives a valid page; tokens round-trip; rejects exactly negative sizes and undecodable tokens; the "
               "three List RPCs page through exactly the project's/topic's live resources in creation order. " + SEQ_NOTE,
    level_note="The base64 decoder model (strict canonical padding) is validated on random and near-miss strings.")

def eng_cs_late(ctx):
    return eng_cs(ctx)


reg("C15", [eng_capacity, eng_data_random(M.mon_batch, {"PULL"}, streams=True, tag="data-stream-random"), eng_cs_late,
            lambda ctx: eng_big_chain(ctx), lambda ctx: eng_boundary_counts(ctx), lambda ctx: eng_orphan_wait(ctx),
            lambda ctx: eng_woken_dropped(ctx), lambda ctx: eng_wait_push_sub(ctx), lambda ctx: eng_big_pull(ctx)],
    rule="capacity: backlog sizes around 0/1/1000 (thorough: 65535/65536/65541) x max_messages around 1, 1000, 65535, "
         "65536 multiples, i32::MAX; stream-capacity likewise for max_outstanding_messages. non-trivial = non-empty response",
    monitor=M.mon_batch, title="Pull batches respect their size limit and are empty only when allowed", design_ref="7/C15",
    technique="Coq: closed formula for the batch size with the 16-bit conversions, bounds by lia; differential correspondence",
    level_text="Proved for all i32 limits and all backlog sizes: the batch size formula, the unary bound (also where the "
               "16-bit conversion wraps), acceptance range and bound for streams, non-emptiness on a non-empty backlog. "
               + SEQ_NOTE,
    level_note="The rule about when a blocking Pull may answer empty is proved in the concurrent model of one subscription "
               "(C15c_*: only through its 300 s limit; an empty reply of the actor makes the consumer wait) and in the "
               "sequential model (WaitP); " + "it is exercised on the real server by the wait streams of C06.",
    generated=[("consumers-as-modelled", lockgate.consumer_gate, "ConsumerCheck")])

reg("C17", [eng_malformed, eng_names_pure, eng_codec_pure, lambda ctx: eng_boundary_counts(ctx),
            lambda ctx: eng_control_shape(ctx), lambda ctx: eng_registry_enum(ctx)],
    rule="malformed: per case a valid setup, then 3-8 requests each with one malformed field (names, ack ids, tokens, "
         "integers, push endpoints, inconsistent stream control messages with the bad element at a random position), STATS "
         "after each, then a health round trip and all listings. non-trivial = the health probe succeeded",
    monitor=M.mon_malformed, title="Malformed requests are rejected cleanly and change nothing", design_ref="7/C17",
    technique="Coq: every error branch returns the unchanged state (case analysis of the whole handler), parse failure "
              "lemmas; differential correspondence on a malformed-input stream",
    level_text="Proved: no handler touches the state before answering with an error; after an error the server is in the state "
               "it would be in without the request; malformed batch elements reject the batch; malformed stream control "
               "messages change no resource. Totality holds by construction (the model is a total function). " + SEQ_NOTE,
    level_note="Absence of panics in the Rust is checked by the harness (panic hook, hang detector), not proved.")

def mon_c01(ops, lines):
    return M.mon_fanout(ops, lines) or M.mon_payload(ops, lines)


def eng_capacity_drain(ctx):
    """Large backlogs against large and small batch limits, each followed by a full drain (nothing may be lost
    whatever the batch sizes were)."""
    backlogs = [999, 1000, 1001, 1500] if not ctx.thorough else [999, 1000, 1001, 1500, 2500, 5000]
    maxes = [1, 1000, 1001, 1400, 65535, 65537, 2147483647]
    cases = seeded(gen.capacity_cases(backlogs, maxes, prefix="capd", drain=True))
    if ctx.thorough:
        # one five-digit backlog (the extracted model's list operations make a 65541-message drain take an hour)
        cases += seeded(gen.capacity_cases([12000], [1001, 65537], prefix="capdx", drain=True))
    out = ctx.seq("capacity-drain", cases, relevant={"PULL", "STATS", "PUB", "PUBN"}, triggers={"PULL"}, monitor=mon_c01,
                  always_monitor=True)
    if out:
        return out
    cases = seeded([(c, gen.with_drain(o, pulls=5)) for c, o in
                    gen.stream_capacity_cases([5, 1001, 1500], [0, 1, 1000, 1001, 1400, 65535])])
    return ctx.seq("stream-capacity-drain", cases, relevant={"SO", "SR", "STATS", "PULL"}, triggers={"SR"},
                   monitor=mon_c01, always_monitor=True)


reg("C01", [lambda ctx: eng_control_enum(ctx),
            eng_data_random(mon_c01, {"PUB"}, streams=True, tag="data-stream-drain", drain=True, always=True),
            eng_control_random(mon_c01, {"PUB"}, drain=True, always=True), eng_data_enum(M.mon_payload, {"PUB"}),
            eng_capacity_drain, eng_expiry_load, lambda ctx: eng_abandon(ctx), lambda ctx: eng_datastress(ctx),
            lambda ctx: eng_push(ctx)],
    rule="random scripts with several subscriptions per topic, streams, nack/expiry cycles, deletions and re-creations of "
         "topic and subscription names, each followed by a drain (every lease left to run out, every stream read, every "
         "subscription pulled until an empty answer): mon_fanout reads off the implementation's answers that nothing "
         "foreign was delivered and nothing posted and unacknowledged is missing from the drain; capacity-drain: "
         "backlogs around 1000/1500 (thorough: 65535+) against batch limits 1..i32::MAX, then the drain. "
         "non-trivial = a Publish answered with ids",
    monitor=mon_c01, title="Fan-out without loss", design_ref="7/C01",
    technique="Coq: conservation of messages per subscription over all turn sequences, publish posts to exactly the "
              "attached subscriptions (attachment invariant); differential correspondence",
    level_text="Proved: a Publish appends the batch to exactly the subscriptions created on that topic instance and still "
               "live; over any history a subscription holds everything posted to it except what an Ack of a live lease "
               "removed; expiry requeues everything held; a pull on a non-empty queue delivers; nothing foreign is ever "
               "delivered. " + SEQ_NOTE,
    level_note="Concurrent reading: the actor model proves that a subscription whose CreateSubscription has returned is "
               "attached at every later reachable state until it is marked deleted (C01c_created_is_attached), and that a "
               "Publish posts to the attachment list the topic has when it handles it (model structure); message contents "
               "are abstract there, so 'no loss under concurrency' with concrete messages rests on the sequential theorems "
               "plus the concurrent-publish stream of C08 and the drain monitor.")


# ================================================================= C19 flow control (scheduled real threads)

def fc_diff(tag, cases):
    d = workdir(tag)
    cp = os.path.join(d, "cases.txt")
    open(cp, "w").write("".join("CASE %s\n%s\nEND\n" % (cid, "\n".join(lines)) for cid, lines in cases))
    io, mo = os.path.join(d, "impl.out"), os.path.join(d, "model.out")
    sh([HARNESS, "fcsched", cp, io], timeout=3000)
    sh([MODELDRV, "fc", cp, mo], timeout=3000)
    a, b = parse_results(io), parse_results(mo)
    bad = [(cid, lines, a.get(cid, ["<no result>"]), b.get(cid, ["<no result>"])) for cid, lines in cases
           if a.get(cid) != b.get(cid)]
    return bad, a, b


def mon_fc(lines, res):
    """C19 on the implementation's own output: at the end of the schedule, if no inc/dec is mid-flight and both
    counters are below their limits, nobody may be parked; and a parked thread never takes a step."""
    cfg = [int(x) for x in lines[0].split(" ")[1:]]
    kinds = [l.split(" ")[1] for l in lines[1:-1]]
    if any(r.startswith("!HANG") for r in res):
        return "C19-hang: a released thread never reached its next program point"
    for r in res:
        if r.startswith("!UNSAFE"):
            return "C19-resumed-without-space: waiter " + r[len("!UNSAFE "):]
    fin = res[-1].split(" ") if res else ["?"]
    if fin[0] != "FINAL":
        return None
    m, b, states = int(fin[1]), int(fin[2]), fin[3:]
    busy = any(k in "ID" and s in ("fetch_msgs", "notify") for k, s in zip(kinds, states))
    if not busy and m < cfg[0] and b < cfg[1] and "parked" in states:
        return ("C19-lost-wakeup: counters (%d msgs, %d bytes) are below the limits (%d, %d), no inc/dec is in progress, "
                "and a waiter is parked" % (m, b, cfg[0], cfg[1]))
    return None


def gen_fc_random(rng, i):
    nw, nm = rng.randrange(1, 4), rng.randrange(1, 4)
    maxm, maxb = rng.choice([1, 2, 5]), rng.choice([1, 8, 16])
    im, ib = rng.randrange(0, maxm + 2), rng.randrange(0, maxb + 3)
    th = ["T W"] * nw + ["T %s %d %d" % (rng.choice("IDD"), rng.randrange(0, maxb + 2), rng.randrange(0, maxm + 1))
                         for _ in range(nm)]
    rng.shuffle(th)
    sched = [str(rng.randrange(0, len(th) + (1 if rng.random() < 0.1 else 0))) for _ in range(rng.randrange(20, 80))]
    if i % 2 == 0:
        # let everything run out afterwards (round robin): every inc / dec completes, every waiter that can return
        # does, so the final state is conclusive for the lost-wake-up reading
        sched += [str(k) for _ in range(8) for k in range(len(th))]
    return ("fr%d" % i, ["CFG %d %d %d %d" % (maxm, maxb, im, ib)] + th + ["SCHED " + " ".join(sched)])


def gen_fc_three_party(rng, i):
    """One below full; an inc that fills, a dec that frees, one or two waiters: random orders of their ~15 atomic steps,
    then everything runs out (round robin).  The window in which a releaser decides on stale information whether
    anybody needs waking lies in these orders."""
    maxm, maxb = rng.choice([(5, 16), (2, 8), (3, 1)])
    by_bytes = rng.random() < 0.6 and maxb > 1
    im, ib = (1, maxb - 1) if by_bytes else (maxm - 1, 0)
    if i % 3 == 0:
        im, ib = 0, 0            # a dec that runs before its inc wraps the counter: full until the inc lands
    delta = "1 0" if by_bytes else "0 1"
    th = ["T W"] * rng.choice([1, 1, 2]) + ["T I " + delta, "T D " + delta]
    rng.shuffle(th)
    sched = [str(rng.randrange(0, len(th))) for _ in range(rng.randrange(10, 22))]
    sched += [str(k) for _ in range(8) for k in range(len(th))]
    return ("f3p%d" % i, ["CFG %d %d %d %d" % (maxm, maxb, im, ib)] + th + ["SCHED " + " ".join(sched)])


def gen_fc_enum(length):
    """One waiter, one dec that frees capacity: every schedule of the given length over the two threads
    (covers every position of the dec's three steps relative to the waiter's check / snapshot / poll)."""
    out = []
    for cfg, th in (("CFG 1 1 1 1", ["T W", "T D 1 1"]), ("CFG 2 8 2 3", ["T W", "T D 0 1"]),
                    ("CFG 1 4 0 4", ["T D 4 0", "T W"]), ("CFG 1 1 1 1", ["T W", "T I 0 0"])):
        for bits in itertools.product("01", repeat=length):
            out.append(("fe-%s-%s" % (cfg.replace(" ", "_"), "".join(bits)), [cfg] + th + ["SCHED " + " ".join(bits)]))
    return out


def eng_fc(ctx):
    rng = random.Random(ctx.seed + 19)
    cases = gen_fc_enum(ctx.n(9, 12)) + [gen_fc_random(rng, i) for i in range(ctx.n(600, 20000))] + \
        [gen_fc_three_party(rng, i) for i in range(ctx.n(1200, 30000))]
    # two waiters, one releasing dec: all schedules of a fixed multiset
    bad, a, b = fc_diff("C19-fcsched", cases)
    st = ctx.stats
    st["evaluations"] += len(cases)
    st["traces"] += len(cases) - len(bad)
    s = st["streams"].setdefault("fcsched", {"cases": 0, "parked_finals": 0, "steps": 0})
    s["cases"] += len(cases)
    for cid, lines in cases:
        res = a.get(cid, [])
        s["steps"] += max(0, len(res) - 1)
        if any(" parked" in r for r in res):
            st["distinct"].add(hashlib.sha1("\n".join(lines).encode()).hexdigest())
        if res and "parked" in res[-1]:
            s["parked_finals"] += 1
    if cases:
        st["samples"].append({"stream": "fcsched", "case": cases[-1][1], "impl": a.get(cases[-1][0])})
    out = []
    found = None
    if bad:
        for cid, lines in cases:
            why = mon_fc(lines, a.get(cid, []))
            if why:
                found = (cid, lines, why)
                break
        cid, lines, x, y = bad[0]
        payload = {"engine": "fc", "stream": "fcsched", "case": lines, "impl": x, "model": y,
                   "disagreeing_cases": len(bad), "cases_in_stream": len(cases),
                   "broken": "correspondence stream 'fcsched' (Deltio.Model.FcDriver.fc_file vs flow_control.rs under the gate scheduler)"}
        if found:
            payload.update({"failing_input_found": True, "monitor": found[2], "case": found[1], "impl": a.get(found[0]),
                            "signature": "monitor:" + found[2].split(":")[0]})
            out.append(("violation", "fcsched: " + found[2], payload))
        else:
            payload.update({"failing_input_found": False, "signature": "correspondence:fcsched"})
            out.append(("correspondence", "fcsched: %d of %d schedules disagree with the model" % (len(bad), len(cases)), payload))
    return out


reg("C19", [eng_fc],
    rule="fcsched: the real FlowControl run one atomic operation at a time on OS threads held at gate points; every "
         "schedule of length 9 (thorough 12) over one waiter and one mutator for four configurations, plus random "
         "schedules of 1-3 waiters and 1-3 inc/dec calls with wrap-around deltas. non-trivial = some waiter parked",
    monitor=None, title="Flow-control waiters never miss free capacity", design_ref="7/C19",
    technique="Coq: inductive invariant over all interleavings of atomic steps (any number of threads); scheduled "
              "execution of the real code compared step by step with the model",
    level_text="Proved for every reachable state of the small-step model (sequentially consistent interleaving of the atomic "
               "operations, any number of waiters and mutators): a waiter returns only after loading both counters below "
               "the limits; a parked waiter has missed no completed notification; with no inc/dec in progress and free "
               "capacity nobody is parked and every waiter returns within 4 steps; one notify releases everybody. The model "
               "is tied to flow_control.rs by running the real code under an explicit scheduler at the same granularity.",
    level_note="Weaker-than-SC memory orderings and cancellation of a waiting task are outside the model; tokio's Notify "
               "is modelled as snapshot counter + waiter set (notify_waiters stores no permit).",
    assumptions=["sequential consistency of the atomic operations", "tokio::sync::Notify behaves as modelled"])


# ================================================================= waiting consumers

WAIT_OPS = {"PULL", "PUB", "PUBN", "ACK", "MOD", "STATS", "SR", "SO", "SS", "JOIN", "BG", "DS"}


def eng_wait_random(mon, triggers, tag="wait-random", nq=300, nt=8000):
    def eng(ctx):
        w = gen.merge(gen.W_DATA, {"CS": 1, "DS": 2, "DT": 1}, gen.W_WAIT)
        cases = seeded(gen.random_cases(ctx.seed * 1000 + 13, ctx.n(nq, nt), w, "w", allow_streams=True, multi=True))
        return ctx.seq(tag, cases, relevant=WAIT_OPS, triggers=triggers, monitor=mon)
    eng.__name__ = "eng_" + tag.replace("-", "_")
    return eng


def eng_wait_enum(ctx):
    cases = gen.wait_enum_cases()
    if not ctx.thorough:
        cases = cases[::3]
    return ctx.seq("wait-enum", cases, relevant=WAIT_OPS, triggers={"SR", "JOIN"}, monitor=M.mon_wait)


def eng_wait_push_sub(ctx):
    """The waiting-consumer cases on a subscription that has a push endpoint (no push loop runs): Pull and StreamingPull
    are served on it like on any other, and are woken like on any other."""
    cases = gen.wait_enum_cases(prefix="wqp", endpoint=gen.hx("http://127.0.0.1:9/push"))
    cases = cases[::7] if not ctx.thorough else cases[::2]
    return ctx.seq("wait-push-sub", cases, relevant=WAIT_OPS, triggers={"SR", "JOIN"}, monitor=M.mon_wait)


def eng_mixed_modify_wake(ctx):
    """One streaming control message that nacks some deliveries and extends others while consumers wait."""
    cases = [(c, gen.with_drain(o)) for c, o in gen.mixed_modify_wake_cases()]
    return ctx.seq("mixed-modify-wake", cases, relevant=WAIT_OPS, triggers={"SR", "JOIN"}, monitor=M.mon_wait,
                   always_monitor=True)


def eng_boundary_counts(ctx):
    """Blocking Pulls and streams with boundary message counts on a subscription that has messages."""
    cases = gen.boundary_count_cases()
    return ctx.seq("boundary-counts", cases, relevant=WAIT_OPS | {"PULL", "STATS", "GT", "GS"}, triggers={"JOIN", "SR"},
                   monitor=M.mon_count_hang, always_monitor=True)


def cs_norm(ops, lines):
    """Lines of a held-handler case as compared between model and implementation: XQ / XD / STATS only; STATS
    without the topic field; once the subscription is deleted, which status a finishing handler reports is the
    choice of its select! (messages branch or deleted branch), so only the fact that it finished is compared."""
    out, deleted = [], False
    for i, o in enumerate(ops):
        k = o.split(" ")[0]
        l = lines[i] if i < len(lines) else "<missing>"
        if k == "DS":
            deleted = True
        if k == "STATS":
            t = l.split(" ")
            l = " ".join(t[:4]) if t[1:2] == ["0"] else " ".join(t[:2])
        elif k == "XQ":
            if deleted and l.startswith("XQ done"):
                l = "XQ done *"
        elif k != "XD" and not l.startswith("!"):
            l = k
        out.append(l)
    return out


def eng_cs(ctx):
    """ConcSub (the small-step model of one subscription, ho = true) against the implementation at poll granularity:
    the server's own unary Pull handlers are held by the harness (XN), polled one poll at a time (XQ), dropped (XD);
    the mailbox is filled (XF); the runtime runs only at XT / gRPC ops.  Model side: Model/CsDriver.v, extracted."""
    cases = gen.cs_cases(ctx.seed * 100 + 3, ctx.n(600, 20000))
    d = workdir("%s-cs" % ctx.pid)
    cp, io, mo = os.path.join(d, "cases.txt"), os.path.join(d, "impl.out"), os.path.join(d, "model.out")
    write_cases(cp, cases)
    run_impl_seq(cp, io)
    sh([MODELDRV, "cs", cp, mo], timeout=3000)
    impl, model = parse_results(io), parse_results(mo)
    st = ctx.stats
    st["evaluations"] += len(cases)
    s = st["streams"].setdefault("concsub-polls", {"cases": 0, "ops": {}, "answers": {}})
    s["cases"] += len(cases)
    hits, diffs = [], []
    for cid, ops in cases:
        a, b = impl.get(cid, ["<no result>"]), model.get(cid, ["<no result>"])
        for o in ops:
            k = o.split(" ")[0]
            s["ops"][k] = s["ops"].get(k, 0) + 1
        for l in a:
            if l.startswith(("XQ", "XD")):
                key = " ".join(l.split(" ")[:2])
                s["answers"][key] = s["answers"].get(key, 0) + 1
        if any(l.startswith("XQ done 0") for l in a):
            st["distinct"].add(hashlib.sha1("\n".join(ops).encode()).hexdigest())
        why = M.mon_cs(ops, a)
        if why:
            if len(hits) < 3:
                hits.append(("violation", "concsub-polls: " + why,
                             {"engine": "seq", "stream": "concsub-polls", "case": ops, "impl": a, "model": b, "model_free": True,
                              "monitor_fn": "mon_cs", "readable": [decode_line(o)[:200] for o in ops],
                              "failing_input_found": True, "monitor": why, "signature": "monitor:" + why.split(":")[0],
                              "broken": "monitor of stream 'concsub-polls' on the implementation's own answers"}))
            continue
        na, nb = cs_norm(ops, a), cs_norm(ops, b)
        if na != nb:
            if len(diffs) < 3:
                idx = next((i for i in range(min(len(na), len(nb))) if na[i] != nb[i]), min(len(na), len(nb)))
                diffs.append(("correspondence", "concsub-polls: case %s: implementation and Model.ConcSub disagree at op %d" % (cid, idx),
                              {"engine": "seq", "stream": "concsub-polls", "case": ops, "impl": a, "model": b, "model_free": True,
                               "monitor_fn": "mon_cs", "first_disagreement": idx, "readable": [decode_line(o)[:200] for o in ops],
                               "failing_input_found": False, "signature": "correspondence:concsub-polls",
                               "broken": "correspondence stream 'concsub-polls' (Deltio.Model.CsDriver.cs_file over Model.ConcSub "
                                         "vs the unary Pull handler of /repo)"}))
        else:
            st["traces"] += 1
    out = hits or diffs       # a concrete failing input first, if the monitor found one anywhere in the stream
    if cases and len(st["samples"]) < 6:
        cid, ops = cases[0]
        st["samples"].append({"stream": "concsub-polls", "case": cid, "ops": [decode_line(o)[:120] for o in ops[:14]],
                              "impl": [decode_line(l)[:120] for l in impl.get(cid, [])[:14]]})
    return out


def mon_lifecycle(ops, lines):
    return M.mon_namespace(ops, lines) or M.mon_fanout(ops, lines) or M.mon_payload(ops, lines)


def eng_control_enum(ctx):
    cases = gen.control_enum_cases(ctx.n(3, 4))
    out = ctx.seq("control-enum", cases, relevant=CTL_OPS | DATA_OPS, triggers={"DS", "DT"}, monitor=mon_lifecycle,
                  always_monitor=True)
    ctx.stats["streams"]["control-enum"]["exhaustive_depth"] = ctx.n(3, 4)
    return out


def eng_create_delete_race(ctx):
    cases = gen.create_delete_race_cases(range(0, 14) if not ctx.thorough else range(0, 40))
    return ctx.seq("create-delete-race", cases, triggers={"JOIN"}, monitor=M.mon_create_delete_race, always_monitor=True,
                   model_free=True)


def eng_racestress(ctx):
    """Multi-thread runtime, real time: CreateSubscription racing a DeleteSubscription of the same name that spins
    until the name appears (the schedule of ConcActorsP.C11_refuted_without_guard), then the topic's list is compared
    with the manager.  A stress search, not a sweep: it can only ever find a violation, never exclude one."""
    n = ctx.n(4000, 100000)
    p = sh([HARNESS, "racestress", str(n), "8"], check=False, timeout=3000)
    m = re.search(r"RACESTRESS iterations=(\d+) deleted_before_attach=(\d+) stale=(\d+) publish_failed=(\d+)", p.stdout or "")
    st = ctx.stats
    st["evaluations"] += n
    st["streams"]["racestress"] = {"cases": n, "raced": int(m.group(2)) if m else None,
                                   "stale": int(m.group(3)) if m else None}
    if m:
        st["distinct"].add("racestress")
    if not m:
        return [("engine", "racestress did not finish", {"output": (p.stdout or "")[-2000:], "signature": "engine:racestress"})]
    if int(m.group(3)) > 0:
        why = ("C11-stale-attachment: in %s of %s create/delete races the topic still lists a subscription that no longer "
               "exists (%s later Publish calls failed)" % (m.group(3), m.group(1), m.group(4)))
        return [("violation", "racestress: " + why,
                 {"engine": "racestress", "failing_input_found": True, "monitor": why, "signature": "monitor:C11-stale-attachment",
                  "replay_cmd": ".cache/target/release/harness racestress %d 8" % n, "output": (p.stdout or "")[-2000:],
                  "broken": "stress search on the implementation (multi-thread runtime)"})]
    return []


def eng_burst_shapes(ctx):
    cases = gen.burst_shape_cases(range(ctx.n(80, 1500)))
    return ctx.seq("burst-shapes", cases, relevant={"CT", "CS"}, triggers={"JOIN"}, monitor=mon_burst, always_monitor=True)


def mon_burst(ops, lines):
    return M.mon_no_hang(ops, lines) or M.mon_release(ops, lines)


def eng_delete_release(ctx):
    cases = gen.delete_release_cases(range(ctx.n(12, 200)))
    return ctx.seq("delete-release", cases, relevant=WAIT_OPS | {"GS", "LTS"}, triggers={"DS"}, monitor=M.mon_release)


def eng_cancel_woken(ctx):
    cases = gen.cancel_woken_cases(range(0, ctx.n(60, 160)))
    return ctx.seq("cancel-woken", cases, triggers={"JOIN"}, monitor=M.mon_wait, always_monitor=True, model_free=True)


def eng_big_pull(ctx):
    return ctx.seq("big-pull", gen.big_pull_cases(), relevant={"PULL", "STATS"}, triggers={"PULL"}, monitor=M.mon_pull_complete,
                   always_monitor=True)


def eng_expiry_with_backlog(ctx):
    return ctx.seq("expiry-with-backlog", gen.expiry_with_backlog_cases(), relevant={"PULL", "STATS"}, triggers={"ADV"},
                   monitor=M.mon_stats_lease, always_monitor=True)


def eng_stale_topic_delete(ctx):
    return ctx.seq("stale-topic-delete", gen.stale_topic_delete_cases(), triggers={"XDT"}, monitor=M.mon_topic_balance,
                   always_monitor=True, model_free=True)


def eng_late_ack(ctx):
    return ctx.seq("late-ack", gen.late_ack_cases(range(ctx.n(8, 64))), triggers={"LACK"}, monitor=M.mon_late_ack,
                   always_monitor=True, model_free=True)


def eng_backed_up_stream(ctx):
    return ctx.seq("backed-up-stream", gen.backed_up_stream_cases(), triggers={"PUB"}, monitor=M.mon_backed_up,
                   always_monitor=True, model_free=True)


def eng_woken_dropped(ctx):
    cases = gen.woken_dropped_cases() if not ctx.thorough else \
        gen.woken_dropped_cases(fills=tuple(range(0, 34)), polls=(0, 1, 2, 3, 4, 6))
    return ctx.seq("woken-dropped", cases, triggers={"XP"}, monitor=M.mon_wait, always_monitor=True, model_free=True)


reg("C06", [eng_wait_enum, eng_wait_random(M.mon_wait, {"SR", "JOIN"}), eng_cancel_woken, eng_woken_dropped,
            eng_backed_up_stream, eng_wait_push_sub, eng_cs, eng_big_chain, eng_mixed_modify_wake],
    rule="wait-enum: every combination of up to three waiting consumers (stream limit 1 / stream limit 10 / blocked "
         "Pull limit 1 / blocked Pull limit 5) x five sequences of availability events (publish 1/3/0, nack, expiry, "
         "ack), every consumer and STATS observed after each event; wait-random: random scripts with several "
         "streams and blocked Pulls per subscription, deletions and expiry; cancel-woken: two blocked Pulls, a Publish "
         "wakes the older one which is cancelled k scheduler yields later (k = 0..59/159, with and without 20 other calls "
         "queued on the subscription) - no model comparison, the lost-wake-up monitor reads every case; woken-dropped: "
         "the unary Pull handler itself polled by the harness, woken by a Publish, then with 0..24 (thorough 0..33) "
         "requests put into the subscription's mailbox polled k times and dropped, a second blocked Pull or a stream "
         "waiting behind it (the schedule of C06_refuted_cancel_owing); concsub-polls: random schedules of new handler / "
         "one poll / drop / fill the mailbox / run the runtime / publish / expire all / delete, compared line by line with "
         "the extracted ConcSub model and read by mon_cs (a pending handler on a non-empty backlog after every consumer "
         "had its turns). non-trivial = a waiting consumer received messages",
    monitor=M.mon_wait, title="Waiting consumers are woken when a message becomes available", design_ref="7/C06",
    technique="Coq: token invariant of a small-step model of tokio Notify + actor + consumers (induction over all "
              "interleavings), refutation for the pinned code; serving loop of the quiescent model; differential "
              "correspondence with blocked Pulls and several streams per subscription, cancellation sweeps",
    level_text="Proved for the sequential-issue model (requests one at a time, server run to quiescence in between; any "
               "number and mix of waiting streams and blocked Pulls): at every quiescent point a non-empty backlog and a "
               "waiting consumer do not coexist; the availability event itself (post, nack, expiry tick) makes the actor "
               "run and serve; a woken Pull gets at least one message; who is served is the oldest waiter (tokio Notify "
               "FIFO), streams re-queue behind the others. Proved for the concurrent model of one subscription (every "
               "interleaving of actor turns, consumer micro-steps, posts, nacks, expiries, arrivals, cancellations and "
               "timeouts; any number of consumers, any mailbox capacity): while the subscription exists and its backlog is "
               "non-empty a notification is always pending somewhere, so the lost-wake-up state is unreachable and at "
               "quiescence nobody is parked on a non-empty backlog; cancelling a sleeping or a woken consumer passes the "
               "wake-up on; for the pinned code the same invariant is refuted by an explicit schedule. " + SEQ_NOTE + " "
               + CSUB_NOTE,
    level_note="Liveness in the sense 'the woken consumer is eventually scheduled' rests on the fairness of the tokio "
               "scheduler, which is assumed; batch contents are abstract (counters) in the concurrent model and concrete in "
               "the sequential one.",
    generated=[("consumers-as-modelled", lockgate.consumer_gate, "ConsumerCheck")])

reg("C12", [eng_delete_release, eng_wait_random(M.mon_release, {"DS"}), eng_burst_shapes, eng_cs,
            lambda ctx: eng_abandon(ctx), lambda ctx: eng_grpcstress(ctx), lambda ctx: eng_create_delete_race(ctx),
            lambda ctx: eng_delete_both(ctx)],
    rule="delete-release: per runtime seed, DeleteSubscription with two streams (request side open / closed), a blocked "
         "Pull, consumers of another subscription, and (variants) ack/nack/pull/get/publish calls started without "
         "letting the runtime settle, then every consumer observed; wait-random as for C06. non-trivial = a "
         "DeleteSubscription answered OK while consumers were waiting",
    monitor=M.mon_release, title="Deleting a subscription releases the consumers waiting on it", design_ref="7/C12",
    technique="Coq: effect of DeleteSubscription on the consumer queues of the quiescent model; differential "
              "correspondence over runtime seeds (select! order) incl. calls racing the deletion, hang detector",
    level_text="Proved for the sequential-issue model: DeleteSubscription ends every stream open on the subscription with "
               "NOT_FOUND, completes every Pull blocked on it with an error status, leaves nobody waiting on it and does "
               "not disturb consumers of other subscriptions; later requests find the name absent. Racing requests are "
               "exercised on the real server over runtime seeds: each must complete (any status), none may hang. "
               "Proved for the concurrent model of one subscription, for every interleaving and every choice of the "
               "select! branches: once the deletion was processed and internal activity has ended every consumer has "
               "finished (streams NOT_FOUND, Pulls an error), an unfinished consumer always has a step to take, and the "
               "number of steps it can still take is explicitly bounded. " + SEQ_NOTE + " " + CSUB_NOTE,
    level_note="Requests racing the deletion other than pulls (ack/modify/get) are covered by the actor model of C07 "
               "(queued requests are answered when the subscription exits) and by the burst-shapes stream.",
    generated=[("consumers-as-modelled", lockgate.consumer_gate, "ConsumerCheck")])


# ================================================================= C16 abandoned requests

def eng_abandon(ctx):
    specs = gen.abandon_cases(fills=(0, 16, 24, 60, 200)) if ctx.thorough else \
        gen.abandon_cases(ks=(1, 2, 4), ys=(0, 2), fills=(0, 20, 60))
    tag = "C16-abandon"
    d = workdir(tag)
    impl_cases = [(cid, ops) for cid, ops, idx, eq in specs]
    a_cases = [(cid + "#A", ops[:idx] + [eq] + ops[idx + 1:]) for cid, ops, idx, eq in specs]
    b_cases = [(cid + "#B", ops[:idx] + ["Q"] + ops[idx + 1:]) for cid, ops, idx, eq in specs]
    cp, mp = os.path.join(d, "cases.txt"), os.path.join(d, "model-cases.txt")
    write_cases(cp, impl_cases)
    write_cases(mp, a_cases + b_cases)
    io, mo = os.path.join(d, "impl.out"), os.path.join(d, "model.out")
    run_impl_seq(cp, io)
    run_model_seq(mp, mo)
    impl, model = parse_results(io), parse_results(mo)
    st = ctx.stats
    st["evaluations"] += len(specs)
    s = st["streams"].setdefault("abandon", {"cases": 0, "dropped": 0, "completed_anyway": 0, "as_if_never": 0,
                                              "as_if_completed": 0, "by_kind": {}})
    s["cases"] += len(specs)
    out, hits = [], []
    for cid, ops, idx, eq in specs:
        res = impl.get(cid, ["<no result>"])
        xc = res[idx] if idx < len(res) else "?"
        ma, mb = model.get(cid + "#A", []), model.get(cid + "#B", [])

        def same(m):
            if len(m) != len(res):
                return False
            return all(norm_for(ops[i], res[i]) == norm_for(ops[i], m[i]) for i in range(len(res)) if i != idx)
        okA, okB = same(ma), same(mb)
        kind = ops[idx].split(" ")[1]
        s["by_kind"][kind] = s["by_kind"].get(kind, 0) + 1
        if xc == "XC dropped":
            s["dropped"] += 1
            st["distinct"].add(hashlib.sha1("\n".join(ops).encode()).hexdigest())
        else:
            s["completed_anyway"] += 1
        if okA:
            s["as_if_completed"] += 1
        elif okB:
            s["as_if_never"] += 1
        good = okA or (okB and xc == "XC dropped")
        if good:
            st["traces"] += 1
            continue
        why = M.mon_abandon(ops, res) or M.mon_exclusive(ops, res)
        if (why and len(hits) >= 3) or (not why and len(out) >= 3):
            continue
        first = next((i for i in range(min(len(res), len(ma))) if i != idx and
                      norm_for(ops[i], res[i]) != norm_for(ops[i], ma[i]) and
                      (i >= len(mb) or norm_for(ops[i], res[i]) != norm_for(ops[i], mb[i]))), None)
        payload = {"engine": "abandon", "stream": "abandon", "case": ops, "xc_index": idx, "equivalent": eq,
                   "impl": res, "model_if_completed": ma, "model_if_never_received": mb,
                   "readable": [decode_line(o)[:200] for o in ops],
                   "first_line_matching_neither": first,
                   "readable_impl": decode_line(res[first])[:300] if first is not None and first < len(res) else None,
                   "broken": "correspondence stream 'abandon': the state after an abandoned request equals neither "
                             "api_step (completed) nor the unchanged state (never received) of Deltio.Model.Server"}
        if why:
            payload.update({"failing_input_found": True, "monitor": why, "signature": "monitor:" + why.split(":")[0]})
            hits.append(("violation", "abandon: " + why, payload))
        else:
            payload.update({"failing_input_found": False, "signature": "correspondence:abandon"})
            out.append(("correspondence", "abandon: case %s matches neither outcome" % cid, payload))
    out = hits + out          # concrete failing inputs first
    if specs:
        cid, ops, idx, eq = specs[len(specs) // 2]
        st["samples"].append({"stream": "abandon", "case": cid, "ops": [decode_line(o)[:160] for o in ops[:12]],
                              "impl": [decode_line(l)[:160] for l in impl.get(cid, [])[:12]]})
    return out


CONC_NOTE = ("The theorems are about a small-step Coq model of the actors (bounded FIFO mailboxes, one request per actor "
             "turn, client tasks that may be dropped at any pending point, the spawned attach task); it is hand-written "
             "from the Rust sources named in its header and is NOT trace-tied to the code: what ties it are (a) the "
             "refutation theorems for the pinned code, whose schedules were replayed on the implementation and found to "
             "fail there as predicted (findings/replays), and (b) the streams below, which run the real server under "
             "bursts / abandoned futures on every check.")


def eng_burst(ctx):
    cases = gen.burst_cases(range(ctx.n(80, 1500)))
    out = ctx.seq("burst", cases, relevant={"CT", "CS"}, triggers={"JOIN"}, monitor=M.mon_no_hang, always_monitor=True)
    if out:
        return out
    return eng_burst_shapes(ctx)




reg("C16", [eng_abandon, eng_burst, lambda ctx: eng_create_delete_race(ctx), lambda ctx: eng_racestress(ctx), eng_cs,
            lambda ctx: eng_abandoned_delete_during_create(ctx)],
    rule="abandon: the library-level future of CreateSubscription / DeleteSubscription / Publish / Pull / Acknowledge / "
         "DeleteTopic polled k times (y scheduler yields in between) and dropped, with the target actor's mailbox empty "
         "or saturated (0/16/24 pending requests); then Get/List/STATS/Publish/Pull probes, expiry, and re-creation of "
         "every name. Each case must be indistinguishable, line by line, from the sequential model having completed the "
         "request or never received it; mon_abandon reads half-created subscriptions and wedged calls off the answers. "
         "non-trivial = the future was really dropped before completion",
    monitor=M.mon_abandon, title="Abandoned requests have all-or-nothing effect", design_ref="7/C16",
    technique="Coq: small-step actor model with a drop step enabled at every pending point; attachment invariant at "
              "quiescent states, progress after any continuation, mailbox effect theorems; correspondence: abandoned "
              "futures on the real code against the two alternatives of the sequential model",
    level_text="Proved for the actor model (any number of topics, subscriptions, clients; any capacity >= 1; drops anywhere): "
               "at every quiescent reachable state every existing, undeleted subscription of a live topic is attached; "
               "after any continuation with drops the server still makes progress whenever something is outstanding; a "
               "queued request is handled exactly once or (if its target exits) answered with an error, whatever happens "
               "to its caller; a drop changes only the dropped task. " + CONC_NOTE,
    level_note="PARTIAL: 'messages handed to an abandoned consumer are redelivered after their deadline' is covered by the "
               "sequential model (C04 expiry theorems: a lease does not depend on who holds it) and by the abandon stream, "
               "not by the actor model, whose data is abstract. The points at which a request can be abandoned are the "
               "suspension points of its handler: that the code suspends exactly where the models have steps is checked "
               "on every run as a syntactic fingerprint generated from /repo's sources "
               "(deltio_suspension_points_as_modelled), not proved semantically.",
    generated=[("lock-discipline", lockgate.lock_gate, "LockCheck")])

reg("C07", [eng_mailstress, eng_burst, eng_abandon, eng_pull_limit, eng_pushstress, eng_deletestress, eng_nsstress, eng_grpcstress,
            eng_stream_flood],
    rule="burst: 17-70 calls (Get/Pull/Ack/List, one or two DeleteSubscription, one or two Publish, sometimes DeleteTopic) "
         "started without letting the runtime settle, seeded select!/scheduling order; after settling every call must "
         "have an answer and the server must still answer Get/Publish/Pull/List (mon_no_hang on every case; the harness "
         "turns a call that never returns into !HANG). non-trivial = more calls than a mailbox holds",
    monitor=M.mon_no_hang, title="Every request terminates: no deadlock between topic and subscription actors",
    design_ref="7/C07",
    technique="Coq: small-step actor model; progress theorem (some server step is enabled whenever anything is "
              "outstanding), explicit decreasing measure (bounded work), refutation for the pinned code; lock-order "
              "theorem (rank-ordered nesting excludes deadlock under any granting policy) instantiated with the lock "
              "edges a translator regenerates from /repo's sources on every run; correspondence: bursts larger than the "
              "mailboxes on the real server, multi-thread push-loop stress",
    level_text="Proved for the actor model (any number of topics, subscriptions and clients, any mailbox capacity >= 1, "
               "arrivals and drops at any time): with the draining delete some server-side step is enabled whenever "
               "anything is outstanding; every server-side step decreases an explicit measure, so the work between two "
               "environment events is bounded and ends in a state with nothing outstanding; for the pinned code the "
               "deadlock state is reachable (capacity 2 and 16). " + CONC_NOTE,
    level_note="PARTIAL: the blocking Pull's own wait limit and the processing of StreamingPull control messages are "
               "consumers of ONE subscription and live in the ConcSub model (C06/C12: internal_terminates, C12_progress); "
               "fairness of the tokio scheduler (an enabled step is eventually taken) is assumed, not modelled. The lock "
               "theorems are about the nesting edges a source scanner (lockscan, trusted to over-approximate) extracts "
               "from /repo on every run.",
    generated=[("lock-discipline", lockgate.lock_gate, "LockCheck")])


def eng_requeue_order(ctx):
    cases = gen.requeue_order_cases()
    return ctx.seq("requeue-order", cases, relevant=DATA_OPS, triggers={"PULL"}, monitor=M.mon_order, always_monitor=True)


def eng_orderstress(ctx):
    """Multi-thread runtime: concurrent publishers to one topic with two subscriptions, each round drained; ids per
    Publish and first-delivery order are checked by the harness itself (harness/src/orderstress.rs).  A stress
    search: it can only find."""
    n = ctx.n(20000, 400000)
    p = sh([HARNESS, "orderstress", str(n), "4"], check=False, timeout=3000)
    m = re.search(r"ORDERSTRESS rounds=(\d+) publishes=(\d+) bad_ids=(\d+) inversions=(\d+)", p.stdout or "")
    st = ctx.stats
    st["evaluations"] += n
    st["streams"]["orderstress"] = {"cases": n, "publishes": int(m.group(2)) if m else None,
                                    "bad_ids": int(m.group(3)) if m else None, "inversions": int(m.group(4)) if m else None}
    if not m:
        return [("engine", "orderstress did not finish", {"output": (p.stdout or "")[-2000:], "signature": "engine:orderstress"})]
    st["distinct"].add("orderstress")
    if int(m.group(3)) > 0 or int(m.group(4)) > 0:
        why = ("C08-order-concurrent: with concurrent publishers on the multi-thread runtime %s Publish calls got ids that "
               "are not one-per-message consecutive and %s drains saw first deliveries out of publish order (of %s rounds)"
               % (m.group(3), m.group(4), m.group(1)))
        return [("violation", "orderstress: " + why,
                 {"engine": "orderstress", "failing_input_found": True, "monitor": why, "signature": "monitor:C08-order-concurrent",
                  "replay_cmd": ".cache/target/release/harness orderstress %d 4" % n, "output": (p.stdout or "")[-3000:],
                  "broken": "stress search on the implementation (multi-thread runtime)"})]
    return []


def eng_concurrent_publish(ctx):
    cases = gen.concurrent_publish_cases(range(ctx.n(150, 3000)))
    return ctx.seq("concurrent-publish", cases, relevant={"JOIN", "PUB", "SO", "CS", "CT"}, triggers={"JOIN", "PULL", "SR"},
                   monitor=M.mon_order_conc, always_monitor=True)


reg("C08", [eng_data_random(M.mon_order, {"PUB"}, streams=True, tag="data-stream-random"),
            eng_data_enum(M.mon_order, {"PUB"}), eng_concurrent_publish,
            eng_wait_random(M.mon_order, {"PUB"}), eng_orderstress, eng_requeue_order, eng_ordering_keys, eng_big_pull],
    rule="random and exhaustive sequential scripts (ids, first deliveries, redeliveries out of order); "
         "concurrent-publish: 2-6 Publish calls to one topic started without letting the runtime settle (seeded), two "
         "subscriptions, one stream and pulls of several sizes, a nack in between - ids and first-delivery order are "
         "read off the implementation's answers on every case; orderstress: the same on the multi-thread runtime "
         "(20 000 / 400 000 rounds of 2-6 concurrent publishers, two subscriptions, full drain per round). "
         "non-trivial = a Publish answered with ids",
    monitor=M.mon_order, title="Publish order is delivery order; message IDs are issued in order", design_ref="7/C08",
    technique="Coq: per-batch id arithmetic; first deliveries form a prefix of the posted sequence, by induction over all "
              "turn sequences with a ghost set of delivered ids; differential correspondence + order monitor under "
              "concurrent publishers",
    level_text="Proved: one id per message, consecutive and strictly increasing within a batch and across batches of one "
               "topic (counter < 2^32); for every subscription and every history of turns the sequence of first deliveries "
               "is exactly a prefix of the posted sequence (publish order, batches contiguous, nothing skipped), with "
               "strictly increasing ack ids; a Publish appends its batch to each attached subscription in one topic-actor "
               "step. " + SEQ_NOTE,
    level_note="That posts of successive publishes enter each mailbox in publish order under concurrency (topic actor awaits "
               "all posts; FIFO mailboxes) is part of the concurrent actor model, exercised on the real server by the "
               "concurrent-publish stream.")


# ================================================================= C14 push

def eng_push(ctx):
    cases = gen.push_cases(ctx.seed, ctx.n(160, 1500))

    def one_pass_fewer(ops):
        # LOOP <interval> <rounds> runs the real push loop for rounds*interval + interval/2 of real time: rounds+1
        # passes on a responsive machine, one fewer when the last tick comes late
        out, hit = [], False
        for o in ops:
            t = o.split(" ")
            if t[0] == "LOOP" and int(t[2]) > 0:
                out.append("LOOP %s %d" % (t[1], int(t[2]) - 1))
                hit = True
            else:
                out.append(o)
        return out if hit else None
    out = ctx.seq("push", cases, relevant={"ROUND", "LOOP", "REG", "STATS", "PULL", "CS", "DS", "PUB"},
                  triggers={"ROUND"}, monitor=M.mon_push, alt=one_pass_fewer)
    if out:
        return out
    # endpoints that never answer: each such pass costs 20 s of real time (the cases run in parallel)
    cases = gen.push_hang_cases() if not ctx.thorough else \
        gen.push_hang_cases() + gen.push_cases(ctx.seed + 1, 32, with_hang=True, prefix="ph")
    out = ctx.seq("push-hang", cases, relevant={"ROUND", "REG", "STATS", "PULL"}, triggers={"ROUND"}, monitor=M.mon_push)
    if out:
        return out
    # an endpoint that takes 11 s to accept, within a 60 s ack deadline (11 s of real time; the model has no clock for
    # an answer, so the case is judged on the endpoint's own record)
    out = ctx.seq("push-slow", gen.push_slow_cases(), triggers={"ROUND"}, monitor=M.mon_push, always_monitor=True, model_free=True)
    if out:
        return out
    # deletion in the middle of a page of the real loop (real time, no model: judged on the endpoint's record)
    out = ctx.seq("push-delete", gen.push_delete_cases(), triggers={"LOOPDEL"}, monitor=M.mon_push_delete,
                  always_monitor=True, model_free=True)
    if out:
        return out
    # the real loop and an endpoint that accepts later than one push interval
    return ctx.seq("push-late-answer", gen.push_late_answer_cases(), triggers={"LOOP"}, monitor=M.mon_push_late_answer,
                   always_monitor=True, model_free=True)


reg("C14", [eng_push, eng_control_random(None, {"CS"}), lambda ctx: eng_registry_enum(ctx)],
    rule="push: real reqwest dispatch against a scripted local HTTP endpoint; every outcome sequence up to length 3 "
         "over {200,204,500,404,reset} first, then random longer ones over {200,201,202,204,301,400,404,500,503,reset}; "
         "1-3 messages with attributes and binary data, 2-4 passes, a second push subscription, a pull subscription and a "
         "refused endpoint next to it, deletion or the real loop at the end (thorough: endpoints that never answer). "
         "non-trivial = a pass produced at least one POST",
    monitor=M.mon_push, title="Push subscriptions deliver at least once until the endpoint accepts", design_ref="7/C14",
    technique="Coq: effect of one push pass on each POSTed message by induction over the pass (ack / nack / left leased), "
              "registry invariant; differential correspondence of every POST (body fields, order, retries) through the "
              "real HTTP client",
    level_text="Proved: the registry the loop walks holds exactly the live push subscriptions; after a pass an accepted "
               "message is gone for good, any other answered or failed POST leaves the message queued for the next pass, a "
               "POST without answer leaves it leased until its deadline and it is then requeued; accepted = "
               "{102,200,201,202,204}; a pass touches only its subscription; deletion unregisters. The model is tied to "
               "push_loop.rs by running the real dispatch code (reqwest over loopback TCP) against a scripted endpoint "
               "and comparing every POST.",
    level_note="Status 102 cannot be produced through a hyper-based client (interim responses are skipped), so it is "
               "covered by the theorem only. Real clock: cases avoid instants near ack deadlines. The order in which the "
               "real loop visits subscriptions (HashMap order) is not modelled; passes are per subscription. That a pass "
               "UNDER WAY stops at a deletion is Model/PushPass.v (every schedule of pull / dispatch / answer / deletion "
               "signal: no POST once deleted - for the protocol 'the whole pass is raced against the signal'); which "
               "protocol the code follows is read off push_loop.rs on every run by the translator (Gen/PushCheck.v, "
               "compiled against the suspension points lockscan has just generated), and the push-delete stream runs the "
               "real loop with a deletion in the middle of a page of 30-60 messages (real time, judged on the endpoint's "
               "record, one POST on the wire allowed).",
    generated=[("push-pass-guard", lockgate.push_gate, "PushCheck")])
