"""Executable readings of the properties over the implementation's own outputs.

They are used only after a proof obligation or the correspondence broke, to
look for a concrete input on which the property itself fails (the model is out
of the loop here).  Each returns None or "<short id>: <explanation>"."""
import re
from common import unhx, hx

TOPIC_SHAPE = re.compile(rb"^projects/([^/]*)/topics/(.*)$", re.S)
SUB_SHAPE = re.compile(rb"^projects/([^/]*)/subscriptions/(.*)$", re.S)


def _b(tok):
    return unhx(tok)


def mon_names_pure(ops, results):
    """-> None or (index of the failing op, explanation)"""
    for i, (o, r) in enumerate(zip(ops, results)):
        k, arg = o.split(" ")
        if k not in ("TN", "SN"):
            continue
        rt = r.split(" ")
        if len(rt) < 2 or rt[0] != k:
            return i, "C18-noanswer: %s gave %r" % (o, r)
        if rt[1] != "1":
            continue
        s = _b(arg)
        shape = TOPIC_SHAPE if k == "TN" else SUB_SHAPE
        if not shape.match(s):
            return i, "C18-shape: %r accepted as a %s name" % (s, "topic" if k == "TN" else "subscription")
        display = _b(rt[-1])
        if display != s:
            return i, ("C18-canonical: %r accepted but echoed as %r: either the echo denotes another resource or "
                       "two names that differ denote the same one" % (s, display))
    return None


def mon_names_seq(ops, lines):
    for o, r in zip(ops, lines):
        ot, rt = o.split(" "), r.split(" ")
        if r.startswith("!"):
            return "C18-noanswer: %s" % r[:80]
        if ot[0] == "CT" and rt[:2] == ["CT", "0"]:
            s = _b(ot[1])
            if not TOPIC_SHAPE.match(s):
                return "C18-shape: CreateTopic accepted %r" % s
            if len(rt) > 2 and _b(rt[2]) != s:
                return "C18-canonical: CreateTopic %r echoed %r" % (s, _b(rt[2]))
        if ot[0] == "CS" and rt[:2] == ["CS", "0"]:
            s, t = _b(ot[1]), _b(ot[2])
            if not SUB_SHAPE.match(s) or not TOPIC_SHAPE.match(t):
                return "C18-shape: CreateSubscription accepted %r on %r" % (s, t)
            if len(rt) > 3 and (_b(rt[2]) != s or _b(rt[3]) != t):
                return "C18-canonical: CreateSubscription %r/%r echoed %r/%r" % (s, t, _b(rt[2]), _b(rt[3]))
    return None
