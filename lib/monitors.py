"""Executable readings of the properties over the implementation's own outputs.

They are used only after a proof obligation or the correspondence broke, to
look for a concrete input on which the property itself fails (the model is out
of the loop here).  Each returns None or "<short id>: <explanation>"."""
import re
from common import unhx, hx

TOPIC_SHAPE = re.compile(rb"^projects/([^/]+)/topics/(.+)$", re.S)      # both ids non-empty (Names.v, fix 271dfb1)
SUB_SHAPE = re.compile(rb"^projects/([^/]+)/subscriptions/(.+)$", re.S)


def _b(tok):
    return unhx(tok)


def mon_names_pure(ops, results):
    """-> None or (index of the failing op, explanation)"""
    for i, (o, r) in enumerate(zip(ops, results)):
        k, arg = o.split(" ")
        if k not in ("TN", "SN"):
            continue
        rt = r.split(" ")
        if len(rt) < 2 or rt[0] != k:
            return i, "C18-noanswer: %s gave %r" % (o, r)
        if rt[1] != "1":
            continue
        s = _b(arg)
        shape = TOPIC_SHAPE if k == "TN" else SUB_SHAPE
        if not shape.match(s):
            return i, "C18-shape: %r accepted as a %s name" % (s, "topic" if k == "TN" else "subscription")
        display = _b(rt[-1])
        if display != s:
            return i, ("C18-canonical: %r accepted but echoed as %r: either the echo denotes another resource or "
                       "two names that differ denote the same one" % (s, display))
    return None


def mon_names_seq(ops, lines):
    for o, r in zip(ops, lines):
        ot, rt = o.split(" "), r.split(" ")
        if r.startswith("!"):
            return "C18-noanswer: %s" % r[:80]
        if ot[0] == "CT" and rt[:2] == ["CT", "0"]:
            s = _b(ot[1])
            if not TOPIC_SHAPE.match(s):
                return "C18-shape: CreateTopic accepted %r" % s
            if len(rt) > 2 and _b(rt[2]) != s:
                return "C18-canonical: CreateTopic %r echoed %r" % (s, _b(rt[2]))
        if ot[0] == "CS" and rt[:2] == ["CS", "0"]:
            s, t = _b(ot[1]), _b(ot[2])
            if not SUB_SHAPE.match(s) or not TOPIC_SHAPE.match(t):
                return "C18-shape: CreateSubscription accepted %r on %r" % (s, t)
            if len(rt) > 3 and (_b(rt[2]) != s or _b(rt[3]) != t):
                return "C18-canonical: CreateSubscription %r/%r echoed %r/%r" % (s, t, _b(rt[2]), _b(rt[3]))
    return None


# ---------------------------------------------------------------- a reading of a case's history

class Delivery:
    # t = instant at which the delivery was observed; lo = earliest instant at which it can have happened
    # (a stream batch is observed by the next SR, possibly much later than it was sent); dl = the ack deadline
    # (seconds) the subscription had when the delivery was observed
    __slots__ = ("sub", "inst", "ack", "mid", "data", "attrs", "pt", "t", "lo", "lo_i", "dl", "resp", "via")

    def __init__(self, **kw):
        for k, v in kw.items():
            setattr(self, k, v)


def parse_msgs(toks, i, n):
    out = []
    for _ in range(n):
        ack, mid, data, na = toks[i], toks[i + 1], toks[i + 2], int(toks[i + 3])
        i += 4
        attrs = []
        for _ in range(na):
            attrs.append((toks[i], toks[i + 1]))
            i += 2
        pt, att = toks[i], toks[i + 1]
        i += 2
        out.append((ack, mid, data, tuple(attrs), pt))
    return out, i


MS_NS = 10 ** 6


class History:
    """Events of one case, with the virtual clock (ms precision is enough: ns kept)."""

    def __init__(self, ops, lines):
        self.now = 0
        self.events = []       # (kind, dict)
        self.sub_ackdl = {}    # sub name hex -> effective seconds (as answered by the server)
        self.stream_sub = {}
        self.stream_inst = {}
        self.sub_inst = {}     # sub name -> number of successful creations so far (the current instance)
        self.bg = {}           # id of a background Pull -> (sub, instance, start instant, op index)
        self.bad = None
        acks_seen = []
        for idx, (o, r) in enumerate(zip(ops, lines)):
            ot, rt = o.split(" "), r.split(" ")
            if r.startswith("!"):
                self.bad = "noanswer: op %d (%s) got %s" % (idx, ot[0], r[:60])
                break
            k = ot[0]
            # resolve ack references the way the harness does
            def res(tok):
                if tok[:1] in "@^" and tok[1:].isdigit():
                    if not acks_seen:
                        return hx("0")
                    j = int(tok[1:]) % len(acks_seen)
                    return acks_seen[-1 - j] if tok[0] == "@" else acks_seen[j]
                return tok
            code = rt[1] if len(rt) > 1 else None
            ev = {"i": idx, "t": self.now, "op": ot, "res": rt, "code": code}
            if k == "ADV":
                self.now += int(ot[1])
            elif k == "BG" and ot[2:3] == ["PULL"]:
                self.bg[ot[1]] = (ot[3], self.sub_inst.get(ot[3], 0), self.now, idx)
            elif k == "JOIN" and ot[1] in self.bg and rt[2:4] == ["PULL", "0"]:
                bsub, binst, bt, bi = self.bg.pop(ot[1])
                msgs, _ = parse_msgs(rt, 5, int(rt[4]))
                ev["msgs"] = [Delivery(sub=bsub, inst=binst, ack=m[0], mid=m[1], data=m[2], attrs=m[3], pt=m[4], t=self.now,
                                       lo=bt, lo_i=bi, dl=self.sub_ackdl.get(bsub), resp=idx, via="join") for m in msgs]
                acks_seen += [m[0] for m in msgs]
            elif k == "CS" and code == "0":
                self.sub_inst[rt[2]] = self.sub_inst.get(rt[2], 0) + 1
                # the lease length the property promises (what was requested, at least 10 s), not the value the
                # server echoes
                try:
                    self.sub_ackdl[rt[2]] = max(10, int(ot[3]))
                except ValueError:
                    self.sub_ackdl[rt[2]] = int(rt[4])
                ev["sub"] = rt[2]
            elif k in ("PUB", "PUBN") and code == "0":
                ev["ids"] = rt[3:3 + int(rt[2])]
                ev["topic"] = ot[1]
            elif k == "PULL" and code == "0":
                msgs, _ = parse_msgs(rt, 3, int(rt[2]))
                ev["msgs"] = [Delivery(sub=ot[1], inst=self.sub_inst.get(ot[1], 0), ack=m[0], mid=m[1], data=m[2], attrs=m[3],
                                       pt=m[4], t=self.now, lo=self.now, lo_i=idx, dl=self.sub_ackdl.get(ot[1]), resp=idx, via="pull") for m in msgs]
                acks_seen += [m[0] for m in msgs]
                ev["max"] = int(ot[2])
            elif k == "SO" and code == "0":
                self.stream_sub[ot[1]] = ot[2]
                self.stream_inst[ot[1]] = self.sub_inst.get(ot[2], 0)
                self.stream_seen = getattr(self, "stream_seen", {})
                self.stream_seen[ot[1]] = self.now
                self.stream_seen_i = getattr(self, "stream_seen_i", {})
                self.stream_seen_i[ot[1]] = idx
                ev["max"] = int(ot[3])
            elif k == "SR":
                nresp = int(rt[1])
                i = 2
                batches = []
                for _ in range(nresp):
                    n = int(rt[i])
                    msgs, i = parse_msgs(rt, i + 1, n)
                    sub = self.stream_sub.get(ot[1], "?")
                    seen_at = getattr(self, "stream_seen", {}).get(ot[1], 0)
                    seen_i = getattr(self, "stream_seen_i", {}).get(ot[1], idx)
                    ds = [Delivery(sub=sub, inst=self.stream_inst.get(ot[1], 0), ack=m[0], mid=m[1], data=m[2], attrs=m[3],
                                   pt=m[4], t=self.now, lo=seen_at, lo_i=seen_i, dl=self.sub_ackdl.get(sub), resp=(idx, len(batches)), via="stream")
                          for m in msgs]
                    acks_seen += [m[0] for m in msgs]
                    batches.append(ds)
                ev["batches"] = batches
                ev["term"] = rt[i] if i < len(rt) else "-"
                ev["sid"] = ot[1]
                self.stream_seen = getattr(self, "stream_seen", {})
                self.stream_seen[ot[1]] = self.now
                self.stream_seen_i = getattr(self, "stream_seen_i", {})
                self.stream_seen_i[ot[1]] = idx
            elif k in ("ACK",):
                n = int(ot[2])
                ev["ids"] = [res(x) for x in ot[3:3 + n]]
                ev["sub"] = ot[1]
            elif k == "MOD":
                n = int(ot[3])
                ev["ids"] = [res(x) for x in ot[4:4 + n]]
                ev["secs"] = int(ot[2])
                ev["sub"] = ot[1]
            elif k == "SS":
                toks = ot[5:]
                na = int(toks[0]); a = [res(x) for x in toks[1:1 + na]]
                toks = toks[1 + na:]
                nm = int(toks[0]); m = [res(x) for x in toks[1:1 + nm]]
                toks = toks[1 + nm:]
                ns = int(toks[0]); s = [int(x) for x in toks[1:1 + ns]]
                ev.update({"acks": a, "mods": m, "secs": s, "sid": ot[1], "sub": self.stream_sub.get(ot[1], "?"),
                           "written": rt[1:2] == ["1"],
                           "subfield": ot[2], "mm": int(ot[3]), "mb": int(ot[4])})
            self.events.append(ev)

    def deliveries(self):
        for ev in self.events:
            for d in ev.get("msgs", []):
                yield ev, d
            for b in ev.get("batches", []):
                for d in b:
                    yield ev, d


def is_u64(tok):
    try:
        s = unhx(tok).decode()
    except Exception:
        return False
    s2 = s[1:] if s.startswith("+") else s
    return s2.isdigit() and s2.isascii() and int(s2) < 2 ** 64


def ack_value(tok):
    s = unhx(tok).decode()
    return int(s[1:] if s.startswith("+") else s)


def ss_certainly_applied(e):
    """A StreamingPull control message that the server certainly accepts and applies as a whole."""
    return (e.get("written") and e.get("subfield") == "-" and e.get("mm") == 0 and e.get("mb") == 0
            and len(e["mods"]) == len(e["secs"])
            and all(is_u64(x) for x in e["acks"] + e["mods"]) and all(x >= 0 for x in e["secs"]))


def lease_windows(h):
    """For every delivery: the instant until which it is certainly still outstanding (its ack deadline computed
    without rounding: a lower bound of the stored deadline).  An acknowledgement, a nack (0 seconds) or the deletion
    of the subscription ends the window; a modification by N > 0 seconds that certainly applies moves its end to
    that instant + min(N, 600) s; a modification of which it is not certain that it applies (a stream control message
    that may be rejected) ends it (conservative).  -> list of (delivery, event, t_until, acked_at)"""
    out = []
    evs = h.events
    for ev, d in h.deliveries():
        dl = d.dl
        if dl is None:
            continue
        until = d.lo + dl * 10 ** 9      # certainly still leased before this instant
        acked_at = None
        try:
            av = ack_value(d.ack)
        except Exception:
            continue

        def names(lst):
            return any(is_u64(x) and ack_value(x) == av for x in lst)
        for e2 in evs:
            # a stream batch is observed by the SR that follows it: requests issued since the previous read of the
            # stream may have come after the delivery (then they count) or before it (then they were inert)
            if e2["i"] <= d.lo_i or e2["i"] == ev["i"]:
                continue
            uncertain = e2["i"] < ev["i"]
            if e2["t"] >= until:
                break
            k = e2["op"][0]
            if uncertain:
                touched = ((k in ("ACK", "MOD") and e2.get("sub") == d.sub and names(e2.get("ids", []))) or
                           (k == "SS" and e2.get("sub") == d.sub and (names(e2["acks"]) or names(e2["mods"]))) or
                           (k == "DS" and e2["op"][1] == d.sub))
                if touched:
                    until = d.lo          # nothing is certain about this lease
                    break
                continue
            if k == "DS" and e2["op"][1] == d.sub and e2["code"] == "0":
                until = e2["t"]
                break
            if k == "ACK" and e2.get("sub") == d.sub and e2["code"] == "0" and names(e2["ids"]):
                until, acked_at = e2["t"], e2
                break
            if k == "MOD" and e2.get("sub") == d.sub and e2["code"] == "0" and names(e2["ids"]):
                if e2["secs"] > 0:
                    until = e2["t"] + min(e2["secs"], 600) * 10 ** 9
                    continue
                until = e2["t"]
                break
            if k == "SS" and e2.get("sub") == d.sub and (names(e2["acks"]) or names(e2["mods"])):
                if not ss_certainly_applied(e2):
                    until = e2["t"]
                    break
                if names(e2["acks"]):
                    until, acked_at = e2["t"], e2
                    break
                mine = [sec for x, sec in zip(e2["mods"], e2["secs"]) if ack_value(x) == av]
                if 0 in mine:
                    until = e2["t"]
                    break
                until = e2["t"] + min(mine[-1], 600) * 10 ** 9
        out.append((d, ev, until, acked_at))
    return out


def mon_exclusive(ops, lines):
    """C03: no second delivery of a message on the same subscription while its lease certainly lasts;
    ack ids never repeat per subscription; no duplicate inside one response."""
    h = History(ops, lines)
    if h.bad:
        return "C03-" + h.bad
    seen = {}
    for ev, d in h.deliveries():
        key = (d.sub, d.inst, d.ack)
        if key in seen:
            return "C03-ackid-reused: ack id %r handed out twice on %r" % (unhx(d.ack), unhx(d.sub))
        seen[key] = 1
    for ev in h.events:
        groups = [ev.get("msgs", [])] + ev.get("batches", [])
        for g in groups:
            mids = [d.mid for d in g]
            if len(set(mids)) != len(mids):
                return "C03-dup-in-response: op %d returned the same message twice" % ev["i"]
    for d, ev, until, _ in lease_windows(h):
        for ev2, d2 in h.deliveries():
            # hand-out order on one subscription = order of the ack ids (observation order can differ: blocked Pulls
            # joined late, stream batches read late)
            if d2 is d or not (is_u64(d.ack) and is_u64(d2.ack)):
                continue
            later = ack_value(d2.ack) > ack_value(d.ack)
            if later and d2.sub == d.sub and d2.inst == d.inst and d2.mid == d.mid and ev2["t"] < until:
                return ("C03-double-lease: message %r delivered on %r at %d ns and again at %d ns although its lease "
                        "lasts until %d ns at least" % (unhx(d.mid), unhx(d.sub), d.t, ev2["t"], until))
    return None


def mon_ack_final(ops, lines):
    """C02: a message acknowledged while certainly outstanding is never delivered again on that subscription."""
    h = History(ops, lines)
    if h.bad:
        return "C02-" + h.bad
    for d, ev, until, acked in lease_windows(h):
        if acked is None:
            continue
        for ev2, d2 in h.deliveries():
            if ev2["i"] > acked["i"] and d2.sub == d.sub and d2.inst == d.inst and d2.mid == d.mid:
                return ("C02-redelivered-after-ack: message %r acked on %r (op %d, ack id %r) was delivered again at op %d"
                        % (unhx(d.mid), unhx(d.sub), acked["i"], unhx(d.ack), ev2["i"]))
    return None


def mon_nack_immediate(ops, lines):
    """C05 (N = 0 is an immediate nack): a ModifyAckDeadline with 0 seconds that names a delivery handed out less than
    10 s of virtual time ago (so its lease certainly runs) and not acknowledged or modified since puts the message back
    AT ONCE: a Pull with room issued as the very next request returns it."""
    h = History(ops, lines)
    if h.bad:
        return None
    live = {}          # (sub, ack id hex) -> (message id, time delivered)
    evs = h.events
    for n, ev in enumerate(evs):
        ot, k = ev["op"], ev["op"][0]
        for d in ev.get("msgs", []):
            live[(d.sub, d.ack)] = (d.mid, ev["t"])
        if k == "ACK" and ev["code"] == "0":
            for a in ev.get("ids", []):
                live.pop((ot[1], a), None)
        if k == "MOD" and ev["code"] == "0":
            ids = ev.get("ids", [])
            nacked = []
            if ot[2] == "0":
                for a in ids:
                    if (ot[1], a) in live and ev["t"] - live[(ot[1], a)][1] < 10 * 10 ** 9:
                        nacked.append(live[(ot[1], a)][0])
            for a in ids:
                live.pop((ot[1], a), None)
            if nacked and n + 1 < len(evs):
                nx = evs[n + 1]
                if nx["op"][0] == "PULL" and nx["op"][1] == ot[1] and nx["code"] == "0" and nx["op"][3] == "1":
                    got = [d.mid for d in nx.get("msgs", [])]
                    room = len(got) < min(int(nx["op"][2]), 1000) if nx["op"][2].isdigit() and int(nx["op"][2]) > 0 else False
                    missing = [m for m in nacked if m not in got]
                    if room and missing:
                        return ("C05-nack-not-immediate: ModifyAckDeadline(0) at op %d named the running delivery of message %r; "
                                "the Pull issued right after it (op %d, with room for more) does not return that message"
                                % (ev["i"], unhx(missing[0]), nx["i"]))
        if k in ("SS", "SO", "SR", "BG", "SEQ", "XC", "DS", "CS"):
            live.clear()
    return None


def mon_deadline(ops, lines):
    """C04/C05 (never earlier): same reading as mon_exclusive's lease window; (not later): in the probe
    streams a PULL with room, issued >= deadline + 101 ms, must return the message."""
    w = mon_exclusive(ops, lines)
    if w and w.startswith("C03-double-lease"):
        return "C04-early-redelivery" + w[len("C03-double-lease"):]
    return mon_nack_immediate(ops, lines)


def mon_payload(ops, lines):
    """C09: every delivery equals the published record with that id; publish time stable; ids unique."""
    h = History(ops, lines)
    if h.bad:
        return "C09-" + h.bad
    published = {}
    allids = []
    for ev in h.events:
        if ev["op"][0] in ("PUB", "PUBN") and ev["code"] == "0":
            toks = ev["op"]
            recs = []
            if toks[0] == "PUBN":
                recs = [(toks[3], ())] * int(toks[2])
            else:
                i = 3
                for _ in range(int(toks[2])):
                    data, na = toks[i], int(toks[i + 1])
                    i += 2
                    at = []
                    for _ in range(na):
                        at.append((toks[i], toks[i + 1]))
                        i += 2
                    recs.append((data, tuple(sorted(at, key=lambda kv: unhx(kv[0])))))
            if len(ev["ids"]) != len(recs):
                return "C08-id-count: Publish of %d messages returned %d ids" % (len(recs), len(ev["ids"]))
            for mid, rec in zip(ev["ids"], recs):
                if mid in published:
                    return "C09-id-reused: message id %r issued twice" % unhx(mid)
                published[mid] = rec
            allids += ev["ids"]
    pts = {}
    for ev, d in h.deliveries():
        if d.mid not in published:
            return "C09-unknown-id: delivery carries id %r that no Publish returned" % unhx(d.mid)
        data, attrs = published[d.mid]
        if d.data != data:
            return "C09-data: message %r delivered with different data" % unhx(d.mid)
        if tuple(d.attrs) != attrs:
            return "C09-attributes: message %r delivered with attributes %r, published %r" % (unhx(d.mid), d.attrs, attrs)
        if d.mid in pts and pts[d.mid] != d.pt:
            return "C09-publish-time: message %r delivered with two different publish times" % unhx(d.mid)
        pts[d.mid] = d.pt
    return None


def mon_order(ops, lines):
    """C08: ids of a topic increase in publish order; per subscription the first deliveries follow publish order."""
    h = History(ops, lines)
    if h.bad:
        return "C08-" + h.bad
    order = {}
    per_topic = {}
    n = 0
    for ev in h.events:
        if ev["op"][0] in ("PUB", "PUBN") and ev["code"] == "0":
            k = int(ev["op"][2])
            if len(ev["ids"]) != k:
                return "C08-id-count: Publish of %d messages returned %d ids" % (k, len(ev["ids"]))
            for mid in ev["ids"]:
                try:
                    v = int(unhx(mid).decode())
                except Exception:
                    return "C08-id-format: %r" % unhx(mid)
                last = per_topic.get(ev["topic"])
                # ids of one topic *instance* increase; a re-created topic starts a new, higher range
                if last is not None and v <= last:
                    return "C08-ids-not-increasing: topic %r issued %d after %d" % (unhx(ev["topic"]), v, last)
                per_topic[ev["topic"]] = v
                order[mid] = n
                n += 1
    # the order in which a subscription handed its messages out is the order of its ack ids (observation order may
    # differ: several consumers, stream batches read late); first deliveries = smallest ack id per message
    firsts = {}
    for ev, d in h.deliveries():
        if d.mid not in order or not is_u64(d.ack):
            continue
        key = (d.sub, d.inst)
        cur = firsts.setdefault(key, {})
        a = ack_value(d.ack)
        if d.mid not in cur or a < cur[d.mid]:
            cur[d.mid] = a
    seen_acks = {}
    for ev, d in h.deliveries():
        if is_u64(d.ack):
            seen_acks.setdefault((d.sub, d.inst), set()).add(ack_value(d.ack))
    for (sub, inst), cur in firsts.items():
        # ack ids count the hand-outs of the subscription from 1: a gap is a delivery the script never read (a blocked
        # Pull that was not joined again); beyond the first gap "first delivery" is not known
        gap = 1
        while gap in seen_acks.get((sub, inst), ()):
            gap += 1
        seq = sorted(((m, a) for m, a in cur.items() if a < gap), key=lambda kv: kv[1])
        for (m1, _), (m2, _) in zip(seq, seq[1:]):
            if order[m2] < order[m1]:
                return ("C08-first-delivery-order: on %r message %r was first delivered after %r, which was published later"
                        % (unhx(sub), unhx(m2), unhx(m1)))
    return None


def mon_batch(ops, lines):
    """C15: max_messages >= 1 bounds a Pull response; a positive max_outstanding_messages bounds every stream response."""
    h = History(ops, lines)
    if h.bad:
        return "C15-" + h.bad
    smax = {}
    for ev in h.events:
        k = ev["op"][0]
        if k == "PULL" and ev["code"] == "0" and ev["max"] >= 1 and len(ev["msgs"]) > ev["max"]:
            return "C15-unary-bound: Pull max_messages=%d returned %d messages" % (ev["max"], len(ev["msgs"]))
        if k == "SO":
            if ev["code"] == "0":
                smax[ev["op"][1]] = int(ev["op"][3])
                if not (0 <= int(ev["op"][3]) <= 65535):
                    return "C15-stream-range: max_outstanding_messages=%s accepted" % ev["op"][3]
        if k == "SR":
            m = smax.get(ev["sid"])
            for b in ev["batches"]:
                if m is not None and m >= 1 and len(b) > m:
                    return "C15-stream-bound: stream max_outstanding_messages=%d produced a response of %d" % (m, len(b))
    return None


def mon_rejected_pure(ops, lines):
    """C17/C05: a request answered with an error status leaves the observable state of the subscriptions unchanged:
    the STATS line of a subscription before a rejected request equals the next one after it (no time passes in
    between; intervening successful requests reset the comparison)."""
    last = {}       # sub -> STATS result line, valid while nothing succeeded since
    pending = None  # index of a rejected request after which the next STATS must equal `last`
    for i, (o, r) in enumerate(zip(ops, lines)):
        ot, rt = o.split(" "), r.split(" ")
        k = ot[0]
        if k == "STATS":
            if rt[1:2] == ["0"]:
                if pending is not None and ot[1] in last and last[ot[1]] != r:
                    return ("C17-rejected-changed-state: after the rejected request at op %d (%s) STATS of %r went from "
                            "%s to %s" % (pending, ops[pending].split(" ")[0], unhx(ot[1]), last[ot[1]], r))
                last[ot[1]] = r
            pending = None
            continue
        rejected = False
        changing = k in ("PUB", "PUBN", "PULL", "ACK", "MOD", "CS", "DS", "DT", "CT", "SO")
        if k == "SR":
            rejected = rt[-1] == "3"
            changing = len(rt) > 2 and rt[1] != "0"
        elif k in ("SS", "SC", "SEED"):
            continue
        elif k == "ADV":
            last.clear(); pending = None
            continue
        else:
            rejected = len(rt) > 1 and rt[1] not in ("0",)
        if rejected:
            if pending is None:
                pending = i
        elif changing:
            last.clear(); pending = None
    return None


def mon_malformed(ops, lines):
    """C17: malformed fields are answered with INVALID_ARGUMENT, never with a crash/hang; rejected requests
    change no state."""
    w = mon_rejected_pure(ops, lines)
    if w:
        return w
    made, rejected = set(), {}
    for i, (o, r) in enumerate(zip(ops, lines)):
        if r.startswith("!"):
            return "C17-noanswer: op %d %s -> %s" % (i, o.split(" ")[0], r[:80])
        ot, rt = o.split(" "), r.split(" ")
        k = ot[0]
        code = rt[1] if len(rt) > 1 else None
        # a rejected create creates nothing: the name it asked for does not exist afterwards (unless it did before)
        if k in ("CS", "CT") and code == "0":
            made.add(ot[1])
            rejected.pop(ot[1], None)
        elif k in ("CS", "CT") and code == "3" and ot[1] not in made:
            rejected[ot[1]] = i
        elif k in ("DS", "DT") and code == "0":
            made.discard(ot[1])
        elif k in ("GS", "GT", "PULL", "STATS") and code == "0" and ot[1] in rejected:
            return ("C17-rejected-changed-state: the create of %r was rejected with INVALID_ARGUMENT at op %d, yet %s finds it "
                    "at op %d" % (unhx(ot[1]), rejected[ot[1]], k, i))
        elif k == "LS" and code == "0":
            n = int(rt[2])
            for nm in rt[3:3 + 4 * n:4]:
                if nm in rejected:
                    return ("C17-rejected-changed-state: the create of %r was rejected with INVALID_ARGUMENT at op %d, yet "
                            "ListSubscriptions lists it at op %d" % (unhx(nm), rejected[nm], i))

        def shape(tok, kind):
            try:
                return bool((TOPIC_SHAPE if kind == "t" else SUB_SHAPE).match(unhx(tok)))
            except Exception:
                return False
        if k in ("CT", "GT", "DT", "PUB", "PUBN", "LTS", "LT", "LS", "CS", "GS", "DS", "PULL", "ACK", "MOD", "STATS") \
                and code not in ("0", "3", "5", "6", None):
            return ("C17-unexpected-status: %s answered status %s at op %d (expected OK, INVALID_ARGUMENT, NOT_FOUND or "
                    "ALREADY_EXISTS)" % (k, code, i))
        if k in ("CT", "GT", "DT", "PUB", "PUBN", "LTS") and not shape(ot[1], "t") and code != "3":
            return "C17-code: %s with a malformed topic name answered %s" % (k, code)
        if k in ("GS", "DS", "PULL") and not shape(ot[1], "s") and code != "3":
            return "C17-code: %s with a malformed subscription name answered %s" % (k, code)
        if k in ("LT", "LS", "LTS") and int(ot[2]) < 0 and code != "3":
            return "C17-code: %s with a negative page size answered %s" % (k, code)
        if k == "MOD" and int(ot[3]) > 0 and int(ot[2]) < 0 and code != "3":
            return "C17-code: ModifyAckDeadline with negative seconds answered %s" % code
    return None


def mon_count_hang(ops, lines):
    """C17 / C15: a blocking Pull issued while the subscription has messages waiting is answered at once, whatever
    its max_messages - never left spinning or parked."""
    backlog = {}
    started = {}
    for i, (o, r) in enumerate(zip(ops, lines)):
        ot, rt = o.split(" "), r.split(" ")
        if r.startswith("!"):
            return "C17-noanswer: op %d (%s) got %s" % (i, ot[0], r[:60])
        if ot[0] == "STATS" and rt[1:2] == ["0"]:
            backlog[ot[1]] = int(rt[3])
        elif ot[0] == "BG" and ot[2:3] == ["PULL"] and ot[5:6] == ["0"]:
            started[ot[1]] = (ot[3], backlog.get(ot[3], 0), ot[4], i)
        elif ot[0] == "JOIN" and ot[1] in started:
            sub, b, n, at = started[ot[1]]
            if rt[2:] == ["-"] and b > 0:
                return ("C17-hang: the blocking Pull with max_messages %s started at op %d on %r, which had %d message(s) "
                        "waiting, has no answer at op %d" % (n, at, unhx(sub), b, i))
            if rt[2:] != ["-"]:
                started.pop(ot[1])
    return None


def token_decodable(tokhex):
    """Is this page token one the property calls decodable: standard base64, canonical padding, exactly 8 bytes."""
    import base64, binascii as _ba
    try:
        t = unhx(tokhex).decode("ascii")
        raw = base64.b64decode(t, validate=True)
    except Exception:
        return False
    return len(raw) == 8 and base64.b64encode(raw).decode() == t


def mon_paging_pure(ops, results):
    """C13 on parse_paging itself: a negative page size or an undecodable token is rejected, everything else is not.
    -> None or (index, explanation)"""
    for i, (o, r) in enumerate(zip(ops, results)):
        ot = o.split(" ")
        if ot[0] != "PG":
            continue
        size, tok = int(ot[1]), ot[2]
        bad = size < 0 or not (tok == "-" or token_decodable(tok))
        if bad and not r.startswith("PG 3"):
            return i, ("C13-accepted: parse_paging(size %d, token %r) was accepted (%s); a negative size or an undecodable "
                       "token must be rejected" % (size, unhx(tok), r))
        if not bad and r.startswith("PG 3"):
            return i, "C13-rejected: parse_paging(size %d, token %r) was rejected" % (size, unhx(tok))
    return None


def mon_list_args(ops, lines):
    """C13: a List call with a negative page size or an undecodable token answers INVALID_ARGUMENT."""
    for i, (o, r) in enumerate(zip(ops, lines)):
        ot, rt = o.split(" "), r.split(" ")
        if ot[0] in ("LT", "LS", "LTS") and len(ot) >= 4 and len(rt) > 1:
            try:
                size = int(ot[2])
            except ValueError:
                continue
            bad_tok = not (ot[3] == "-" or token_decodable(ot[3]))
            if (size < 0 or bad_tok) and rt[1] in ("0", "5"):
                return ("C13-bad-argument-accepted: %s with page size %d and token %r answered status %s at op %d; a negative "
                        "size or an undecodable token is rejected with INVALID_ARGUMENT" % (ot[0], size, unhx(ot[3]), rt[1], i))
            if rt[1] == "0" and rt[-1] != "-" and not token_decodable(rt[-1]):
                return ("C13-issued-token-undecodable: %s at op %d answered with the next page token %r, which is not a decodable "
                        "token (standard base64 of 8 bytes): following it is rejected and the walk ends before the "
                        "collection does" % (ot[0], i, unhx(rt[-1])))
    return None


def mon_walk(ops, lines):
    w = mon_list_args(ops, lines)
    if w:
        return w
    return _mon_walk(ops, lines) or mon_creation_order(ops, lines)


def _mon_walk(ops, lines):
    """C13: a walk (consecutive list ops of one kind/argument/size starting with an empty token and following the
    returned tokens) never exceeds the page size and never repeats an element."""
    i = 0
    while i < len(ops):
        ot = ops[i].split(" ")
        if ot[0] in ("LT", "LS", "LTS") and ot[3] == "-" and i < len(lines):
            size = int(ot[2])
            eff = 20 if size == 0 else min(size, 1000)
            seen = []
            j = i
            tok = "-"
            while j < len(ops):
                oj, rj = ops[j].split(" "), lines[j].split(" ")
                if oj[:3] != ot[:3] or oj[3] != tok or rj[1] != "0":
                    break
                n = int(rj[2])
                if size >= 0 and n > eff:
                    return "C13-page-size: %s size=%d returned %d entries" % (ot[0], size, n)
                step = 4 if ot[0] == "LS" else 1
                names = [rj[3 + step * q] for q in range(n)]
                for nm in names:
                    if nm in seen:
                        return "C13-duplicate: %s walk returned %r twice" % (ot[0], unhx(nm))
                seen += names
                nxt = rj[-1]
                if n == 0 and nxt != "-":
                    return "C13-empty-page-with-token"
                if nxt == "-":
                    break
                tok = nxt
                j += 1
            i = max(j, i + 1)
        else:
            i += 1
    return None


def mon_wait(ops, lines):
    """C06 at quiescent points: while STATS shows a non-empty backlog, no consumer of that subscription may be
    waiting (an open stream whose next SR brings nothing, a blocked Pull whose next JOIN is still pending)."""
    stream_sub, bg_sub = {}, {}
    n = len(lines)
    for i, (o, r) in enumerate(zip(ops, lines)):
        ot, rt = o.split(" "), r.split(" ")
        if r.startswith("!"):
            return "C06-noanswer: op %d got %s" % (i, r[:60])
        if ot[0] == "SO" and rt[1:2] == ["0"]:
            stream_sub[ot[1]] = ot[2]
        if ot[0] == "BG" and ot[2:3] == ["PULL"] and ot[-1] == "0":
            bg_sub[ot[1]] = ot[3]
        if ot[0] == "JOIN" and rt[2:] != ["-"]:
            bg_sub.pop(ot[1], None)       # that call has returned: it is no longer a consumer
        if ot[0] == "CANCEL":
            bg_sub.pop(ot[1], None)
        if ot[0] == "STATS" and rt[1:2] == ["0"] and int(rt[3]) > 0:
            sub = ot[1]
            # look at the observations that follow immediately (until the next state-changing op)
            for j in range(i + 1, n):
                oj, rj = ops[j].split(" "), lines[j].split(" ")
                if oj[0] == "SR" and stream_sub.get(oj[1]) == sub:
                    if rj[1] == "0" and rj[-1] == "-":
                        return ("C06-lost-wakeup: backlog of %r is %s at op %d, yet stream %s waits and received nothing"
                                % (unhx(sub), rt[3], i, oj[1]))
                elif oj[0] == "JOIN" and bg_sub.get(oj[1]) == sub:
                    if rj[2:] == ["-"]:
                        return ("C06-lost-wakeup: backlog of %r is %s at op %d, yet Pull %s is still blocked"
                                % (unhx(sub), rt[3], i, oj[1]))
                elif oj[0] in ("STATS", "SR", "JOIN"):
                    continue
                else:
                    break
    return None


def mon_release(ops, lines):
    """C12: after DeleteSubscription answered OK, every stream open on it ends with NOT_FOUND, every Pull blocked on it
    has returned an error, and calls racing the deletion have completed."""
    stream_sub, bg_sub, deleted_at, stream_opened = {}, {}, {}, {}
    ended = set()
    for i, (o, r) in enumerate(zip(ops, lines)):
        ot, rt = o.split(" "), r.split(" ")
        if r.startswith("!"):
            return "C12-noanswer: op %d got %s" % (i, r[:60])
        if ot[0] == "CS" and rt[1:2] == ["0"]:
            deleted_at.pop(ot[1], None)      # a new subscription of that name
        if ot[0] == "SO" and rt[1:2] == ["0"]:
            stream_sub[ot[1]] = ot[2]
            stream_opened[ot[1]] = i
            ended.discard(ot[1])
        if ot[0] == "BG":
            inner = ot[2:]
            if inner[0] in ("PULL", "ACK", "MOD", "GS", "STATS"):
                bg_sub[ot[1]] = inner[1]
            else:
                bg_sub[ot[1]] = None
        if ot[0] == "DS" and rt[1:2] == ["0"]:
            deleted_at[ot[1]] = i
        if ot[0] == "SR" and ot[1] in stream_sub:
            sub = stream_sub[ot[1]]
            if sub not in deleted_at and rt[-1] != "-":
                ended.add(ot[1])          # the stream had ended (e.g. a rejected control message) before any deletion
            if ot[0] == "SO":
                pass
            if sub in deleted_at and ot[1] not in ended and stream_opened.get(ot[1], -1) < deleted_at[sub]:
                if rt[-1] != "5":
                    return ("C12-stream-not-released: stream %s on %r shows terminal %r after the deletion at op %d"
                            % (ot[1], unhx(sub), rt[-1], deleted_at[sub]))
                ended.add(ot[1])
        if ot[0] == "JOIN" and ot[1] in bg_sub and ot[1] not in ended:
            sub = bg_sub[ot[1]]
            if rt[2:] != ["-"]:
                ended.add(ot[1])
            start = next(j for j, x in enumerate(ops) if x.startswith("BG %s " % ot[1]))
            if sub in deleted_at and start < deleted_at[sub] < i:
                if rt[2:] == ["-"]:
                    return "C12-call-hangs: call %s on %r is still pending after the deletion" % (ot[1], unhx(sub))
                blocking = ops[start].split(" ")[2] == "PULL" and ops[start].endswith(" 0")
                # a blocked Pull whose 300 s limit had passed before the deletion returned empty legitimately
                waited = sum(int(x.split(" ")[1]) for x in ops[start:deleted_at[sub]] if x.startswith("ADV "))
                if blocking and rt[2:5] == ["PULL", "0", "0"] and waited < 299 * 10 ** 9:
                    return "C12-pull-empty-after-delete: blocked Pull %s answered OK with no messages" % ot[1]
    return None


def mon_abandon(ops, lines):
    """C16 on the implementation's own answers: no half-created resource (every subscription that Get finds while
    its topic is alive is listed by that topic) and nothing wedged (no call without an answer)."""
    subs_found, listed, topic_of = set(), None, {}
    for i, (o, r) in enumerate(zip(ops, lines)):
        ot, rt = o.split(" "), r.split(" ")
        if r.startswith("!"):
            return "C16-wedged: op %d (%s) got %s" % (i, ot[0], r[:60])
    # state right after the abandoned request: the first GS/LTS block
    try:
        x = next(i for i, o in enumerate(ops) if o.startswith("XC "))
    except StopIteration:
        return None
    # the topic's subscriptions that existed throughout hold the same messages (nothing was acknowledged): after an
    # abandoned Publish either all of them got the message or none
    held = {}
    for i in range(x + 1, len(ops)):
        ot, rt = ops[i].split(" "), lines[i].split(" ")
        if ot[0] == "STATS" and rt[1:2] == ["0"] and unhx(ot[1]).endswith((b"/s", b"/twin")):
            held[ot[1]] = int(rt[2]) + int(rt[3])
        elif ot[0] in ("PUB", "ADV", "PULL", "DS", "CT"):
            break
    if ops[x].split(" ")[1] in ("PUB", "PUBS") and len(held) == 2 and len(set(held.values())) > 1:
        return ("C16-partial-fanout: after the abandoned Publish the topic's two subscriptions hold %s messages - the "
                "message reached one and not the other" % " and ".join(str(v) for v in held.values()))
    gone = any(o.startswith("GS ") and unhx(o.split(" ")[1]).endswith(b"/s") and l.split(" ")[1:2] == ["5"]
               for o, l in zip(ops[x + 1:], lines[x + 1:]))
    if gone:
        for i in range(x + 1, len(ops)):
            ot, rt = ops[i].split(" "), lines[i].split(" ")
            if ot[0] == "SR" and ot[1] == "7" and rt[-1] == "-":
                return ("C12-stream-not-released: the subscription is gone after the abandoned DeleteSubscription, but the "
                        "stream opened on it is still open (op %d)" % i)
            if ot[0] == "JOIN" and ot[1] == "800" and rt[2:] == ["-"]:
                return ("C12-pull-not-released: the subscription is gone after the abandoned DeleteSubscription, but the "
                        "Pull blocked on it is still waiting (op %d)" % i)
            if ot[0] in ("PUB", "ADV"):
                break
    # an abandoned Pull acknowledges nothing: whatever it leased or not, every message published to the topic is still
    # held by the subscription (leased or queued) at every later STATS, until something is acknowledged or deleted
    if ops[x].split(" ")[1] == "PULL":
        sub = ops[x].split(" ")[5]
        published = 0
        for i, (o, r) in enumerate(zip(ops, lines)):
            ot, rt = o.split(" "), r.split(" ")
            if ot[0] in ("PUB", "PUBN") and rt[1:2] == ["0"]:
                published += int(ot[2])
            elif ot[0] in ("ACK", "DS", "DT", "MOD", "SS") and i > x:
                break
            elif i > x and ot[:2] == ["STATS", sub] and rt[1:2] == ["0"] and int(rt[2]) + int(rt[3]) != published:
                return ("C01-lost: %d messages were published to the topic of %r and none acknowledged, yet after the abandoned "
                        "Pull the subscription holds %d (%s leased, %s queued) at op %d" % (published, unhx(sub), int(rt[2]) + int(rt[3]), rt[2], rt[3], i))
    # an abandoned Acknowledge of many deliveries acknowledges all of them or none
    if ops[x].split(" ")[1] == "ACKN":
        n = int(ops[x].split(" ")[-1])
        sub = ops[x].split(" ")[5]
        before = after = None
        for i in range(x - 1, -1, -1):
            if ops[i].split(" ")[:2] == ["STATS", sub] and lines[i].split(" ")[1:2] == ["0"]:
                before = int(lines[i].split(" ")[2])
                break
        for i in range(x + 1, len(ops)):
            if ops[i].split(" ")[:2] == ["STATS", sub] and lines[i].split(" ")[1:2] == ["0"]:
                after = int(lines[i].split(" ")[2])
                break
            if ops[i].split(" ")[0] in ("ADV", "PULL", "ACK", "MOD", "DS"):
                break
        if before is not None and after is not None and after not in (before, before - n):
            return ("C16-partial-acknowledge: an Acknowledge naming %d of the %d outstanding deliveries was abandoned; %d are "
                    "outstanding afterwards - neither all of them still (never received) nor %d (completed)"
                    % (n, before, after, before - n))
    # nothing wedged: a subscription that exists receives what is published to its topic - its message count
    # (leased + waiting) grows by the size of every Publish issued between two of its STATS answers
    before, pubs = {}, {}
    for i in range(x + 1, len(ops)):
        ot, rt = ops[i].split(" "), lines[i].split(" ")
        if ot[0] == "STATS" and rt[1:2] == ["0"] and len(rt) >= 5:
            tot = int(rt[2]) + int(rt[3])
            if ot[1] in before and pubs.get(ot[1]) and before[ot[1]][1] == rt[4]:
                want = before[ot[1]][0] + sum(n for t, n in pubs[ot[1]] if t == rt[4])
                if tot != want and any(t == rt[4] for t, n in pubs[ot[1]]):
                    return ("C16-wedged-subscription: after the abandoned request %r exists on %r and held %d messages; "
                            "then %d more were published to that topic, and it holds %d (op %d) - the subscription no "
                            "longer receives messages" % (unhx(ot[1]), unhx(rt[4]), before[ot[1]][0],
                                                          want - before[ot[1]][0], tot, i))
            before[ot[1]] = (tot, rt[4])
            pubs[ot[1]] = []
        elif ot[0] == "STATS":
            before.pop(ot[1], None)
        elif ot[0] == "PUB" and rt[1:2] == ["0"]:
            for k in pubs:
                pubs[k].append((ot[1], int(ot[2])))
        elif ot[0] in ("GS", "GT", "LTS", "LS", "LT", "Q"):
            pass
        else:
            before.clear()
            pubs.clear()
    # a subscription deleted by a later, completed DeleteSubscription is listed nowhere afterwards
    deleted = set()
    for i in range(x + 1, len(ops)):
        ot, rt = ops[i].split(" "), lines[i].split(" ")
        if ot[0] == "DS" and rt[1:2] == ["0"]:
            deleted.add(ot[1])
        elif ot[0] == "CS":
            deleted.discard(ot[1])
        elif ot[0] in ("XC", "BG", "SEQ"):
            deleted.clear()
        elif ot[0] in ("LS", "LTS") and rt[1:2] == ["0"]:
            n = int(rt[2])
            names = rt[3:3 + n] if ot[0] == "LTS" else rt[3:3 + 4 * n:4]
            hit = deleted & set(names)
            if hit:
                return ("C11-deleted-but-listed: %r was deleted by a completed DeleteSubscription and is still listed at "
                        "op %d (%s)" % (unhx(sorted(hit)[0]), i, ot[0]))
    # a push subscription that exists is registered for push, and nothing else is (C16: no half-created resource)
    exists = {}
    for i in range(x + 1, len(ops)):
        ot, rt = ops[i].split(" "), lines[i].split(" ")
        if ot[0] == "GS" and len(rt) > 1:
            exists[ot[1]] = rt[5] if rt[1] == "0" and len(rt) > 5 else None
        elif ot[0] == "REG" and rt[0] == "REG":
            n = int(rt[1])
            reg = {rt[2 + 2 * j]: rt[3 + 2 * j] for j in range(n)}
            for sub, ep in exists.items():
                if ep not in (None, "~") and sub not in reg:
                    return ("C16-half-created-push: %r exists as a push subscription (endpoint %r) but is not in the push "
                            "registry: nothing will ever be pushed to it" % (unhx(sub), unhx(ep)))
                if ep is None and sub in reg:
                    return ("C16-half-created-push: %r does not exist but is registered for push to %r"
                            % (unhx(sub), unhx(reg[sub])))
            break
        elif ot[0] in ("PUB", "CT", "CS", "DS", "DT", "ADV"):
            break
    found = {}
    for i in range(x + 1, len(ops)):
        ot, rt = ops[i].split(" "), lines[i].split(" ")
        if ot[0] == "GS" and rt[1:2] == ["0"]:
            found[rt[2]] = rt[3]          # name -> topic string
        elif ot[0] == "LTS" and rt[1:2] == ["0"]:
            names = set(rt[3:3 + int(rt[2])])
            for sub, topic in found.items():
                if topic == ot[1] and sub not in names:
                    return ("C16-half-created: subscription %r exists and names topic %r, but the topic does not "
                            "list it" % (unhx(sub), unhx(topic)))
            break
        elif ot[0] in ("PUB", "CT", "CS", "DS", "DT"):
            break
    return None


def mon_order_conc(ops, lines):
    """C08 with concurrent publishers, read off the implementation's answers: every Publish returns one id per
    message, consecutive and increasing; on every subscription the first deliveries are in increasing id order
    (= the order in which the topic accepted the messages) and batches stay contiguous."""
    batch_of = {}
    for i, (o, r) in enumerate(zip(ops, lines)):
        if r.startswith("!"):
            return "C08-noanswer: op %d got %s" % (i, r[:60])
        ot, rt = o.split(" "), r.split(" ")
        res = None
        if ot[0] == "PUB" and rt[:2] == ["PUB", "0"]:
            res, k = rt[2:], int(ot[2])
        elif ot[0] == "JOIN" and rt[2:4] == ["PUB", "0"]:
            res = rt[4:]
            src = next(x for x in ops if x.startswith("BG %s " % ot[1])).split(" ")
            k = int(src[4])
        if res is not None:
            n = int(res[0])
            ids = [int(unhx(x).decode()) for x in res[1:1 + n]]
            if n != k:
                return "C08-id-count: Publish of %d messages returned %d ids" % (k, n)
            for a, b in zip(ids, ids[1:]):
                if b != a + 1:
                    return "C08-batch-ids: a Publish returned ids %d, %d (not consecutive increasing)" % (a, b)
            for x in ids:
                if x in batch_of:
                    return "C09-id-reused: id %d returned by two Publish calls" % x
                batch_of[x] = i
    h = History(ops, lines)
    if h.bad:
        return "C08-" + h.bad
    last, seen = {}, set()
    for ev, d in h.deliveries():
        key = (d.sub, d.mid)
        if key in seen:
            continue
        seen.add(key)
        v = int(unhx(d.mid).decode())
        if d.sub in last and v < last[d.sub]:
            return ("C08-first-delivery-order: on %r message %d was first delivered after message %d"
                    % (unhx(d.sub), v, last[d.sub]))
        if d.sub in last and v > last[d.sub] + 1 and (last[d.sub] + 1) in batch_of:
            return "C08-skipped: on %r message %d was skipped before %d" % (unhx(d.sub), last[d.sub] + 1, v)
        last[d.sub] = v
    return None


def mon_no_hang(ops, lines):
    """C07: after the runtime was allowed to settle, every call has an answer."""
    settled = False
    for i, (o, r) in enumerate(zip(ops, lines)):
        if r.startswith("!"):
            return "C07-no-answer: op %d (%s) got %s" % (i, o.split(" ")[0], r[:60])
        if o == "Q":
            settled = True
        if settled and o.startswith("JOIN ") and r.split(" ")[2:] == ["-"]:
            src = next((x for x in ops if x.startswith("BG %s " % o.split(" ")[1])), "")
            blocking = src.split(" ")[2:3] == ["PULL"] and src.endswith(" 0")
            if not blocking:
                return "C07-pending: call %s (%s) has no answer although the server is idle" % (o.split(" ")[1], src.split(" ")[2])
    if len(lines) < len(ops):
        return "C07-no-answer: the case stopped at op %d" % len(lines)
    return None


def mon_pull_complete(ops, lines):
    """C08 / C15 on cases whose only consumer is a synchronous unary Pull that is always read to the end: what a Pull
    leases it returns - the ack ids seen are 1, 2, 3, … without a gap, and the STATS right after a Pull shows as many
    outstanding deliveries as that Pull returned (nothing had been outstanding before it) - and then mon_order."""
    h = History(ops, lines)
    if h.bad:
        return "C08-" + h.bad
    seen = set()
    for i, ev in enumerate(h.events):
        if ev["op"][0] == "PULL" and ev["code"] == "0":
            for d in ev["msgs"]:
                if is_u64(d.ack):
                    seen.add(ack_value(d.ack))
    if seen:
        gap = next(a for a in range(1, max(seen) + 2) if a not in seen)
        if gap < max(seen):
            return ("C08-leased-not-returned: the Pulls of this case returned ack ids up to %d but never %d: a delivery was "
                    "leased that no response carried (its message comes back only after the ack deadline, behind messages "
                    "published later)" % (max(seen), gap))
    for i, (o, r) in enumerate(zip(ops, lines)):
        ot, rt = o.split(" "), r.split(" ")
        if ot[0] == "PULL" and rt[:2] == ["PULL", "0"] and i >= 1 and i + 1 < len(lines):
            before, after = lines[i - 1].split(" "), lines[i + 1].split(" ")
            if ops[i - 1].startswith("STATS ") and ops[i + 1].startswith("STATS ") and before[1:3] == ["0", "0"] and after[1] == "0":
                if int(after[2]) != int(rt[2]):
                    return ("C15-leased-not-returned: the Pull at op %d returned %s messages, yet %s deliveries are "
                            "outstanding right after it (none were before)" % (i, rt[2], after[2]))
    return mon_order(ops, lines)


def mon_stats_lease(ops, lines):
    """C04 read off STATS in cases whose only consumer is a synchronous Pull (every delivery is seen): a delivery whose
    promised lease ended more than 250 ms ago is no longer outstanding - the count STATS reports is at most the number
    of deliveries seen whose lease (never extended here) may still run; then the deadline reading."""
    h = History(ops, lines)
    if h.bad:
        return "C04-" + h.bad
    seen = []       # deliveries so far
    gone = set()    # ack ids acknowledged or modified
    for ev in h.events:
        k = ev["op"][0]
        if k == "PULL" and ev["code"] == "0":
            seen += ev["msgs"]
        elif k in ("ACK", "MOD") and ev["code"] == "0":
            gone |= set(ev["ids"])
        elif k == "STATS" and ev["code"] == "0":
            live = [d for d in seen if d.sub == ev["op"][1] and d.ack not in gone and d.t + (d.dl or 10) * 10 ** 9 + 250 * MS_NS > ev["t"]]
            if int(ev["res"][2]) > len(live):
                late = [d for d in seen if d.sub == ev["op"][1] and d.ack not in gone and d not in live]
                return ("C04-not-requeued-at-deadline: STATS at %d ns shows %s outstanding deliveries, but only %d of the deliveries "
                        "made can still be within their lease; e.g. message %r was delivered at %d ns with a %d s deadline (op %d)"
                        % (ev["t"], ev["res"][2], len(live), unhx(late[0].mid) if late else b"?", late[0].t if late else 0,
                           (late[0].dl or 10) if late else 10, ev["i"]))
    return mon_deadline(ops, lines)


def mon_topic_balance(ops, lines):
    """C10 per topic name, on cases with one topic name: (successful creates) - (successful deletes) is 0 or 1 after
    every op and says what Get / a further create / Publish / Delete answer next (XDT counts as delete, create,
    delete with the outcomes it reports; its second delete overlaps the other two and may also fail)."""
    bal = 0
    for i, (o, r) in enumerate(zip(ops, lines)):
        if r.startswith("!"):
            return "C10-noanswer: op %d got %s" % (i, r[:60])
        ot, rt = o.split(" "), r.split(" ")
        want = None
        if ot[0] == "CT":
            want = "0" if bal == 0 else "6"
            if rt[1] != want:
                return ("C10-not-linearizable: CreateTopic answered %s at op %d although successful creates minus successful "
                        "deletes of that name is %d" % (rt[1], i, bal))
            if rt[1] == "0":
                bal += 1
        elif ot[0] == "DT":
            want = "0" if bal == 1 else "5"
            if rt[1] != want:
                return ("C10-not-linearizable: DeleteTopic answered %s at op %d although successful creates minus successful "
                        "deletes of that name is %d" % (rt[1], i, bal))
            if rt[1] == "0":
                bal -= 1
        elif ot[0] == "XDT":
            for j, (what, res) in enumerate(zip(("delete", "create", "delete"), rt[1:4])):
                ok = res == "ok"
                should = (bal == 1) if what == "delete" else (bal == 0)
                # the second delete overlaps the first and the create (its holder looked the name up before either):
                # it may take effect before the create (nothing to delete: error) or after it (deletes the new topic)
                if j == 2 and not ok:
                    continue
                if ok != should:
                    return ("C10-not-linearizable: the %s inside XDT answered %s at op %d although successful creates minus "
                            "successful deletes of that name was %d" % (what, res, i, bal))
                if ok:
                    bal += 1 if what == "create" else -1
        elif ot[0] in ("GT", "PUB"):
            want = "0" if bal == 1 else "5"
            if rt[1] != want:
                return ("C10-not-linearizable: %s answered %s at op %d although successful creates minus successful deletes of "
                        "that name is %d: the topic %s" % (ot[0], rt[1], i, bal, "exists" if bal == 1 else "does not exist"))
        elif ot[0] == "LT" and rt[1] == "0":
            if int(rt[2]) != bal:
                return "C10-not-linearizable: ListTopics shows %s topics at op %d, creates minus deletes is %d" % (rt[2], i, bal)
    return None


def mon_late_ack(ops, lines):
    """C02 with the clock moving right after Acknowledge has returned: every acknowledge of the LACK op returned OK
    while its delivery was outstanding (the STATS before it says so), so afterwards nothing is delivered again and
    nothing is outstanding or queued."""
    acked = False
    for i, (o, r) in enumerate(zip(ops, lines)):
        if r.startswith("!"):
            return "C02-noanswer: op %d got %s" % (i, r[:60])
        ot, rt = o.split(" "), r.split(" ")
        if ot[0] == "LACK":
            if rt[1] != ot[3]:
                return "C02-ack-refused: %s of %s acknowledgements of outstanding deliveries returned OK (op %d)" % (rt[1], ot[3], i)
            prev = lines[i - 1].split(" ")
            acked = prev[0] == "STATS" and prev[1] == "0" and prev[2] == ot[3]
        elif acked and ot[0] == "PULL" and rt[1] == "0" and int(rt[2]) > 0:
            return ("C02-redelivered-after-ack: %s message(s) delivered at op %d although every delivery had been acknowledged "
                    "(each Acknowledge had returned OK one second before the deadline)" % (rt[2], i))
        elif acked and ot[0] == "STATS" and rt[1] == "0" and (rt[2] != "0" or rt[3] != "0"):
            return ("C02-ack-not-final: after every delivery was acknowledged (each call returned OK before the deadline) "
                    "the subscription shows %s outstanding, %s queued at op %d" % (rt[2], rt[3], i))
    return None


def mon_backed_up(ops, lines):
    """C06 next to a StreamingPull handler suspended at the hand-over of a batch (its last XQ produced a batch and it is
    not polled again - a client that has stopped reading): the reading of mon_wait for the consumers that do wait.
    Cases in which the held handler is anywhere else are not judged (a handler that awaits the signal and is never
    polled would swallow the wake-up by the harness's own doing)."""
    last = None
    for o, r in zip(ops, lines):
        if o.startswith("XQ "):
            last = r
    if last is None or not last.startswith("XQ batch"):
        return None
    return mon_wait(ops, lines)


def mon_push_late_answer(ops, lines):
    """C14 with the real loop and an endpoint that accepts later than one push interval (within the ack deadline): each
    message is POSTed exactly once, and once the loop has run its course nothing is outstanding or queued."""
    npub = 0
    for i, (o, r) in enumerate(zip(ops, lines)):
        if r.startswith("!"):
            return "C14-noanswer: op %d got %s" % (i, r[:60])
        ot, rt = o.split(" "), r.split(" ")
        if ot[0] == "PUB" and rt[1] == "0":
            npub += int(ot[2])
        if ot[0] == "LOOP":
            if int(rt[1]) != 1:
                return "C14-loop-posts: POSTs for %s subscriptions during the loop (expected the one push subscription) (op %d)" % (rt[1], i)
            count, nids = int(rt[3]), int(rt[4])
            if nids != npub:
                return "C14-not-pushed: %d of %d published messages were POSTed by the loop (op %d)" % (nids, npub, i)
            if count != nids:
                return ("C14-post-after-accept: %d POSTs for %d messages although the endpoint accepts every POST 700 ms after "
                        "it arrived, well within the 10 s ack deadline (op %d)" % (count, nids, i))
        if ot[0] == "STATS" and rt[1] == "0" and (rt[2] != "0" or rt[3] != "0"):
            return ("C14-accepted-not-acked: every POST was accepted (200, 700 ms after it arrived; ack deadline 10 s), yet "
                    "%s deliveries are still outstanding and %s messages queued after the loop (op %d)" % (rt[2], rt[3], i))
        if ot[0] == "PULL" and rt[1] == "0" and rt[2] != "0":
            return "C14-accepted-not-acked: a message the endpoint had accepted is still delivered to a Pull (op %d)" % i
    return None


def mon_push_delete(ops, lines):
    """C14, last clause, on the endpoint's own record: after DeleteSubscription has answered OK in the middle of a push
    pass, at most one more POST arrives (the one that was on the wire), however many messages the page held."""
    for i, (o, r) in enumerate(zip(ops, lines)):
        if r.startswith("!"):
            return "C14-noanswer: op %d got %s" % (i, r[:60])
        ot, rt = o.split(" "), r.split(" ")
        if ot[0] == "LOOPDEL":
            if rt[1] != "0":
                return "C14-delete-status: DeleteSubscription of a push subscription in the middle of a pass answered %s (op %d)" % (rt[1], i)
            if int(rt[3]) > 1:
                return ("C14-pushed-after-delete: %s POSTs arrived at the endpoint after DeleteSubscription had answered "
                        "(%s had arrived before) (op %d)" % (rt[3], rt[2], i))
        if ot[0] == "GS" and rt[1] == "0":
            return "C14-deleted-but-found: the deleted push subscription is still returned by GetSubscription (op %d)" % i
        if ot[0] == "REG" and rt[1] != "0":
            return "C14-deleted-but-registered: the push registry still lists the deleted subscription (op %d)" % i
    return None


def mon_push(ops, lines):
    """C14 on the endpoint's own record: only push subscriptions are POSTed to; the body names the subscription and
    carries the published data, attributes and id; a message is POSTed again in a later round as long as no POST of
    it was answered 102/200/201/202/204, and never after one was; nothing is POSTed for a deleted subscription."""
    ACCEPT = {"102", "200", "201", "202", "204"}
    push_subs, deleted = set(), set()
    published = {}      # id -> (data, attrs)
    accepted = {}       # (sub, id) -> round index of the accepting answer
    pending = {}        # (sub, id) -> True while the last answer was a failure
    rnd = 0
    for i, (o, r) in enumerate(zip(ops, lines)):
        if r.startswith("!"):
            return "C14-noanswer: op %d got %s" % (i, r[:60])
        ot, rt = o.split(" "), r.split(" ")
        if ot[0] == "CS" and rt[1:2] == ["0"] and ot[4] != "~":
            push_subs.add(ot[1])
        if ot[0] == "DS" and rt[1:2] == ["0"]:
            deleted.add(ot[1])
        if ot[0] == "PUB" and rt[1:2] == ["0"]:
            toks, j, recs = ot, 3, []
            for _ in range(int(ot[2])):
                data, na = toks[j], int(toks[j + 1]); j += 2
                at = []
                for _ in range(na):
                    at.append((toks[j], toks[j + 1])); j += 2
                recs.append((data, tuple(sorted(at, key=lambda kv: unhx(kv[0])))))
            for mid, rec in zip(rt[3:], recs):
                published[mid] = rec
        if ot[0] == "ROUND":
            rnd += 1
            n, j = int(rt[1]), 2
            seen_now = set()
            for _ in range(n):
                k, sub, mid, eq, data, na = rt[j], rt[j + 1], rt[j + 2], rt[j + 3], rt[j + 4], int(rt[j + 5]); j += 6
                at = []
                for _ in range(na):
                    at.append((rt[j], rt[j + 1])); j += 2
                ans = rt[j]; j += 1
                if sub not in push_subs:
                    return "C14-not-a-push-subscription: POST for %r" % unhx(sub)
                if sub in deleted:
                    return "C14-post-after-delete: POST for deleted subscription %r" % unhx(sub)
                if eq != "1":
                    return "C14-payload-ids: messageId/message_id or publishTime fields differ"
                if mid not in published:
                    return "C14-payload-id: POST carries id %r that no Publish returned" % unhx(mid)
                if data != published[mid][0]:
                    return "C14-payload-data: POST of %r carries different data" % unhx(mid)
                if tuple(at) != published[mid][1]:
                    return "C14-payload-attributes: POST of %r carries attributes %r, published %r" % (unhx(mid), at, published[mid][1])
                key = (sub, mid)
                if key in accepted:
                    return ("C14-post-after-accept: message %r was POSTed again to %r after the endpoint had answered %s"
                            % (unhx(mid), unhx(sub), accepted[key]))
                seen_now.add(key)
                if ans.startswith("slow"):
                    ans = ans[4:]       # answered after 11 s - within the ack deadline of the cases that use it
                if ans in ACCEPT:
                    accepted[key] = ans
                    pending.pop(key, None)
                elif ans != "hang":
                    pending[key] = rnd
            # every message whose last POST failed in an earlier round must be POSTed in this one
            for key, r0 in list(pending.items()):
                if r0 < rnd and key not in seen_now and key[0] not in deleted:
                    return ("C14-not-retried: message %r failed on %r in round %d and was not POSTed in round %d"
                            % (unhx(key[1]), unhx(key[0]), r0, rnd))
    return None


def mon_racing_namespace(ops, lines):
    """C10 under racing clients, read off the answers: once a create (OK or ALREADY_EXISTS) or a delete (OK) has
    returned, the same client's next request observes it; of several racing creates of one absent name exactly one
    succeeds; of racing deletes of one present name exactly one succeeds and the rest answer NOT_FOUND."""
    creates, deletes = {}, {}
    for i, (o, r) in enumerate(zip(ops, lines)):
        if r.startswith("!"):
            return "C10-noanswer: op %d got %s" % (i, r[:60])
        ot, rt = o.split(" "), r.split(" ")
        if ot[0] != "JOIN" or rt[2:3] != ["SEQ"]:
            continue
        if rt[2:] == ["-"]:
            return "C10-pending: call %s has no answer" % ot[1]
        parts = " ".join(rt[3:]).split(" ;; ")
        if len(parts) != 2:
            continue
        a, b = parts[0].split(" "), parts[1].split(" ")
        src = next(x for x in ops if x.startswith("BG %s " % ot[1])).split(" ")
        name = src[4]
        if a[0] in ("DS", "DT"):
            deletes.setdefault((a[0], name), []).append(a[1])
            if a[1] == "0" and b[1] != "5":
                return ("C10-delete-not-observed: %s of %r returned OK but the same client's next Get answered %s"
                        % (a[0], unhx(name), b[1]))
            if a[1] not in ("0", "5"):
                return "C10-delete-status: racing %s answered %s" % (a[0], a[1])
        if a[0] == "CS" and a[1] not in ("0", "6") and any(x.startswith("BG ") and " SEQ DT " in x for x in ops):
            # a create racing the deletion of its topic may find the topic gone - then the name must not exist
            if a[1] != "5":
                return ("C10-create-status: CreateSubscription racing the deletion of its topic answered status %s (a create "
                        "answers OK, ALREADY_EXISTS, or NOT_FOUND for the topic)" % a[1])
            if b[1] != "5":
                return ("C10-failed-create-left-name: CreateSubscription of %r answered NOT_FOUND (its topic was being deleted) "
                        "and the same client's next Get finds the subscription" % unhx(name))
            continue
        if a[0] in ("CS", "CT"):
            creates.setdefault((a[0], name), []).append(a[1])
            if a[1] in ("0", "6") and b[1] != "0":
                return ("C10-create-not-observed: %s of %r returned %s but the same client's next Get answered %s"
                        % (a[0], unhx(name), "OK" if a[1] == "0" else "ALREADY_EXISTS", b[1]))
            if a[1] not in ("0", "6"):
                return "C10-create-status: racing %s answered %s" % (a[0], a[1])
    for (k, name), codes in creates.items():
        if codes.count("0") != 1:
            return "C10-create-not-atomic: %d of %d racing %s of %r succeeded" % (codes.count("0"), len(codes), k, unhx(name))
    for (k, name), codes in deletes.items():
        if codes.count("0") < 1:
            return "C10-delete-lost: none of %d racing %s of %r succeeded" % (len(codes), k, unhx(name))
        if codes.count("0") > 1:
            return ("C10-delete-not-atomic: %d of %d racing %s of %r answered OK - only one caller can have deleted it, "
                    "the others find it absent (NOT_FOUND)" % (codes.count("0"), len(codes), k, unhx(name)))
    return None


def mon_fanout(ops, lines):
    """C01 on the implementation's own answers, for calls issued one after the other (racing calls are left to
    mon_order_conc): (1) nothing foreign - every delivery on a subscription is a message published to the topic
    instance it was created on, by a Publish that had not completed before the subscription was created; (2) nothing
    lost - once a drain epilogue (gen.with_drain) has let every lease run out and has pulled a subscription until an
    empty answer, every message posted to that subscription instance and never named in an acknowledgement has been
    delivered during the drain."""
    from gen import DRAIN_ADV
    h = History(ops, lines)
    if h.bad:
        return "C01-" + h.bad
    topic_inst, sub_inst, n_inst = {}, {}, [0]
    stream_inst = {}
    drain_at = None
    bg_pub = {}

    def new_inst():
        n_inst[0] += 1
        return n_inst[0]

    def deliver(inst, name, d, idx):
        if inst is None:
            return None
        if d.mid not in inst["allowed"]:
            return ("C01-foreign: %r received message %r at op %d, which was never published to its topic while it "
                    "existed" % (unhx(name), unhx(d.mid), idx))
        inst["by_ack"].setdefault(d.ack, (d.mid, idx))
        inst["when"].setdefault(d.ack, (d.t, d.dl))
        inst["seen"].setdefault(d.mid, []).append((idx, d.ack))
        if drain_at is not None:
            inst["drained"].add(d.mid)
        return None

    for ev in h.events:
        ot, code, k, idx = ev["op"], ev["code"], ev["op"][0], ev["i"]
        if k == "CT" and code == "0":
            topic_inst[ot[1]] = new_inst()
        elif k == "DT" and code == "0":
            topic_inst.pop(ot[1], None)
        elif k == "CS" and code == "0":
            sub_inst[ot[1]] = {"topic": topic_inst.get(ot[2]), "posted": set(), "allowed": set(), "acked": [],
                               "by_ack": {}, "seen": {}, "when": {}, "modified": set(), "drained": set(), "empty": False, "unsure": False}
        elif k == "DS" and code == "0":
            sub_inst.pop(ot[1], None)
        elif k in ("PUB", "PUBN") and code == "0":
            ti = topic_inst.get(ot[1])
            for inst in sub_inst.values():
                if ti is not None and inst["topic"] == ti:
                    inst["posted"].update(ev["ids"])
                    inst["allowed"].update(ev["ids"])
        elif k == "BG":
            # a call that runs concurrently with what follows: which subscriptions it reaches is not determined
            # by the issue order, so subscriptions of that topic are not judged for loss, and its ids are allowed
            if ot[2] in ("PUB", "PUBN"):
                bg_pub[ot[1]] = topic_inst.get(ot[3])
            for inst in sub_inst.values():
                inst["unsure"] = True
        elif k == "JOIN" and ot[1] in bg_pub and ev["res"][2:4] == ["PUB", "0"]:
            ids = ev["res"][5:5 + int(ev["res"][4])]
            for inst in sub_inst.values():
                inst["allowed"].update(ids)
        elif k == "SEQ":
            inner = [x.split(" ")[0] for x in " ".join(ot[1:]).split(" ;; ")]
            if any(x not in ("ADV", "STATS", "GS", "GT") for x in inner):
                for inst in sub_inst.values():
                    inst["unsure"] = True
        elif k == "ADV" and int(ot[1]) == DRAIN_ADV:
            drain_at = idx
        elif k == "SO" and code == "0":
            stream_inst[ot[1]] = (ot[2], sub_inst.get(ot[2]))
        if k in ("ACK",) and code == "0":
            inst = sub_inst.get(ot[1])
            if inst:
                inst["acked"] += [(ack_value(a), idx, ev["t"]) for a in ev["ids"] if is_u64(a)]
        if k == "MOD":
            inst = sub_inst.get(ot[1])
            if inst:
                inst["modified"].update(ack_value(a) for a in ev.get("ids", []) if is_u64(a))
        if k == "SS":
            name, inst = stream_inst.get(ot[1], (None, None))
            if inst:
                inst["acked"] += [(ack_value(a), idx, ev["t"]) for a in ev["acks"] if is_u64(a)]
                inst["modified"].update(ack_value(a) for a in ev.get("mods", []) if is_u64(a))
        for d in ev.get("msgs", []):
            inst = sub_inst.get(d.sub)
            w = deliver(inst, d.sub, d, idx)
            if w:
                return w
        if k == "PULL" and code == "0" and drain_at is not None and not ev.get("msgs"):
            inst = sub_inst.get(ot[1])
            if inst:
                inst["empty"] = True
        for b in ev.get("batches", []):
            for d in b:
                name, inst = stream_inst.get(ev["sid"], (None, None))
                if inst is not None and sub_inst.get(name) is not inst:
                    inst = None         # the subscription was deleted meanwhile: batches sent before that still arrive
                w = deliver(inst, name, d, idx)
                if w:
                    return w
    if drain_at is None:
        return None
    for name, inst in sub_inst.items():
        if not inst["empty"] or inst["unsure"]:
            continue
        # a delivery may be acknowledged before the script has read it off its stream: resolve ack ids at the end
        # ... and an ack id is inert (C04) once the script has seen the message handed out again under a newer id
        by_val = {ack_value(ack): (ack, v) for ack, v in inst["by_ack"].items() if is_u64(ack)}
        acked = set()
        # ... or once its lease has certainly run out: it was never named in a modification, and the acknowledgement
        # was issued more than the promised lease (+ 100 ms of rounding, + 100 ms) after the script saw the delivery
        for val, ia, ta in inst["acked"]:
            if val not in by_val:
                continue
            ack, (mid, di) = by_val[val]
            t0, dl = inst["when"].get(ack, (None, None))
            expired = (t0 is not None and dl and val not in inst["modified"] and di < ia
                       and ta > t0 + int(dl) * 10 ** 9 + 200 * 10 ** 6)
            if expired:
                continue
            if not any(di < j < ia and a2 != ack for j, a2 in inst["seen"].get(mid, [])):
                acked.add(mid)
        lost = inst["posted"] - acked - inst["drained"]
        if lost:
            return ("C01-lost: %d message(s) published to the topic of %r while it was attached (e.g. id %r) were never "
                    "acknowledged, yet a drain after every lease had run out (op %d on) did not deliver them"
                    % (len(lost), unhx(name), unhx(sorted(lost)[0]), drain_at))
    return None


def mon_namespace(ops, lines):
    """C10 / C11 on the implementation's own answers, for calls issued one after the other: the namespace the
    answers imply (a name exists from its successful create to its successful delete) must explain every status -
    no create succeeds on a live name or reports ALREADY_EXISTS for an absent one, get/delete/pull/publish answer
    NOT_FOUND exactly for absent names; GetSubscription reports the topic while that topic instance lives and the
    sentinel afterwards (also when a namesake topic was created since); complete listings (first page, no next
    token) of a topic / of a project equal the live subscriptions created on that topic instance / the live names
    of the project, in creation order."""
    topics, subs = {}, {}
    n = [0]

    def proj(name):
        m = TOPIC_SHAPE.match(unhx(name)) or SUB_SHAPE.match(unhx(name))
        return m.group(1) if m else None

    for i, (o, r) in enumerate(zip(ops, lines)):
        ot, rt = o.split(" "), r.split(" ")
        if r.startswith("!"):
            return "C10-noanswer: op %d got %s" % (i, r[:60])
        k = ot[0]
        code = rt[1] if len(rt) > 1 else None
        if k in ("BG", "SEQ", "MODE"):
            return None        # concurrent calls: the issue order no longer determines the namespace
        if code == "3" or code is None:
            continue
        if k == "CT":
            if code == "0":
                if ot[1] in topics:
                    return "C10-duplicate: CreateTopic %r succeeded at op %d although the topic exists" % (unhx(ot[1]), i)
                n[0] += 1
                topics[ot[1]] = n[0]
            elif code == "6" and ot[1] not in topics:
                return "C10-phantom: CreateTopic %r answered ALREADY_EXISTS at op %d but no such topic exists" % (unhx(ot[1]), i)
        elif k in ("GT", "DT", "PUB", "PUBN", "LTS"):
            present = ot[1] in topics
            if code not in ("0", "5"):
                return ("C10-wrong-status: %s of the %s topic %r answered status %s at op %d (a well-formed request on a "
                        "name answers OK or NOT_FOUND)" % (k, "live" if present else "absent", unhx(ot[1]), code, i))
            if code == "0" and not present:
                return "C10-absent-ok: %s of the absent topic %r answered OK at op %d" % (k, unhx(ot[1]), i)
            if code == "5" and present:
                return "C10-present-notfound: %s of the live topic %r answered NOT_FOUND at op %d" % (k, unhx(ot[1]), i)
            if k == "DT" and code == "0":
                del topics[ot[1]]
            if k == "LTS" and code == "0" and ot[3] == "-" and rt[-1] == "-":
                got = rt[3:3 + int(rt[2])]
                want = [s for s, v in sorted(subs.items(), key=lambda kv: kv[1]["order"])
                        if v["topic"] == ot[1] and v["inst"] == topics[ot[1]]]
                if got != want:
                    return ("C11-topic-list: ListTopicSubscriptions(%r) at op %d = %r, the live subscriptions created on it "
                            "are %r" % (unhx(ot[1]), i, [unhx(x) for x in got], [unhx(x) for x in want]))
        elif k == "CS":
            if code == "0":
                if ot[1] in subs:
                    return "C10-duplicate: CreateSubscription %r succeeded at op %d although it exists" % (unhx(ot[1]), i)
                if ot[2] not in topics:
                    return "C10-absent-ok: CreateSubscription on the absent topic %r succeeded at op %d" % (unhx(ot[2]), i)
                n[0] += 1
                subs[ot[1]] = {"topic": ot[2], "inst": topics[ot[2]], "order": n[0], "ep": rt[5] if len(rt) > 5 else "~"}
            elif code == "6" and ot[1] not in subs:
                return ("C10-phantom: CreateSubscription %r answered ALREADY_EXISTS at op %d but no such subscription "
                        "exists" % (unhx(ot[1]), i))
            elif code == "5" and ot[2] in topics:
                return "C10-present-notfound: CreateSubscription on the live topic %r answered NOT_FOUND at op %d" % (unhx(ot[2]), i)
        elif k == "REG" and rt[0] == "REG" and len(rt) > 1 and rt[1].isdigit():
            # the push registry holds exactly the live push subscriptions (a deleted one receives nothing further: C11, C14)
            cnt = int(rt[1])
            reg = {rt[2 + 2 * j]: rt[3 + 2 * j] for j in range(cnt)}
            want = {nm: v["ep"] for nm, v in subs.items() if v.get("ep", "~") != "~"}
            for nm in reg:
                if nm not in want:
                    return ("C11-registered-after-delete: the push registry still holds %r (endpoint %r) at op %d although no such "
                            "push subscription exists - whatever is created under that name next is pushed there"
                            % (unhx(nm), unhx(reg[nm]), i))
            for nm in want:
                if nm not in reg:
                    return "C14-not-registered: the push subscription %r exists at op %d and is not in the push registry" % (unhx(nm), i)
        elif k in ("GS", "DS", "PULL", "STATS"):
            present = ot[1] in subs
            if code not in ("0", "5"):
                return ("C10-wrong-status: %s of the %s subscription %r answered status %s at op %d (a well-formed request "
                        "on a name answers OK or NOT_FOUND)" % (k, "live" if present else "absent", unhx(ot[1]), code, i))
            if code == "0" and not present:
                return "C11-zombie: %s of %r answered OK at op %d although it was deleted (or never created)" % (k, unhx(ot[1]), i)
            if code == "5" and present:
                return "C10-present-notfound: %s of the live subscription %r answered NOT_FOUND at op %d" % (k, unhx(ot[1]), i)
            if k == "GS" and code == "0":
                v = subs[ot[1]]
                live = topics.get(v["topic"]) == v["inst"]
                want = v["topic"] if live else hx("_deleted_topic_")
                if rt[3] != want:
                    return ("C11-topic-field: GetSubscription(%r) at op %d reports topic %r, expected %r"
                            % (unhx(ot[1]), i, unhx(rt[3]), unhx(want)))
            if k == "DS" and code == "0":
                del subs[ot[1]]
        elif k in ("ACK", "MOD") and code in ("0", "5"):
            # a data-plane call on a name: OK exactly when the name exists (whatever its id list says, an empty one included)
            present = ot[1] in subs
            if code == "0" and not present:
                return ("C10-absent-ok: %s on %r answered OK at op %d although no such subscription exists (deleted or "
                        "never created)" % ("Acknowledge" if k == "ACK" else "ModifyAckDeadline", unhx(ot[1]), i))
            if code == "5" and present:
                return "C10-present-notfound: %s of the live subscription %r answered NOT_FOUND at op %d" % (k, unhx(ot[1]), i)
        elif k == "LT" and code == "0" and ot[3] == "-" and rt[-1] == "-":
            got = rt[3:3 + int(rt[2])]
            pm = re.match(rb"^projects/([^/]*)$", unhx(ot[1]))
            if pm:
                want = [t for t, _ in sorted(topics.items(), key=lambda kv: kv[1]) if proj(t) == pm.group(1)]
                if got != want:
                    return "C10-list: ListTopics(%r) at op %d = %r, live topics are %r" % (
                        unhx(ot[1]), i, [unhx(x) for x in got], [unhx(x) for x in want])
        elif k == "LS" and code == "0" and ot[3] == "-" and rt[-1] == "-":
            cnt = int(rt[2])
            got = [rt[3 + 4 * j] for j in range(cnt)]
            pm = re.match(rb"^projects/([^/]*)$", unhx(ot[1]))
            if pm:
                want = [s for s, _ in sorted(subs.items(), key=lambda kv: kv[1]["order"]) if proj(s) == pm.group(1)]
                if got != want:
                    return "C10-list: ListSubscriptions(%r) at op %d = %r, live subscriptions are %r" % (
                        unhx(ot[1]), i, [unhx(x) for x in got], [unhx(x) for x in want])
    return None


def mon_cs(ops, lines):
    """C06 / C12 / C15 on the answers of the held-handler cases (gen.cs_cases): the case ends with 2n+3 rounds of
    (runtime runs; every live consumer polled once) and STATS.  After them: while the subscription exists and
    STATS shows a non-empty backlog, no unary handler may still be pending and no stream may have gone its last
    three polls without a batch (C06); after a deletion no consumer may be pending (C12); no blocking Pull answers
    with no messages (the cases stay below its 300 s limit) and no stream response is empty (C15)."""
    deleted = False
    last, streams, recent = {}, set(), {}
    for i, (o, r) in enumerate(zip(ops, lines)):
        ot, rt = o.split(" "), r.split(" ")
        if r.startswith("!"):
            return "C07-noanswer: op %d (%s) got %s" % (i, ot[0], r[:60])
        if ot[0] == "DS" and rt[1:2] == ["0"]:
            deleted = True
        if ot[0] == "XS" and r == "XS":
            streams.add(ot[1])
        if ot[0] == "XQ":
            st = rt[1] if len(rt) > 1 else "?"
            if st != "gone":
                last[ot[1]] = st
                recent.setdefault(ot[1], []).append(st)
            if rt[1:4] == ["done", "0", "0"]:
                return "C15-empty-blocking-pull: handler %s answered with no messages at op %d, before its wait limit" % (ot[1], i)
            if rt[1:3] == ["batch", "0"]:
                return "C15-empty-stream-response: stream %s produced a response without messages at op %d" % (ot[1], i)
        if ot[0] == "XD":
            last.pop(ot[1], None)
    if len(lines) < len(ops):
        return None
    fin = lines[-1].split(" ")
    waiting = sorted(k for k, v in last.items() if v == "pending" and k not in streams)
    stalled = sorted(k for k, v in last.items() if k in streams and v in ("pending", "batch")
                     and "batch" not in recent.get(k, [])[-3:])
    if deleted and (waiting or [k for k in streams if last.get(k) in ("pending", "batch")]):
        who = waiting + [k for k in sorted(streams) if last.get(k) in ("pending", "batch")]
        return "C12-not-released: after the deletion handler(s) %s are still open at the end of the case" % ",".join(who)
    if not deleted and fin[:2] == ["STATS", "0"] and int(fin[3]) > 0 and (waiting or stalled):
        return ("C06-lost-wakeup: backlog is %s at the end of the case, after every consumer had its turns, and handler(s) %s "
                "are still waiting (streams: no batch in their last three polls)" % (fin[3], ",".join(waiting + stalled)))
    return None


def mon_pull_limit(ops, lines):
    """C07: a blocking Pull returns no later than its 300 s wait limit (plus a tick), whatever woke it meanwhile."""
    now, started = 0, {}
    for i, (o, r) in enumerate(zip(ops, lines)):
        ot, rt = o.split(" "), r.split(" ")
        if r.startswith("!"):
            return "C07-noanswer: op %d got %s" % (i, r[:60])
        if ot[0] == "ADV":
            now += int(ot[1])
        if ot[0] == "BG" and ot[2:3] == ["PULL"] and ot[-1] == "0":
            started[ot[1]] = now
        if ot[0] == "JOIN" and ot[1] in started:
            if rt[2:] == ["-"]:
                if now - started[ot[1]] >= 301 * 10 ** 9:
                    return ("C07-pull-exceeds-limit: blocking Pull %s is still waiting %.1f s after it was issued (limit 300 s)"
                            % (ot[1], (now - started[ot[1]]) / 1e9))
            else:
                started.pop(ot[1])
    return None


def mon_create_delete_race(ops, lines):
    """C11 at the quiescent moments of gen.create_delete_race_cases: what the topic lists is exactly what exists
    (GetSubscription), and the topic still publishes."""
    exists = {}
    last_pub = None
    for i, (o, r) in enumerate(zip(ops, lines)):
        ot, rt = o.split(" "), r.split(" ")
        if r.startswith("!"):
            return "C07-noanswer: op %d got %s" % (i, r[:60])
        if ot[0] in ("BG", "DS", "CS"):
            last_pub = None
        if ot[0] == "JOIN" and rt[2:] == ["-"]:
            return "C07-pending: call %s has no answer although the server is idle" % ot[1]
        if ot[0] == "XD2":
            if rt[1:] and "second=ok" in rt and rt[-1] == "present":
                return ("C11-delete-returned-early: a second DeleteSubscription(%r) answered OK while the first one was "
                        "still waiting for the topic, and the subscription was still in the manager at that moment "
                        "(op %d: %s)" % (unhx(ot[4]), i, " ".join(rt[1:])))
            continue
        if ot[0] == "GS":
            exists[ot[1]] = rt[1:2] == ["0"]
        if ot[0] == "LTS" and rt[1:2] == ["0"]:
            listed = set(rt[3:3 + int(rt[2])])
            for name, ex in exists.items():
                if name in listed and not ex:
                    return ("C11-stale-attachment: the topic lists %r at op %d, but GetSubscription answers NOT_FOUND"
                            % (unhx(name), i))
                if ex and name not in listed:
                    return ("C16-half-created: %r exists at op %d but its topic does not list it" % (unhx(name), i))
        if ot[0] == "PUB" and rt[1:2] != ["0"]:
            return "C11-publish-fails: Publish on the live topic answered %s at op %d" % (rt[1] if len(rt) > 1 else "?", i)
        if ot[0] == "PUB" and rt[1:2] == ["0"] and int(rt[2]) == 1:
            last_pub = (i, rt[3])
        if ot[0] == "PULL" and rt[1:2] == ["0"] and exists.get(ot[1]) and last_pub and last_pub[0] < i:
            msgs, _ = parse_msgs(rt, 3, int(rt[2]))
            if last_pub[1] not in [m[1] for m in msgs]:
                return ("C01-not-delivered: %r exists and is listed by its topic, yet the message published at op %d "
                        "(id %r) is not among the %d messages a Pull with room returns at op %d"
                        % (unhx(ot[1]), last_pub[0], unhx(last_pub[1]), len(msgs), i))
    return None


def mon_creation_order(ops, lines):
    """C13 while other requests are in flight: every answer of a List call names resources in the order in which
    they were created (the creates of these cases are issued one after the other), none twice."""
    order, created = {}, [0]
    for i, (o, r) in enumerate(zip(ops, lines)):
        ot, rt = o.split(" "), r.split(" ")
        if r.startswith("!"):
            return "C13-noanswer: op %d (%s) got %s" % (i, ot[0], r[:60])
        if ot[0] in ("CT", "CS") and rt[1:2] == ["0"]:
            created[0] += 1
            order[ot[1]] = created[0]
        elif ot[0] in ("BG", "SEQ", "XC") and any(x in ot for x in ("CT", "CS")):
            return None        # creates in flight together: their order is not the issue order
        elif ot[0] in ("LT", "LS", "LTS") and rt[1:2] == ["0"]:
            n = int(rt[2])
            step = 4 if ot[0] == "LS" else 1
            names = [rt[3 + step * q] for q in range(n)]
            idx = [order.get(x) for x in names]
            if None in idx:
                continue
            if len(set(names)) != len(names):
                return "C13-duplicate: %s at op %d lists a resource twice: %r" % (ot[0], i, [unhx(x) for x in names])
            if idx != sorted(idx):
                return ("C13-creation-order: %s at op %d "
                        "answers %r - not the order in which they were created" % (ot[0], i, [unhx(x) for x in names]))
    return None


def mon_exists_attached(ops, lines):
    """C16 / C11: a subscription that GetSubscription finds is listed by its topic and counts what is published."""
    found, before = {}, {}
    for i, (o, r) in enumerate(zip(ops, lines)):
        ot, rt = o.split(" "), r.split(" ")
        if r.startswith("!"):
            return "C16-wedged: op %d (%s) got %s" % (i, ot[0], r[:60])
        if ot[0] == "GS" and rt[1:2] == ["0"]:
            found[rt[2]] = rt[3]
        elif ot[0] == "LTS" and rt[1:2] == ["0"] and ot[3] == "-" and rt[-1] == "-":
            names = set(rt[3:3 + int(rt[2])])
            for sub, topic in found.items():
                if topic == ot[1] and sub not in names:
                    return ("C16-half-created: subscription %r exists and names topic %r, but the topic does not list it "
                            "(op %d)" % (unhx(sub), unhx(topic), i))
        elif ot[0] == "STATS" and rt[1:2] == ["0"]:
            tot = int(rt[2]) + int(rt[3])
            if ot[1] in before and before[ot[1]][2] is not None:
                b, topic, pub = before[ot[1]]
                if topic == rt[4] and tot != b + pub:
                    return ("C16-wedged-subscription: %r exists on %r and held %d messages; %d more were published to that "
                            "topic and it holds %d (op %d)" % (unhx(ot[1]), unhx(rt[4]), b, pub, tot, i))
            before[ot[1]] = (tot, rt[4], 0)
        elif ot[0] == "PUB" and rt[1:2] == ["0"]:
            for k2, (b, topic, pub) in list(before.items()):
                if topic == ot[1]:
                    before[k2] = (b, topic, pub + int(ot[2]))
        elif ot[0] in ("PULL", "ACK", "MOD", "ADV", "DS", "DT"):
            before.clear()
    return None


def mon_blocking_empty(ops, lines):
    """C15: a Pull without return_immediately answers with no messages only when its wait limit (300 s) has run out."""
    h = History(ops, lines)
    if h.bad:
        return "C15-" + h.bad
    started = {}
    for ev in h.events:
        ot, rt = ev["op"], ev["res"]
        if ot[0] == "BG" and ot[2:3] == ["PULL"] and ot[5:6] == ["0"]:
            started[ot[1]] = (ev["t"], ev["i"], ot[3])
        elif ot[0] == "JOIN" and ot[1] in started and rt[2:] != ["-"]:
            t0, at, sub = started.pop(ot[1])
            if rt[2:5] == ["PULL", "0", "0"] and ev["t"] - t0 < 299 * 10 ** 9:
                return ("C15-empty-blocking-pull: the Pull without return_immediately started at op %d on %r has answered "
                        "with no messages by op %d, %.1f s after it started (its wait limit is 300 s)"
                        % (at, unhx(sub), ev["i"], (ev["t"] - t0) / 1e9))
    return None


def mon_control_shape(ops, lines):
    """C17: a follow-up StreamingPull message whose modify-deadline ids and seconds differ in number is answered with
    INVALID_ARGUMENT (the stream ends with it) and changes nothing."""
    for i, (o, r) in enumerate(zip(ops, lines)):
        ot, rt = o.split(" "), r.split(" ")
        if r.startswith("!"):
            return "C17-noanswer: op %d (%s) got %s" % (i, ot[0], r[:60])
        if ot[0] == "SS" and rt[1:2] == ["1"]:
            na = int(ot[5])
            nm = int(ot[6 + na])
            ns = int(ot[7 + na + nm])
            if nm != ns:
                for j in range(i + 1, len(ops)):
                    oj, rj = ops[j].split(" "), lines[j].split(" ")
                    if oj[0] == "SR" and oj[1] == ot[1]:
                        if rj[-1] != "3":
                            return ("C17-inconsistent-accepted: the control message at op %d carries %d modify-deadline ids and %d "
                                    "seconds; the stream %s instead of ending with INVALID_ARGUMENT (op %d)"
                                    % (i, nm, ns, "is still open" if rj[-1] == "-" else "ended with status " + rj[-1], j))
                        break
    return None


def mon_ids_unique(ops, lines):
    """C09: whatever calls are in flight together, no message id is returned by two Publish calls (or twice by one), and
    no id is delivered with two different payloads."""
    seen, payload = {}, {}
    for i, (o, r) in enumerate(zip(ops, lines)):
        ot, rt = o.split(" "), r.split(" ")
        if r.startswith("!"):
            return "C09-noanswer: op %d (%s) got %s" % (i, ot[0], r[:60])
        ids = None
        if ot[0] in ("PUB", "PUBN") and rt[:2] == [rt[0], "0"] and len(rt) > 2:
            ids = rt[3:3 + int(rt[2])]
        elif ot[0] == "JOIN" and rt[2:4] == ["PUB", "0"]:
            ids = rt[5:5 + int(rt[4])]
        for x in ids or []:
            if x in seen:
                return ("C09-id-reused: message id %r was returned by the Publish at op %d and again by the one answered at op %d"
                        % (unhx(x), seen[x], i))
            seen[x] = i
        if ot[0] == "PULL" and rt[1:2] == ["0"]:
            msgs, _ = parse_msgs(rt, 3, int(rt[2]))
            for m in msgs:
                if m[1] in payload and payload[m[1]] != m[2]:
                    return "C09-payload: message id %r is delivered with two different payloads (op %d)" % (unhx(m[1]), i)
                payload[m[1]] = m[2]
    return None


def mon_delete_both(ops, lines):
    """C12 for gen.delete_both_cases: after the racing deletions and a retried DeleteSubscription have answered, the
    subscription is gone (Get answers NOT_FOUND), its stream has ended with NOT_FOUND and its blocked Pull has returned."""
    retried = None
    for i, (o, r) in enumerate(zip(ops, lines)):
        ot, rt = o.split(" "), r.split(" ")
        if r.startswith("!"):
            return "C12-noanswer: op %d (%s) got %s" % (i, ot[0], r[:60])
        if ot[0] == "JOIN" and ot[1] in ("900", "901") and rt[2:] == ["-"]:
            return "C07-pending: the deletion started as call %s has no answer" % ot[1]
        if ot[0] == "DS":
            retried = (i, rt[1] if len(rt) > 1 else None)
        elif retried and ot[0] == "GS":
            if rt[1:2] != ["5"]:
                return ("C12-half-deleted: after the racing DeleteTopic / DeleteSubscription and a retried DeleteSubscription "
                        "(answered %s at op %d) GetSubscription still finds %r (status %s): the deletion stopped half-way"
                        % (retried[1], retried[0], unhx(ot[1]), rt[1] if len(rt) > 1 else "?"))
        elif retried and ot[0] == "SR" and rt[-1] != "5":
            return ("C12-stream-not-released: the subscription is deleted, its stream %s (op %d)"
                    % ("is still open" if rt[-1] == "-" else "ended with status " + rt[-1], i))
        elif retried and ot[0] == "JOIN" and ot[1] == "100" and rt[2:] == ["-"]:
            return "C12-pull-not-released: the subscription is deleted, the Pull blocked on it is still waiting (op %d)" % i
    return None


def mon_request_order(ops, lines):
    """C08 for requests with ordering keys: one id per message, increasing; the i-th id is the id under which the i-th
    payload is delivered; first deliveries come in the order of acceptance (= id order)."""
    want = {}          # id -> payload it must carry
    last = -1
    delivered = []
    for i, (o, r) in enumerate(zip(ops, lines)):
        ot, rt = o.split(" "), r.split(" ")
        if r.startswith("!"):
            return "C08-noanswer: op %d (%s) got %s" % (i, ot[0], r[:60])
        if ot[0] in ("PUB", "PUBK") and rt[1:2] == ["0"]:
            k = int(ot[2])
            step = 2
            if ot[0] == "PUB":
                datas, j = [], 3
                for _ in range(k):
                    datas.append(ot[j]); j += 2 + 2 * int(ot[j + 1])
            else:
                datas = [ot[3 + step * q] for q in range(k)]
            ids = rt[3:3 + int(rt[2])]
            if len(ids) != k:
                return "C08-id-count: Publish of %d messages returned %d ids (op %d)" % (k, len(ids), i)
            for x, d in zip(ids, datas):
                v = int(unhx(x).decode())
                if v <= last:
                    return "C08-ids-not-increasing: id %d issued after %d (op %d)" % (v, last, i)
                last = v
                want[x] = d
        elif ot[0] == "PULL" and rt[1:2] == ["0"]:
            msgs, _ = parse_msgs(rt, 3, int(rt[2]))
            for m in msgs:
                if m[1] in want and want[m[1]] != m[2]:
                    return ("C08-id-of-another-message: id %r was returned for the message with payload %r, and is delivered "
                            "with payload %r (op %d): the ids of that Publish are not in request order"
                            % (unhx(m[1]), unhx(want[m[1]]), unhx(m[2]), i))
                delivered.append(int(unhx(m[1]).decode()))
    firsts = []
    for v in delivered:
        if v not in firsts:
            firsts.append(v)
    if firsts != sorted(firsts):
        return "C08-first-delivery-order: first deliveries came as %r, not in the order the messages were accepted" % firsts
    return None
