"""Shared plumbing: paths, building, running the two sides, comparing, evidence."""
import binascii, fcntl, hashlib, json, os, random, re, subprocess, sys, time

ROOT = os.path.dirname(os.path.dirname(os.path.abspath(__file__)))
REPO = "/repo"
CACHE = os.path.join(ROOT, ".cache")
# VERIF_ALT_REPO=<dir>: development aid for trying the checks on a scratch copy of the repository (seeded changes)
# without touching /repo: the harness crate is copied with its path dependency rewritten, everything else is the
# same.  Registered commands never set it; evidence written in this mode is marked and must not be committed.
ALT_REPO = os.environ.get("VERIF_ALT_REPO")
WORK = os.path.join(CACHE, "work-alt" if ALT_REPO else "work")
COQ = os.path.join(ROOT, "coq")
DRIVER = os.path.join(ROOT, "driver")
HARNESS_DIR = os.path.join(ROOT, "harness")
TARGET = os.path.join(CACHE, "target-alt" if ALT_REPO else "target")
HARNESS = os.path.join(TARGET, "release", "harness")
if ALT_REPO:
    REPO = ALT_REPO
MODELDRV = os.path.join(CACHE, "modeldrv")
RUSTFLAGS = "--cfg deltio_verif --cfg tokio_unstable"

OFFLINE_ENV = {"CARGO_NET_OFFLINE": "true", "GOPROXY": "off", "PIP_NO_INDEX": "1"}


def log(*a):
    print(*a, file=sys.stderr, flush=True)


def hx(s):
    b = s.encode("utf-8") if isinstance(s, str) else bytes(s)
    return binascii.hexlify(b).decode() if b else "-"


def unhx(t):
    return b"" if t == "-" else binascii.unhexlify(t)


def sh(cmd, cwd=None, env=None, timeout=None, check=True, capture=True):
    e = dict(os.environ)
    e.update(OFFLINE_ENV)
    if env:
        e.update(env)
    p = subprocess.run(cmd, cwd=cwd, env=e, shell=isinstance(cmd, str), timeout=timeout,
                       stdout=subprocess.PIPE if capture else None,
                       stderr=subprocess.STDOUT if capture else None, text=True)
    if check and p.returncode != 0:
        raise BuildError("command failed (%d): %s\n%s" % (p.returncode, cmd, (p.stdout or "")[-4000:]))
    return p


class BuildError(Exception):
    pass


class Lock:
    def __init__(self, name):
        os.makedirs(CACHE, exist_ok=True)
        self.path = os.path.join(CACHE, name + ".lock")

    def __enter__(self):
        self.f = open(self.path, "w")
        fcntl.flock(self.f, fcntl.LOCK_EX)
        return self

    def __exit__(self, *a):
        fcntl.flock(self.f, fcntl.LOCK_UN)
        self.f.close()


# ---------------------------------------------------------------- builds

def build_coq():
    """Full .vo build of the development (make decides what is stale)."""
    with Lock("coq"):
        if not os.path.exists(os.path.join(COQ, "Makefile")) or \
           os.path.getmtime(os.path.join(COQ, "Makefile")) < os.path.getmtime(os.path.join(COQ, "_CoqProject")):
            sh("coq_makefile -f _CoqProject -o Makefile", cwd=COQ)
        p = sh("timeout 3000 make -j16", cwd=COQ, check=False)
        if p.returncode != 0:
            return False, p.stdout
        # extraction output lands in coq/; the driver is rebuilt when it changed
        src = os.path.join(COQ, "model.ml")
        stamp = os.path.join(CACHE, "model.ml.sha")
        h = hashlib.sha256(open(src, "rb").read() + open(os.path.join(DRIVER, "main.ml"), "rb").read()).hexdigest()
        old = open(stamp).read() if os.path.exists(stamp) else ""
        if h != old or not os.path.exists(MODELDRV):
            bdir = os.path.join(CACHE, "drvbuild")
            os.makedirs(bdir, exist_ok=True)
            for f in ("model.ml", "model.mli"):
                sh(["cp", os.path.join(COQ, f), bdir])
            sh(["cp", os.path.join(DRIVER, "main.ml"), bdir])
            sh("ocamlfind ocamlopt -O3 -w -a model.mli model.ml main.ml -o modeldrv.new && mv modeldrv.new %s" % MODELDRV,
               cwd=bdir)
            open(stamp, "w").write(h)
        return True, p.stdout


def build_harness():
    """Rebuilds the harness (and deltio from /repo's working tree, hooks on)."""
    with Lock("cargo-alt" if ALT_REPO else "cargo"):
        if ALT_REPO:
            alt = os.path.join(CACHE, "harness-alt")
            sh("mkdir -p %s && rsync -a --delete --exclude target --exclude Cargo.toml %s/ %s/"
               % (alt, os.path.join(ROOT, "harness"), alt))
            mf = os.path.join(alt, "Cargo.toml")
            want = open(os.path.join(ROOT, "harness", "Cargo.toml")).read().replace('path = "/repo"', 'path = "%s"' % ALT_REPO)
            if not os.path.exists(mf) or open(mf).read() != want:
                open(mf, "w").write(want)
            return _cargo_build(alt)
        return _cargo_build(HARNESS_DIR)


def _cargo_build(HARNESS_DIR):
    if True:
        lockfile = os.path.join(HARNESS_DIR, "Cargo.lock")
        if not os.path.exists(lockfile):
            sh(["cp", os.path.join(REPO, "Cargo.lock"), lockfile])
        p = sh("cargo build --release --offline", cwd=HARNESS_DIR,
               env={"RUSTFLAGS": RUSTFLAGS, "CARGO_TARGET_DIR": TARGET}, check=False, timeout=3000)
        return p.returncode == 0, p.stdout


# ---------------------------------------------------------------- running

def workdir(tag):
    d = os.path.join(WORK, tag)
    os.makedirs(d, exist_ok=True)
    return d


def run_impl_seq(cases_path, out_path, jobs=16):
    sh([HARNESS, "seqdiff", cases_path, out_path, "--jobs", str(jobs)], timeout=3000)


def run_model_seq(cases_path, out_path, jobs=16):
    """The extracted model on a case file; the cases are independent, so the file is cut into shards that run
    side by side (the driver itself is single-threaded)."""
    text = open(cases_path).read()
    blocks = [b + "END\n" for b in text.split("END\n") if b.strip()]
    if len(blocks) < 8:
        sh([MODELDRV, "seq", cases_path, out_path], timeout=3000)
        return
    n = min(jobs, len(blocks))
    shards = [blocks[i::n] for i in range(n)]
    procs = []
    for i, sh_blocks in enumerate(shards):
        ip, op = "%s.shard%d" % (cases_path, i), "%s.shard%d" % (out_path, i)
        open(ip, "w").write("".join(sh_blocks))
        procs.append((subprocess.Popen([MODELDRV, "seq", ip, op], stdout=subprocess.PIPE, stderr=subprocess.STDOUT,
                                       text=True), ip, op))
    outs = []
    for p, ip, op in procs:
        try:
            o, _ = p.communicate(timeout=3000)
        except subprocess.TimeoutExpired:
            p.kill()
            raise BuildError("model driver timed out on " + ip)
        if p.returncode != 0:
            raise BuildError("model driver failed (%d) on %s\n%s" % (p.returncode, ip, (o or "")[-2000:]))
        outs.append(open(op).read())
        os.remove(ip)
        os.remove(op)
    open(out_path, "w").write("".join(outs))


def run_impl_pure(ops_path, out_path):
    sh([HARNESS, "puresweep", ops_path, out_path], timeout=3000)


def run_model_pure(ops_path, out_path):
    sh([MODELDRV, "pure", ops_path, out_path], timeout=3000)


def parse_results(path):
    """-> dict case-id -> list of result lines (without CASE/END)."""
    res, cur, cid = {}, None, None
    for line in open(path, encoding="utf-8", errors="replace").read().split("\n"):
        if line.startswith("CASE "):
            cid = line[5:]
            cur = []
        elif line == "END":
            if cid is not None:
                res[cid] = cur
            cid, cur = None, None
        elif cur is not None:
            cur.append(line)
    return res


def norm_line(l):
    # The flag of SS (could the request be written to the stream) is not modelled.
    if l.startswith("SS"):
        return "SS"
    # A Pull blocked on a subscription that gets deleted ends with NOT_FOUND or
    # FAILED_PRECONDITION, whichever select! branch the runtime polls first.
    if l.startswith("JOIN "):
        t = l.split(" ")
        # calls that race with another request (ids >= 900): only completion is compared
        if t[1].isdigit() and int(t[1]) >= 900 and t[2:] != ["-"]:
            return "JOIN %s <completed>" % t[1]
        if t[2:] in (["PULL", "5"], ["PULL", "9"]):
            return "JOIN %s PULL <error>" % t[1]
    return l


def write_cases(path, cases):
    """cases: list of (id, [op lines])"""
    with open(path, "w") as f:
        for cid, ops in cases:
            f.write("CASE %s\n" % cid)
            for o in ops:
                f.write(o + "\n")
            f.write("END\n")


def norm_for(op, l):
    """Streams with id >= 900 take part in a race (calls started without letting the runtime settle): which
    batches they receive depends on the schedule, so only whether and how they ended is compared."""
    t = op.split(" ")
    if t[0] == "SR" and t[1].isdigit() and int(t[1]) >= 900 and l.startswith("SR "):
        return "SR <...> " + l.split(" ")[-1]
    return norm_line(l)


def diff_case(ops, impl, model, relevant=None):
    """First index where the two sides disagree on a relevant line, or None."""
    n = max(len(impl), len(model))
    for i in range(n):
        op_i = ops[i] if i < len(ops) else "?"
        a = norm_for(op_i, impl[i]) if i < len(impl) else "<missing>"
        b = norm_for(op_i, model[i]) if i < len(model) else "<missing>"
        if a != b:
            op = ops[i].split(" ")[0] if i < len(ops) else "?"
            if relevant is None or op in relevant or a.startswith("!") or b == "?":
                return i
    return None


def seqdiff(tag, cases, relevant=None, jobs=16):
    """Runs cases on both sides. Returns (mismatches, impl_results, model_results);
    a mismatch is (case id, ops, index, impl lines, model lines)."""
    d = workdir(tag)
    cp = os.path.join(d, "cases.txt")
    write_cases(cp, cases)
    io, mo = os.path.join(d, "impl.out"), os.path.join(d, "model.out")
    run_impl_seq(cp, io, jobs)
    run_model_seq(cp, mo)
    impl, model = parse_results(io), parse_results(mo)
    bad = []
    for cid, ops in cases:
        a, b = impl.get(cid, ["<no result>"]), model.get(cid, ["<no result>"])
        i = diff_case(ops, a, b, relevant)
        if i is not None:
            bad.append((cid, ops, i, a, b))
    return bad, impl, model


def shrink_case(tag, ops, still_bad, max_rounds=200):
    """Greedy delta debugging on the op list: drop chunks while [still_bad(ops)]."""
    n = max(1, len(ops) // 2)
    rounds = 0
    while n >= 1 and rounds < max_rounds:
        i, changed = 0, False
        while i < len(ops) and rounds < max_rounds:
            cand = ops[:i] + ops[i + n:]
            rounds += 1
            if any(x.startswith(("MODE", "SEED")) for x in ops[i:i + n]):
                i += n            # the preamble stays
                continue
            if cand and still_bad(cand):
                ops, changed = cand, True
            else:
                i += n
        if not changed:
            n //= 2
    return ops


def puresweep(tag, ops):
    d = workdir(tag)
    op = os.path.join(d, "ops.txt")
    open(op, "w").write("\n".join(ops) + "\n")
    io, mo = os.path.join(d, "impl.out"), os.path.join(d, "model.out")
    run_impl_pure(op, io)
    run_model_pure(op, mo)
    a = open(io).read().split("\n")
    b = open(mo).read().split("\n")
    bad = []
    for i, o in enumerate(ops):
        x = a[i] if i < len(a) else "<missing>"
        y = b[i] if i < len(b) else "<missing>"
        if x != y:
            bad.append((o, x, y))
    return bad, a, b


def decode_line(l):
    """Human-readable rendering of a case/result line (hex fields decoded)."""
    out = []
    for t in l.split(" "):
        if re.fullmatch(r"([0-9a-f]{2})+", t) and not re.fullmatch(r"[0-9]+", t) or (re.fullmatch(r"([0-9a-f]{2}){3,}", t)):
            try:
                out.append(repr(binascii.unhexlify(t).decode("utf-8")))
                continue
            except Exception:
                pass
        out.append(t)
    return " ".join(out)
