//! lockscan: reads the Rust sources of /repo (syn), finds every acquisition of a `RwLock` / `Mutex`
//! that is a struct field, works out for how long each guard lives, follows the calls made while a
//! guard is alive (type-directed where the receiver's type is syntactically known, by name otherwise;
//! closures passed to a function that calls them under a lock are followed too), and writes
//!   * the nesting edges (held lock, acquired lock) with the call chains that produce them,
//!   * every `.await` (or `select!`) reached while a guard is alive,
//!   * every place it could not analyse (a lock acquisition inside a macro it cannot parse),
//!   * the suspension points of the actor / handler / push-loop functions in source order (`x` = `x(..).await`,
//!     `select!(a,b)` with the futures it races, `a[if]` = that branch has a precondition, `async{ .. }`)
//! as a Coq file (`LockEdges.v`) and as JSON.  The Coq development proves that edges which respect a
//! rank order exclude deadlock (Proofs/LocksP.v); Gen/LockCheck.v checks the generated edges.
//!
//! usage: lockscan <repo root> <out.v> <out.json>
use proc_macro2::Span;
use std::collections::{BTreeMap, BTreeSet, HashMap, HashSet};
use std::fs;
use std::path::{Path, PathBuf};
use syn::punctuated::Punctuated;
use syn::spanned::Spanned;
use syn::visit::{self, Visit};
use syn::{Expr, FnArg, ImplItem, Item, Pat, Stmt, Token, Type};

#[derive(Clone, Debug)]
enum Node {
    Acq { lock: String, mode: char, site: String, inner: Vec<Node> },
    Call { ty: Option<String>, name: String, method: bool, awaited: bool, site: String, closures: Vec<(usize, Vec<Node>)> },
    CallParam { name: String, site: String },
    Await { site: String, what: String },
    Async { inner: Vec<Node> },
    Unanalysed { site: String, what: String },
}

#[derive(Debug)]
struct FnInfo {
    ty: Option<String>,
    name: String,
    is_async: bool,
    has_self: bool,
    params: Vec<String>,
    body: Vec<Node>,
    site: String,
}

#[derive(Default, Debug)]
struct StructInfo {
    filekey: String,
    /// field -> (is a lock, name of the field's type with Arc/Box/Option/& peeled)
    fields: HashMap<String, (bool, Option<String>)>,
}

fn type_name(ty: &Type) -> Option<String> {
    match ty {
        Type::Reference(r) => type_name(&r.elem),
        Type::Paren(p) => type_name(&p.elem),
        Type::Path(p) => {
            let seg = p.path.segments.last()?;
            let id = seg.ident.to_string();
            if ["Arc", "Box", "Option", "Rc"].contains(&id.as_str()) {
                if let syn::PathArguments::AngleBracketed(a) = &seg.arguments {
                    for g in &a.args {
                        if let syn::GenericArgument::Type(t) = g {
                            return type_name(t);
                        }
                    }
                }
                None
            } else {
                Some(id)
            }
        }
        _ => None,
    }
}

fn is_lock_type(ty: &Type) -> bool {
    let s = quote::quote!(#ty).to_string();
    s.contains("RwLock") || s.contains("Mutex")
}

fn is_closure_type(ty: &Type) -> bool {
    let s = quote::quote!(#ty).to_string();
    s.contains("Fn (") || s.contains("FnMut (") || s.contains("FnOnce (") || s.contains("Fn(") || s.contains("FnMut(") || s.contains("FnOnce(")
}

struct Builder<'a> {
    file: String,
    filekey: String,
    structs: &'a HashMap<String, StructInfo>,
    cur_ty: Option<String>,
    param_ty: HashMap<String, String>,
    closure_params: HashSet<String>,
    /// generic parameters bounded by an Fn trait
    closure_generics: HashSet<String>,
}

impl<'a> Builder<'a> {
    fn site(&self, sp: Span) -> String {
        format!("{}:{}", self.file, sp.start().line)
    }

    /// Is this expression `X.field.read()` / `.write()` / `.lock()` on a lock field?
    fn acquisition(&self, e: &Expr) -> Option<(String, char, String)> {
        if let Expr::MethodCall(m) = e {
            let meth = m.method.to_string();
            if !m.args.is_empty() || !["read", "write", "lock"].contains(&meth.as_str()) {
                return None;
            }
            if let Expr::Field(f) = &*m.receiver {
                if let syn::Member::Named(id) = &f.member {
                    let field = id.to_string();
                    let owner = self.expr_type(&f.base);
                    let lock = self.lock_id(owner.as_deref(), &field)?;
                    let mode = if meth == "read" { 'R' } else { 'W' };
                    return Some((lock, mode, self.site(m.method.span())));
                }
            }
        }
        None
    }

    fn lock_id(&self, owner: Option<&str>, field: &str) -> Option<String> {
        if let Some(o) = owner {
            if let Some(s) = self.structs.get(o) {
                return match s.fields.get(field) {
                    Some((true, _)) => Some(format!("{}.{}", s.filekey, field)),
                    _ => None,
                };
            }
        }
        // owner unknown: a struct of this file with such a lock field, else any struct with one
        let mut here: Vec<&StructInfo> = self
            .structs
            .values()
            .filter(|s| s.filekey == self.filekey && matches!(s.fields.get(field), Some((true, _))))
            .collect();
        if here.is_empty() {
            here = self.structs.values().filter(|s| matches!(s.fields.get(field), Some((true, _)))).collect();
        }
        let keys: BTreeSet<&str> = here.iter().map(|s| s.filekey.as_str()).collect();
        match keys.len() {
            0 => None,
            1 => Some(format!("{}.{}", keys.iter().next().unwrap(), field)),
            _ => Some(format!("ambiguous.{}", field)),
        }
    }

    /// The syntactically known type of an expression: `self`, `self.field`, a typed parameter.
    fn expr_type(&self, e: &Expr) -> Option<String> {
        match e {
            Expr::Path(p) => {
                let id = p.path.get_ident()?.to_string();
                if id == "self" {
                    self.cur_ty.clone()
                } else {
                    self.param_ty.get(&id).cloned()
                }
            }
            Expr::Field(f) => {
                let owner = self.expr_type(&f.base)?;
                if let syn::Member::Named(id) = &f.member {
                    self.structs.get(&owner)?.fields.get(&id.to_string())?.1.clone()
                } else {
                    None
                }
            }
            Expr::Reference(r) => self.expr_type(&r.expr),
            Expr::Paren(p) => self.expr_type(&p.expr),
            Expr::MethodCall(m) if m.method == "clone" || m.method == "as_ref" => self.expr_type(&m.receiver),
            Expr::Call(c) => {
                // Arc::clone(&x)
                if let Expr::Path(p) = &*c.func {
                    let segs: Vec<String> = p.path.segments.iter().map(|s| s.ident.to_string()).collect();
                    if segs == ["Arc", "clone"] && c.args.len() == 1 {
                        return self.expr_type(&c.args[0]);
                    }
                }
                None
            }
            _ => None,
        }
    }

    fn peel<'e>(&self, mut e: &'e Expr) -> &'e Expr {
        loop {
            match e {
                Expr::Paren(p) => e = &p.expr,
                Expr::Try(t) => e = &t.expr,
                Expr::MethodCall(m) if (m.method == "unwrap" || m.method == "expect") && self.acquisition(e).is_none() => {
                    e = &m.receiver
                }
                _ => return e,
            }
        }
    }

    fn named_guard(&self, s: &Stmt) -> Option<(String, String, char, String)> {
        if let Stmt::Local(l) = s {
            let name = match &l.pat {
                Pat::Ident(i) => i.ident.to_string(),
                Pat::Type(t) => match &*t.pat {
                    Pat::Ident(i) => i.ident.to_string(),
                    _ => return None,
                },
                _ => return None,
            };
            let init = l.init.as_ref()?;
            let e = self.peel(&init.expr);
            let (lock, mode, site) = self.acquisition(e)?;
            return Some((name, lock, mode, site));
        }
        None
    }

    fn is_drop_of(&self, s: &Stmt, name: &str) -> bool {
        if let Stmt::Expr(Expr::Call(c), _) = s {
            if let Expr::Path(p) = &*c.func {
                let last = p.path.segments.last().map(|s| s.ident.to_string());
                if last.as_deref() == Some("drop") && c.args.len() == 1 {
                    if let Expr::Path(a) = &c.args[0] {
                        return a.path.is_ident(name);
                    }
                }
            }
        }
        false
    }

    fn block_nodes(&self, stmts: &[Stmt]) -> Vec<Node> {
        let mut out = Vec::new();
        let mut i = 0;
        while i < stmts.len() {
            if let Some((name, lock, mode, site)) = self.named_guard(&stmts[i]) {
                let mut j = i + 1;
                while j < stmts.len() && !self.is_drop_of(&stmts[j], &name) {
                    j += 1;
                }
                let inner = self.block_nodes(&stmts[i + 1..j]);
                out.push(Node::Acq { lock, mode, site, inner });
                i = if j < stmts.len() { j + 1 } else { j };
            } else {
                out.extend(self.stmt_nodes(&stmts[i]));
                i += 1;
            }
        }
        out
    }

    /// One statement: its nodes, wrapped in the temporaries' guards (a temporary guard lives until
    /// the end of the enclosing statement, bodies of `match` / `if let` / `for` included).
    fn stmt_nodes(&self, s: &Stmt) -> Vec<Node> {
        let mut c = Collector { b: self, out: Vec::new(), temps: Vec::new(), await_next: false };
        match s {
            Stmt::Item(_) => {}
            _ => c.visit_stmt(s),
        }
        c.wrap()
    }

    fn expr_nodes(&self, e: &Expr) -> Vec<Node> {
        let mut c = Collector { b: self, out: Vec::new(), temps: Vec::new(), await_next: false };
        c.visit_expr(e);
        c.wrap()
    }
}

struct Collector<'a, 'b> {
    b: &'b Builder<'a>,
    out: Vec<Node>,
    temps: Vec<(String, char, String)>,
    await_next: bool,
}

impl<'a, 'b> Collector<'a, 'b> {
    fn wrap(self) -> Vec<Node> {
        let mut nodes = self.out;
        for (lock, mode, site) in self.temps.into_iter().rev() {
            nodes = vec![Node::Acq { lock, mode, site, inner: nodes }];
        }
        nodes
    }

    fn args(&mut self, args: &Punctuated<Expr, Token![,]>) -> Vec<(usize, Vec<Node>)> {
        let mut closures = Vec::new();
        for (i, a) in args.iter().enumerate() {
            match a {
                Expr::Closure(c) if c.asyncness.is_none() && !matches!(&*c.body, Expr::Async(_)) => {
                    closures.push((i, self.b.expr_nodes(&c.body)));
                }
                _ => self.visit_expr(a),
            }
        }
        closures
    }
}

impl<'a, 'b, 'ast> Visit<'ast> for Collector<'a, 'b> {
    fn visit_item(&mut self, _: &'ast Item) {}

    fn visit_block(&mut self, b: &'ast syn::Block) {
        let nodes = self.b.block_nodes(&b.stmts);
        self.out.extend(nodes);
    }

    fn visit_expr_method_call(&mut self, m: &'ast syn::ExprMethodCall) {
        let awaited = std::mem::take(&mut self.await_next);
        let e = Expr::MethodCall(m.clone());
        if let Some(t) = self.b.acquisition(&e) {
            self.visit_expr(&m.receiver);
            self.temps.push(t);
            return;
        }
        self.visit_expr(&m.receiver);
        let closures = self.args(&m.args);
        let ty = self.b.expr_type(&m.receiver);
        self.out.push(Node::Call {
            ty,
            name: m.method.to_string(),
            method: true,
            awaited,
            site: self.b.site(m.method.span()),
            closures,
        });
    }

    fn visit_expr_call(&mut self, c: &'ast syn::ExprCall) {
        let awaited = std::mem::take(&mut self.await_next);
        let closures = self.args(&c.args);
        if let Expr::Path(p) = &*c.func {
            let segs: Vec<String> = p.path.segments.iter().map(|s| s.ident.to_string()).collect();
            let site = self.b.site(p.span());
            if segs.len() == 1 && (self.b.closure_params.contains(&segs[0])) {
                self.out.push(Node::CallParam { name: segs[0].clone(), site });
                return;
            }
            let name = segs.last().cloned().unwrap_or_default();
            let ty = if segs.len() >= 2 {
                let q = &segs[segs.len() - 2];
                if q == "Self" {
                    self.b.cur_ty.clone()
                } else if q.chars().next().map(|c| c.is_uppercase()).unwrap_or(false) {
                    Some(q.clone())
                } else {
                    None
                }
            } else {
                None
            };
            self.out.push(Node::Call { ty, name, method: false, awaited, site, closures });
        } else {
            self.visit_expr(&c.func);
        }
    }

    fn visit_expr_await(&mut self, a: &'ast syn::ExprAwait) {
        self.await_next = true;
        self.visit_expr(&a.base);
        self.await_next = false;
        let what = match &*a.base {
            Expr::MethodCall(m) => m.method.to_string(),
            Expr::Call(c) => match &*c.func {
                Expr::Path(p) => p.path.segments.iter().map(|s| s.ident.to_string()).collect::<Vec<_>>().join("::"),
                _ => "call".to_string(),
            },
            Expr::Path(p) => p.path.segments.iter().map(|s| s.ident.to_string()).collect::<Vec<_>>().join("::"),
            Expr::Field(f) => match &f.member {
                syn::Member::Named(i) => i.to_string(),
                _ => "field".to_string(),
            },
            _ => "expr".to_string(),
        };
        self.out.push(Node::Await { site: self.b.site(a.await_token.span()), what });
    }

    fn visit_expr_async(&mut self, a: &'ast syn::ExprAsync) {
        let inner = self.b.block_nodes(&a.block.stmts);
        self.out.push(Node::Async { inner });
    }

    fn visit_expr_closure(&mut self, c: &'ast syn::ExprClosure) {
        // a closure that is not an argument of a call: taken as run where it is written
        if c.asyncness.is_some() {
            let inner = self.b.expr_nodes(&c.body);
            self.out.push(Node::Async { inner });
        } else {
            let inner = self.b.expr_nodes(&c.body);
            self.out.extend(inner);
        }
    }

    fn visit_macro(&mut self, m: &'ast syn::Macro) {
        let name = m.path.segments.last().map(|s| s.ident.to_string()).unwrap_or_default();
        let site = self.b.site(m.path.span());
        if let Ok(exprs) = m.parse_body_with(Punctuated::<Expr, Token![,]>::parse_terminated) {
            for e in exprs.iter() {
                // the expressions were re-parsed: their spans are those of the macro body
                let nodes = self.b.expr_nodes(e);
                self.out.extend(nodes);
            }
            return;
        }
        // a macro with its own syntax (select!, matches!, ...): look at its tokens
        let text = m.tokens.to_string();
        let mut hit = false;
        for s in self.b.structs.values() {
            for (f, (is_lock, _)) in &s.fields {
                if *is_lock {
                    for meth in ["read", "write", "lock"] {
                        if text.contains(&format!("{} . {} ()", f, meth)) || text.contains(&format!("{}.{}()", f, meth)) {
                            hit = true;
                        }
                    }
                }
            }
        }
        if hit {
            self.out.push(Node::Unanalysed { site: site.clone(), what: format!("lock acquisition inside {}!", name) });
        }
        // its suspension points, read off the token stream: `x(..).await` and nested select!
        let mut toks = Vec::new();
        flatten_tokens(m.tokens.clone(), &mut toks);
        let mut inner = Vec::new();
        for i in 0..toks.len() {
            if toks[i] == "await" && i >= 1 && toks[i - 1] == "." {
                // skip back over one balanced (...) group to the name of what is awaited
                let mut j = i as isize - 2;
                if j >= 0 && toks[j as usize] == ")" {
                    let mut depth = 0;
                    while j >= 0 {
                        if toks[j as usize] == ")" {
                            depth += 1;
                        } else if toks[j as usize] == "(" {
                            depth -= 1;
                            if depth == 0 {
                                break;
                            }
                        }
                        j -= 1;
                    }
                    j -= 1;
                }
                let what = if j >= 0 { toks[j as usize].clone() } else { "expr".to_string() };
                inner.push(what);
            } else if toks[i] == "!" && i >= 1 && ["select", "join", "try_join"].contains(&toks[i - 1].as_str()) {
                let h = if i + 1 < toks.len() && ["{", "(", "["].contains(&toks[i + 1].as_str()) {
                    let end = group_end(&toks, i + 1);
                    branch_heads(&toks, i + 2, end)
                } else {
                    Vec::new()
                };
                inner.push(if h.is_empty() { format!("{}!", toks[i - 1]) } else { format!("{}!({})", toks[i - 1], h.join(",")) });
            }
        }
        let heads = if name == "select" || name == "join" || name == "try_join" {
            branch_heads(&toks, 0, toks.len())
        } else {
            Vec::new()
        };
        let label = if heads.is_empty() { format!("{}!", name) } else { format!("{}!({})", name, heads.join(",")) };
        let suspends = name == "select" || name == "join" || name == "try_join" || !inner.is_empty();
        if suspends {
            if inner.is_empty() {
                self.out.push(Node::Await { site, what: label });
            } else {
                self.out.push(Node::Await { site: site.clone(), what: format!("{}{{", label) });
                for w in inner {
                    self.out.push(Node::Await { site: site.clone(), what: w });
                }
                self.out.push(Node::Await { site, what: "}".to_string() });
            }
        }
    }

    fn visit_expr(&mut self, e: &'ast Expr) {
        // the await flag only applies to the call that is awaited directly
        match e {
            Expr::MethodCall(_) | Expr::Call(_) | Expr::Paren(_) | Expr::Try(_) => {}
            _ => self.await_next = false,
        }
        visit::visit_expr(self, e);
    }
}

/// The futures a select! races (and drops when they lose), read off the flattened tokens toks[from..to] of its body:
/// for every branch `<pattern> = <future> => <handler>` the name of the future - the last function or method called in
/// the expression, or the variable if it is one (`&mut remove` -> `remove`).
fn branch_heads(toks: &[String], from: usize, to: usize) -> Vec<String> {
    let mut heads = Vec::new();
    let mut i = from;
    let is_ident = |t: &String| t.chars().next().map(|c| c.is_alphabetic() || c == '_').unwrap_or(false);
    while i < to {
        // find the `=` that separates pattern and future (not ==, =>, <=, >=, !=)
        let mut depth = 0isize;
        let mut eq = None;
        let mut j = i;
        while j < to {
            match toks[j].as_str() {
                "(" | "{" | "[" => depth += 1,
                ")" | "}" | "]" => depth -= 1,
                "=" if depth == 0 => {
                    let next = toks.get(j + 1).map(|s| s.as_str()).unwrap_or("");
                    let prev = if j > from { toks[j - 1].as_str() } else { "" };
                    if next != ">" && next != "=" && !["=", "!", "<", ">"].contains(&prev) {
                        eq = Some(j);
                        break;
                    }
                }
                _ => {}
            }
            j += 1;
        }
        let Some(eq) = eq else { break };
        // the future: up to `=>` at depth 0
        let mut k = eq + 1;
        depth = 0;
        let mut name: Option<String> = None;
        // a branch precondition `<future>, if <condition> =>`: the branch is disabled while the condition is false
        let mut guard_at: Option<usize> = None;
        while k + 1 < to {
            match toks[k].as_str() {
                "," if depth == 0 && toks[k + 1] == "if" && guard_at.is_none() => guard_at = Some(k),
                "(" | "{" | "[" => {
                    if depth == 0 && toks[k] == "(" && k > eq + 1 && is_ident(&toks[k - 1]) && guard_at.is_none() {
                        name = Some(toks[k - 1].clone());
                    }
                    depth += 1;
                }
                ")" | "}" | "]" => depth -= 1,
                "=" if depth == 0 && toks[k + 1] == ">" => break,
                t if depth == 0 && is_ident(&toks[k]) && t != "mut" && name.is_none() => {
                    // a plain variable so far; a later call overrides it
                }
                _ => {}
            }
            k += 1;
        }
        if name.is_none() {
            let end = guard_at.unwrap_or(k).min(to);
            name = toks[eq + 1..end].iter().rev().find(|t| is_ident(t) && t.as_str() != "mut").cloned();
        }
        let head = name.unwrap_or_else(|| "?".to_string());
        heads.push(if guard_at.is_some() { format!("{}[if]", head) } else { head });
        // skip the handler: a { } block, or an expression up to the next `,` at depth 0
        let mut m = k + 2;
        if m < to && toks[m] == "{" {
            m = group_end(toks, m) + 1;
            if m < to && toks[m] == "," {
                m += 1;
            }
        } else {
            depth = 0;
            while m < to {
                match toks[m].as_str() {
                    "(" | "{" | "[" => depth += 1,
                    ")" | "}" | "]" => depth -= 1,
                    "," if depth == 0 => {
                        m += 1;
                        break;
                    }
                    _ => {}
                }
                m += 1;
            }
        }
        i = m;
    }
    heads
}

/// Index of the token that closes the group opened at toks[open].
fn group_end(toks: &[String], open: usize) -> usize {
    let (o, c) = match toks[open].as_str() {
        "{" => ("{", "}"),
        "(" => ("(", ")"),
        _ => ("[", "]"),
    };
    let mut depth = 0usize;
    for i in open..toks.len() {
        if toks[i] == o {
            depth += 1;
        } else if toks[i] == c {
            depth -= 1;
            if depth == 0 {
                return i;
            }
        }
    }
    toks.len()
}

fn flatten_tokens(ts: proc_macro2::TokenStream, out: &mut Vec<String>) {
    use proc_macro2::{Delimiter, TokenTree};
    for t in ts {
        match t {
            TokenTree::Group(g) => {
                let (o, c) = match g.delimiter() {
                    Delimiter::Parenthesis => ("(", ")"),
                    Delimiter::Brace => ("{", "}"),
                    Delimiter::Bracket => ("[", "]"),
                    Delimiter::None => ("", ""),
                };
                if !o.is_empty() {
                    out.push(o.to_string());
                }
                flatten_tokens(g.stream(), out);
                if !c.is_empty() {
                    out.push(c.to_string());
                }
            }
            TokenTree::Ident(i) => out.push(i.to_string()),
            TokenTree::Punct(p) => out.push(p.as_char().to_string()),
            TokenTree::Literal(l) => out.push(l.to_string()),
        }
    }
}

fn filekey(rel: &str) -> String {
    let k = rel.trim_start_matches("src/").trim_end_matches(".rs");
    k.trim_end_matches("/mod").to_string()
}

fn is_test_cfg(attrs: &[syn::Attribute]) -> bool {
    attrs.iter().any(|a| {
        a.path().is_ident("cfg") && {
            let s = a.meta.to_token_stream_string();
            s.contains("test")
        }
    })
}

trait MetaStr {
    fn to_token_stream_string(&self) -> String;
}
impl MetaStr for syn::Meta {
    fn to_token_stream_string(&self) -> String {
        quote::quote!(#self).to_string()
    }
}

fn collect_structs(items: &[Item], key: &str, out: &mut HashMap<String, StructInfo>) {
    for it in items {
        match it {
            Item::Struct(s) if !is_test_cfg(&s.attrs) => {
                let mut info = StructInfo { filekey: key.to_string(), fields: HashMap::new() };
                for f in s.fields.iter() {
                    if let Some(id) = &f.ident {
                        info.fields.insert(id.to_string(), (is_lock_type(&f.ty), type_name(&f.ty)));
                    }
                }
                out.insert(s.ident.to_string(), info);
            }
            Item::Mod(m) if !is_test_cfg(&m.attrs) => {
                if let Some((_, items)) = &m.content {
                    collect_structs(items, key, out);
                }
            }
            _ => {}
        }
    }
}

fn build_fn(
    file: &str,
    key: &str,
    structs: &HashMap<String, StructInfo>,
    cur_ty: Option<String>,
    sig: &syn::Signature,
    block: &syn::Block,
) -> FnInfo {
    let mut b = Builder {
        file: file.to_string(),
        filekey: key.to_string(),
        structs,
        cur_ty: cur_ty.clone(),
        param_ty: HashMap::new(),
        closure_params: HashSet::new(),
        closure_generics: HashSet::new(),
    };
    for g in sig.generics.params.iter() {
        if let syn::GenericParam::Type(t) = g {
            let s = quote::quote!(#t).to_string();
            if s.contains("Fn") {
                b.closure_generics.insert(t.ident.to_string());
            }
        }
    }
    if let Some(w) = &sig.generics.where_clause {
        for p in w.predicates.iter() {
            if let syn::WherePredicate::Type(t) = p {
                let s = quote::quote!(#t).to_string();
                if s.contains("Fn") {
                    if let Some(n) = type_name(&t.bounded_ty) {
                        b.closure_generics.insert(n);
                    }
                }
            }
        }
    }
    let mut params = Vec::new();
    let mut has_self = false;
    for a in sig.inputs.iter() {
        match a {
            FnArg::Receiver(_) => has_self = true,
            FnArg::Typed(t) => {
                let name = match &*t.pat {
                    Pat::Ident(i) => i.ident.to_string(),
                    _ => "_".to_string(),
                };
                params.push(name.clone());
                let tn = type_name(&t.ty);
                if is_closure_type(&t.ty) || tn.as_ref().map(|n| b.closure_generics.contains(n)).unwrap_or(false) {
                    b.closure_params.insert(name);
                } else if let Some(n) = tn {
                    b.param_ty.insert(name, n);
                }
            }
        }
    }
    let body = b.block_nodes(&block.stmts);
    FnInfo {
        ty: cur_ty,
        name: sig.ident.to_string(),
        is_async: sig.asyncness.is_some(),
        has_self,
        params,
        body,
        site: format!("{}:{}", file, sig.ident.span().start().line),
    }
}

fn collect_fns(items: &[Item], file: &str, key: &str, structs: &HashMap<String, StructInfo>, out: &mut Vec<FnInfo>) {
    for it in items {
        match it {
            Item::Fn(f) if !is_test_cfg(&f.attrs) => out.push(build_fn(file, key, structs, None, &f.sig, &f.block)),
            Item::Impl(im) if !is_test_cfg(&im.attrs) => {
                let ty = type_name(&im.self_ty);
                for ii in &im.items {
                    if let ImplItem::Fn(f) = ii {
                        if !is_test_cfg(&f.attrs) {
                            out.push(build_fn(file, key, structs, ty.clone(), &f.sig, &f.block));
                        }
                    }
                }
            }
            Item::Mod(m) if !is_test_cfg(&m.attrs) => {
                if let Some((_, items)) = &m.content {
                    collect_fns(items, file, key, structs, out);
                }
            }
            _ => {}
        }
    }
}

#[derive(Default)]
struct Results {
    edges: BTreeMap<(String, String), BTreeSet<String>>,
    awaits: BTreeSet<(String, String)>,
    unanalysed: BTreeSet<String>,
    sites: BTreeSet<(String, String, char)>,
    by_name_calls: BTreeSet<String>,
}

struct Walker<'a> {
    fns: &'a [FnInfo],
    by_key: HashMap<(String, String), Vec<usize>>,
    by_name: HashMap<String, Vec<usize>>,
    src_types: HashSet<String>,
    res: Results,
}

impl<'a> Walker<'a> {
    fn resolve(&mut self, ty: &Option<String>, name: &str, method: bool, site: &str) -> Vec<usize> {
        if let Some(t) = ty {
            if let Some(v) = self.by_key.get(&(t.clone(), name.to_string())) {
                return v.clone();
            }
            if self.src_types.contains(t) {
                return vec![]; // a type of the crate without such a function: a trait/derive method
            }
            if !method {
                return vec![]; // a path call on a type that is not the crate's
            }
        }
        let v: Vec<usize> = self
            .by_name
            .get(name)
            .map(|v| v.iter().copied().filter(|&i| self.fns[i].has_self == method).collect())
            .unwrap_or_default();
        if !v.is_empty() && ty.is_none() {
            self.res.by_name_calls.insert(format!("{} -> {}", site, name));
        }
        v
    }

    fn walk(&mut self, nodes: &[Node], held: &mut Vec<(String, String)>, binds: &HashMap<String, Vec<Node>>, stack: &mut Vec<usize>, chain: &mut Vec<String>) {
        for n in nodes {
            match n {
                Node::Acq { lock, mode, site, inner } => {
                    self.res.sites.insert((site.clone(), lock.clone(), *mode));
                    for (h, hs) in held.iter() {
                        let via = if chain.is_empty() { String::new() } else { format!(" via {}", chain.join(" > ")) };
                        self.res
                            .edges
                            .entry((h.clone(), lock.clone()))
                            .or_default()
                            .insert(format!("{} held since {}; {} acquired at {}{}", h, hs, lock, site, via));
                    }
                    held.push((lock.clone(), site.clone()));
                    self.walk(inner, held, binds, stack, chain);
                    held.pop();
                }
                Node::Call { ty, name, method, awaited, site, closures } => {
                    if held.is_empty() && closures.is_empty() {
                        continue;
                    }
                    let cands = self.resolve(ty, name, *method, site);
                    let mut followed = false;
                    for c in cands {
                        if stack.contains(&c) {
                            continue;
                        }
                        let f = &self.fns[c];
                        if f.is_async && !*awaited {
                            continue;
                        }
                        followed = true;
                        let mut nb: HashMap<String, Vec<Node>> = HashMap::new();
                        for (pos, nodes) in closures {
                            if let Some(p) = f.params.get(*pos) {
                                nb.insert(p.clone(), nodes.clone());
                            }
                        }
                        stack.push(c);
                        chain.push(format!("{}{}() called at {}", f.ty.as_ref().map(|t| format!("{}::", t)).unwrap_or_default(), f.name, site));
                        let body = &self.fns[c].body;
                        self.walk(body, held, &nb, stack, chain);
                        chain.pop();
                        stack.pop();
                    }
                    if !followed {
                        // a function of another crate (iterator adapters, Option::map, ...) may run the closures at once
                        for (_, nodes) in closures {
                            self.walk(nodes, held, binds, stack, chain);
                        }
                    }
                }
                Node::CallParam { name, site } => {
                    if let Some(nodes) = binds.get(name) {
                        let nodes = nodes.clone();
                        chain.push(format!("closure argument called at {}", site));
                        self.walk(&nodes, held, &HashMap::new(), stack, chain);
                        chain.pop();
                    }
                }
                Node::Await { site, .. } => {
                    if let Some((h, hs)) = held.last() {
                        self.res.awaits.insert((site.clone(), format!("{} held since {}", h, hs)));
                    }
                }
                Node::Async { inner } => {
                    let mut fresh = Vec::new();
                    let mut c2 = Vec::new();
                    self.walk(inner, &mut fresh, &HashMap::new(), stack, &mut c2);
                }
                Node::Unanalysed { site, what } => {
                    self.res.unanalysed.insert(format!("{}: {}", site, what));
                }
            }
        }
    }
}

/// The suspension points of a function body in source order (async blocks and closures included).
fn suspension_points(nodes: &[Node], out: &mut Vec<String>) {
    for n in nodes {
        match n {
            Node::Acq { inner, .. } => suspension_points(inner, out),
            Node::Call { closures, .. } => {
                for (_, c) in closures {
                    suspension_points(c, out);
                }
            }
            Node::Await { what, .. } => out.push(what.clone()),
            Node::Async { inner } => {
                out.push("async{".to_string());
                suspension_points(inner, out);
                out.push("}".to_string());
            }
            _ => {}
        }
    }
}

fn rs_files(dir: &Path, out: &mut Vec<PathBuf>) {
    if let Ok(rd) = fs::read_dir(dir) {
        let mut v: Vec<PathBuf> = rd.filter_map(|e| e.ok().map(|e| e.path())).collect();
        v.sort();
        for p in v {
            if p.is_dir() {
                rs_files(&p, out);
            } else if p.extension().map(|e| e == "rs").unwrap_or(false) {
                out.push(p);
            }
        }
    }
}

fn coq_str(s: &str) -> String {
    format!("\"{}\"", s.replace('"', "\"\""))
}

fn json_str(s: &str) -> String {
    format!("\"{}\"", s.replace('\\', "\\\\").replace('"', "\\\""))
}

fn main() {
    let args: Vec<String> = std::env::args().collect();
    if args.len() != 4 {
        eprintln!("usage: lockscan <repo root> <out.v> <out.json>");
        std::process::exit(2);
    }
    let root = PathBuf::from(&args[1]);
    let mut files = Vec::new();
    rs_files(&root.join("src"), &mut files);
    let mut parsed = Vec::new();
    for p in &files {
        let rel = p.strip_prefix(&root).unwrap().to_string_lossy().to_string();
        // the hook module (cfg(deltio_verif)) and generated protobuf code are not the server's logic
        if rel.ends_with("api/verif.rs") {
            continue;
        }
        let text = fs::read_to_string(p).expect("read source");
        match syn::parse_file(&text) {
            Ok(f) => parsed.push((rel, f)),
            Err(e) => {
                eprintln!("lockscan: cannot parse {}: {}", rel, e);
                std::process::exit(3);
            }
        }
    }
    let mut structs = HashMap::new();
    for (rel, f) in &parsed {
        collect_structs(&f.items, &filekey(rel), &mut structs);
    }
    let mut fns = Vec::new();
    for (rel, f) in &parsed {
        collect_fns(&f.items, rel, &filekey(rel), &structs, &mut fns);
    }
    let mut by_key: HashMap<(String, String), Vec<usize>> = HashMap::new();
    let mut by_name: HashMap<String, Vec<usize>> = HashMap::new();
    let mut src_types = HashSet::new();
    for (i, f) in fns.iter().enumerate() {
        if let Some(t) = &f.ty {
            by_key.entry((t.clone(), f.name.clone())).or_default().push(i);
            src_types.insert(t.clone());
        }
        by_name.entry(f.name.clone()).or_default().push(i);
    }
    for s in structs.keys() {
        src_types.insert(s.clone());
    }
    let mut w = Walker { fns: &fns, by_key, by_name, src_types, res: Results::default() };
    for i in 0..fns.len() {
        let mut held = Vec::new();
        let mut stack = vec![i];
        let mut chain = Vec::new();
        let body = &fns[i].body;
        w.walk(body, &mut held, &HashMap::new(), &mut stack, &mut chain);
    }
    let res = w.res;
    let mut lock_names: BTreeSet<String> = BTreeSet::new();
    for s in structs.values() {
        for (f, (is_lock, _)) in &s.fields {
            if *is_lock {
                lock_names.insert(format!("{}.{}", s.filekey, f));
            }
        }
    }
    for (_, l, _) in &res.sites {
        lock_names.insert(l.clone());
    }

    // Coq
    let mut v = String::new();
    v.push_str("(* GENERATED by /verif/lockscan from the Rust sources - do not edit.\n");
    v.push_str(&format!("   {} source files, {} functions, {} acquisition sites.\n", parsed.len(), fns.len(), res.sites.len()));
    for ((h, l), chains) in &res.edges {
        v.push_str(&format!("   edge {} -> {}:\n", h, l));
        for c in chains {
            v.push_str(&format!("     {}\n", c.replace("*)", "* )")));
        }
    }
    v.push_str("*)\nFrom Coq Require Import List String.\nImport ListNotations.\nOpen Scope string_scope.\n\n");
    v.push_str(&format!(
        "Definition lock_names : list string :=\n  [{}].\n\n",
        lock_names.iter().map(|s| coq_str(s)).collect::<Vec<_>>().join(";\n   ")
    ));
    v.push_str(&format!(
        "Definition lock_edges : list (string * string) :=\n  [{}].\n\n",
        res.edges.keys().map(|(h, l)| format!("({}, {})", coq_str(h), coq_str(l))).collect::<Vec<_>>().join(";\n   ")
    ));
    v.push_str(&format!(
        "Definition awaits_under_lock : list (string * string) :=\n  [{}].\n\n",
        res.awaits.iter().map(|(s, h)| format!("({}, {})", coq_str(s), coq_str(h))).collect::<Vec<_>>().join(";\n   ")
    ));
    v.push_str(&format!(
        "Definition unanalysed_sites : list string :=\n  [{}].\n\n",
        res.unanalysed.iter().map(|s| coq_str(s)).collect::<Vec<_>>().join(";\n   ")
    ));
    v.push_str(&format!(
        "Definition acquisition_sites : list (string * string) :=\n  [{}].\n",
        res.sites.iter().map(|(s, l, m)| format!("({}, {})", coq_str(&format!("{} {}", s, m)), coq_str(l))).collect::<Vec<_>>().join(";\n   ")
    ));
    // the suspension points of the actor code (what the concurrent models take as atomic / as steps)
    let shape_files = [
        "src/subscriptions/subscription_actor.rs",
        "src/subscriptions/outstanding.rs",
        "src/subscriptions/subscription.rs",
        "src/topics/topic_actor.rs",
        "src/topics/topic.rs",
        "src/subscriptions/subscription_manager.rs",
        "src/topics/topic_manager.rs",
        "src/api/subscriber.rs",
        "src/api/publisher.rs",
        "src/push/push_loop.rs",
    ];
    let mut shape: Vec<(String, Vec<String>)> = Vec::new();
    for f in fns.iter() {
        let file = f.site.rsplitn(2, ':').nth(1).unwrap_or("");
        if shape_files.contains(&file) {
            let mut pts = Vec::new();
            suspension_points(&f.body, &mut pts);
            if !pts.is_empty() {
                let stem = file.trim_start_matches("src/").trim_end_matches(".rs");
                shape.push((format!("{}:{}{}", stem, f.ty.as_ref().map(|t| format!("{}::", t)).unwrap_or_default(), f.name), pts));
            }
        }
    }
    v.push_str(&format!(
        "\nDefinition suspension_points : list (string * list string) :=\n  [{}].\n",
        shape
            .iter()
            .map(|(n, p)| format!("({}, [{}])", coq_str(n), p.iter().map(|x| coq_str(x)).collect::<Vec<_>>().join("; ")))
            .collect::<Vec<_>>()
            .join(";\n   ")
    ));
    fs::write(&args[2], v).expect("write .v");

    // JSON
    let mut j = String::from("{\n");
    j.push_str(&format!(" \"files\": {},\n \"functions\": {},\n", parsed.len(), fns.len()));
    j.push_str(&format!(" \"locks\": [{}],\n", lock_names.iter().map(|s| json_str(s)).collect::<Vec<_>>().join(", ")));
    j.push_str(&format!(
        " \"sites\": [{}],\n",
        res.sites.iter().map(|(s, l, m)| format!("[{}, {}, {}]", json_str(s), json_str(l), json_str(&m.to_string()))).collect::<Vec<_>>().join(", ")
    ));
    j.push_str(&format!(
        " \"edges\": [{}],\n",
        res.edges
            .iter()
            .map(|((h, l), c)| format!("{{\"held\": {}, \"acquired\": {}, \"chains\": [{}]}}", json_str(h), json_str(l), c.iter().map(|x| json_str(x)).collect::<Vec<_>>().join(", ")))
            .collect::<Vec<_>>()
            .join(", ")
    ));
    j.push_str(&format!(
        " \"awaits_under_lock\": [{}],\n",
        res.awaits.iter().map(|(s, h)| format!("[{}, {}]", json_str(s), json_str(h))).collect::<Vec<_>>().join(", ")
    ));
    j.push_str(&format!(
        " \"suspension_points\": {{{}}},\n",
        shape.iter().map(|(n, p)| format!("{}: [{}]", json_str(n), p.iter().map(|x| json_str(x)).collect::<Vec<_>>().join(", "))).collect::<Vec<_>>().join(", ")
    ));
    j.push_str(&format!(" \"unanalysed\": [{}],\n", res.unanalysed.iter().map(|s| json_str(s)).collect::<Vec<_>>().join(", ")));
    j.push_str(&format!(" \"calls_resolved_by_name_only\": [{}]\n}}\n", res.by_name_calls.iter().map(|s| json_str(s)).collect::<Vec<_>>().join(", ")));
    fs::write(&args[3], j).expect("write .json");
    let _ = fns.iter().map(|f| &f.site).count();
}
