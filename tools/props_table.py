# (theorem name in Props/Cnn.v, lemma in coq/Proofs, what it says)
P("C02", "Acknowledgement is final and affects only that delivery", [
 ("C02_tracker_coherent", "reachable_sub_inv", "in every reachable server state the two tracker structures of every subscription describe the same set"),
 ("C02_expiry_lookup_defined", "sub_expire_defined", "so the unwrap_unchecked lookup of take_expired never meets None"),
 ("C02_turns", "api_step_subs_step", "every API step acts on each subscription as a sequence of actor turns, so the turn-level theorems apply to every server history"),
 ("C02_final", "acked_never_redelivered", "once an Ack naming a live delivery is processed, no continuation delivers that message again (later posts never reuse its id: C09)"),
 ("C02_gone", "acked_gone", "after the Ack the message is neither queued nor leased"),
 ("C02_frame", "sub_ack_frame", "an Ack leaves the backlog, the ack-id counter and every lease it does not name exactly as they were"),
 ("C02_inert", "sub_ack_inert", "an Ack naming no live delivery (unknown, stale, already acknowledged) is the identity"),
 ("C02_ids_distinct", "reachable_ids", "in every reachable state (message counters below 2^32) the messages a subscription holds have pairwise distinct ids, all issued by its own topic instance and not above that topic's counter: the freshness hypotheses of C02_final hold along every server history"),
 ("C02_only_that_subscription", "ack_touches_one", "an Acknowledge request changes only the named subscription: topics, registry, streams and all other subscriptions are untouched"),
])
P("C03", "A delivered message is exclusively leased until its deadline", [
 ("C03_fresh_ack_ids", "ack_ids_increasing", "over any history of a subscription the ack ids handed out strictly increase: every delivery gets an id never used before"),
 ("C03_pull_skips_leased", "pull_skips_leased", "a pull never hands out a message that is currently leased"),
 ("C03_lease_persists", "lease_stable", "a lease stays exactly as it is through every turn that neither names it (ack/nack/modify) nor expires it (expiry at an instant before its deadline)"),
 ("C03_no_dup_in_response", "pull_no_dup", "no response contains the same message twice"),
 ("C03_partition_preserved", "sstep_nodup", "queued and leased messages stay pairwise distinct as long as posts bring new ids"),
 ("C03_partition_reachable", "reachable_held_distinct", "in every reachable state queued and leased messages of a subscription are pairwise distinct"),
 ("C03_turns", "api_step_subs_step", "all consumers of a subscription (unary, streaming, push) act through these serialised turns"),
])
P("C04", "Unacked deliveries are redelivered at the ack deadline, never earlier", [
 ("C04_effective_deadline", "effective_ackdl_spec", "ack_deadline_seconds <= 10 becomes 10, larger values are kept (all i32)"),
 ("C04_round_lower", "round_lower", "the stored deadline is never before the instant it was computed from"),
 ("C04_round_upper", "round_upper", "and less than 100 ms after it"),
 ("C04_lease_deadline", "sub_pull_spec", "a pull at now leases k messages with deadline round(now + ack_deadline) and consecutive fresh ack ids"),
 ("C04_not_before", "lease_stable", "until its deadline an unacked, unmodified delivery stays leased through every turn (expiry at now < deadline included)"),
 ("C04_expiry", "sub_expire_spec", "an expiry turn at now requeues exactly the leases with deadline <= now, keeps the others"),
 ("C04_timer_fires", "timer_fired_any", "the actor's timer has fired as soon as any lease is past the first 1 ms tick at or after its deadline"),
 ("C04_tick_upper", "tick_upper", "that tick is less than 1 ms after the deadline"),
 ("C04_not_after", "settle_sub_no_overdue", "once the timer fired (or the actor ran) no overdue delivery is still leased when the server is quiescent again"),
 ("C04_old_id_inert", "sub_ack_inert", "the old ack id is not live after expiry, so using it changes nothing"),
])
P("C05", "ModifyAckDeadline replaces the deadline; zero means nack", [
 ("C05_seconds", "parse_ext_spec", "N<0 error, N=0 nack, 1..599 as given, >=600 capped at 600, for all integers"),
 ("C05_new_deadline", "parse_mods_deadlines", "the new deadline is round(now + min(N,600) s)"),
 ("C05_replace_or_nack", "sub_modify_one", "N>0 replaces the lease's deadline (old expiry gone, extension or shortening alike); N=0 puts the message at the end of the queue in the same turn; nothing else changes"),
 ("C05_unknown_ignored", "sub_modify_inert", "entries whose ack id is not live change nothing"),
 ("C05_others_untouched", "tr_modify_untouched", "leases not named in the request keep their state"),
 ("C05_bad_id_rejects_all", "parse_mods_reject_id", "one malformed ack id rejects the whole request"),
 ("C05_negative_rejects_all", "parse_mods_reject_secs", "one negative N rejects the whole request"),
 ("C05_all_or_nothing", "modify_reject", "a rejected ModifyAckDeadline is INVALID_ARGUMENT and leaves the server state unchanged"),
 ("C05_stream_reject", "stream_send_reject_pure", "a rejected StreamingPull control message applies none of its acks or modifications"),
 ("C05_then_C04", "settle_sub_no_overdue", "the C04 redelivery rule applies to whatever deadline is stored"),
])
P("C09", "Messages are delivered intact with a stable, globally unique identity", [
 ("C09_publish_fields", "mk_msgs_spec", "Publish stores one record per submitted message, in order, with its data, its attributes, one publish-time token and consecutive ids"),
 ("C09_delivered_is_posted", "delivered_was_posted", "every delivery (first or repeated) carries a record that was posted: the model never rebuilds a record, so data, attributes, id and publish time are those of the publish"),
 ("C09_b64_roundtrip", "b64_roundtrip", "the push payload's base64 data decodes to the published bytes"),
 ("C09_id_injective", "message_id_injective", "(topic instance, counter) -> message id is injective while counters stay below 2^32"),
 ("C09_topic_ids_never_reused", "create_topic_newest", "a created topic gets an internal id above every id in use"),
 ("C09_instances_distinct", "uid_unique_t", "live topics have distinct internal ids"),
 ("C09_ids_unique_reachable", "reachable_ids", "along every server history every held message carries an id of its own topic instance below that topic's counter, and no two held messages of a subscription share one"),
 ("C09_publish_fresh", "publish_ids", "a Publish only issues ids above everything the topic issued before"),
])
P("C10", "Topic and subscription namespaces behave as atomic maps", [
 ("C10_invariant", "reachable_ctl", "in every reachable state names and internal ids are unique, ids are in creation order, attachment lists and the push registry describe exactly the live subscriptions"),
 ("C10_create_topic_status", "create_topic_status", "CreateTopic: INVALID_ARGUMENT / ALREADY_EXISTS / OK exactly by parse and presence"),
 ("C10_create_topic_effect", "create_topic_effect", "after OK the name is present, every other name unchanged"),
 ("C10_delete_topic_status", "delete_topic_status", "DeleteTopic: NOT_FOUND exactly when absent"),
 ("C10_delete_topic_effect", "delete_topic_effect", "after OK the name is absent, other names and all subscriptions unchanged"),
 ("C10_get_topic_status", "get_topic_status", "GetTopic"),
 ("C10_create_sub_status", "create_sub_status", "CreateSubscription: the checks in the server's order (names, push config, topic exists, same project, absent)"),
 ("C10_create_sub_effect", "create_sub_effect", "after OK exactly the requested subscription exists, others unchanged"),
 ("C10_delete_sub_status", "delete_sub_status", "DeleteSubscription"),
 ("C10_delete_sub_effect", "delete_sub_effect", "after OK the name is absent everywhere: manager, every topic's list, push registry"),
 ("C10_absent_sub", "absent_sub_not_found", "pull/ack/modify/get/delete on an absent subscription: NOT_FOUND"),
 ("C10_absent_topic", "absent_topic_not_found", "publish/get/delete/list on an absent topic: NOT_FOUND"),
 ("C10_failure_changes_nothing", "handle_error_pure", "every error response leaves the state unchanged"),
 ("C10_readback", "get_sub_spec", "Get reports name, topic (or the deleted sentinel), effective ack deadline and push endpoint as stored at creation"),
])
P("C11", "Deletion keeps topics and subscriptions consistent with each other", [
 ("C11_invariant", "reachable_ctl", "the attachment invariant holds in every reachable state"),
 ("C11_list_eq", "attach_exact", "a live topic lists a live subscription iff it was created on that topic instance"),
 ("C11_listed_are_live", "attached_are_live", "everything a topic lists is a live subscription of that instance"),
 ("C11_listing", "list_topic_subs_spec", "ListTopicSubscriptions pages through exactly that list in creation order"),
 ("C11_after_sub_delete", "delete_sub_effect", "after DeleteSubscription no topic lists it"),
 ("C11_after_topic_delete", "delete_topic_effect", "DeleteTopic keeps every subscription; the instance is gone"),
 ("C11_sentinel", "get_sub_spec", "a subscription whose topic instance is gone reports the deleted-topic sentinel"),
 ("C11_recreate_detached", "new_topic_detached", "a re-created namesake is a new instance with an empty list, and no existing subscription belongs to it"),
 ("C11_publish_targets", "publish_posts", "a publish reaches exactly the listed subscriptions"),
])
P("C13", "Listing and pagination enumerate exactly the project's resources", [
 ("C13_walk_complete", "page_walk_complete", "following next tokens from the start until there is none yields every element exactly once, in order, for every list and page size"),
 ("C13_page_size", "page_size_bound", "no page exceeds the effective size"),
 ("C13_effective_size", "eff_size_spec", "0 -> 20, 1..1000 as given, above 1000 -> 1000"),
 ("C13_any_offset", "any_offset_valid_page", "every offset, even one never issued, yields a valid possibly empty segment, and an empty one ends the walk"),
 ("C13_token_roundtrip", "next_token_roundtrip", "issued tokens decode to the offset they encode"),
 ("C13_rejects", "parse_paging_none_iff", "INVALID_ARGUMENT exactly for a negative size or an undecodable token"),
 ("C13_list_topics", "list_topics_spec", "ListTopics pages through the project's topics in creation order and nothing else"),
 ("C13_list_subs", "list_subs_spec", "ListSubscriptions likewise"),
 ("C13_list_topic_subs", "list_topic_subs_spec", "ListTopicSubscriptions likewise"),
 ("C13_creation_order", "create_topic_newest", "a new resource sorts after every existing one"),
])
P("C15", "Pull batches respect their size limit and are empty only when allowed", [
 ("C15_batch_size", "sub_pull_count", "one pull turn hands out exactly pull_count(max, backlog) messages"),
 ("C15_unary_bound", "pull_count_unary_bound", "for every i32 max_messages >= 1 (also multiples of 65536) the batch has at most max_messages messages"),
 ("C15_stream_accepts", "try_u16_spec", "max_outstanding_messages is accepted exactly in 0..65535"),
 ("C15_stream_rejects", "try_u16_none", "and rejected otherwise"),
 ("C15_stream_bound", "pull_count_stream_bound", "a positive accepted value bounds every response"),
 ("C15_nonempty", "pull_count_pos", "with a non-empty backlog a pull is never empty"),
 ("C15_small", "pull_count_small", "for limits up to 1000 the batch is min(limit, backlog)"),
 ("C15_woken_pull_nonempty", "serve_done_nonempty", "a blocked Pull that is woken is answered with at least one message"),
 ("C15_empty_only_at_limit", "expire_pulls_done", "a blocked Pull is answered with no messages only when its 300 s limit has passed"),
 ("C15_keeps_waiting", "expire_pulls_keeps", "until then it keeps waiting"),
 ("C15_wakes_as_soon_as_available", "settle_sub_quiescent", "and it does not wait while a message is available"),
])
P("C17", "Malformed requests are rejected cleanly and change nothing", [
 ("C17_rejected_pure", "C17_rejected_pure_l", "after an error response the server is in the state it would be in had the request never arrived"),
 ("C17_handler_pure", "handle_error_pure", "no handler touches the state before answering with an error"),
 ("C17_stream_control", "stream_send_reject_pure", "an inconsistent or malformed StreamingPull control message changes no subscription, topic or registry entry"),
 ("C17_names", "parse_name_shape", "only well-formed names are accepted"),
 ("C17_create_sub_codes", "create_sub_status", "every malformed field of CreateSubscription is INVALID_ARGUMENT, before any lookup"),
 ("C17_paging", "parse_paging_none_iff", "negative sizes and undecodable tokens are INVALID_ARGUMENT"),
 ("C17_mod_ids", "parse_mods_reject_id", "a malformed ack id anywhere in a batch rejects the batch"),
 ("C17_mod_secs", "parse_mods_reject_secs", "a negative deadline anywhere in a batch rejects the batch"),
 ("C17_others_unaffected", "reachable_ctl", "the control-plane invariant holds whatever requests arrive"),
])
P("C19", "Flow-control waiters never miss free capacity", [
 ("C19_safe", "C19_safe", "a waiter returns only after loading both counters below their limits"),
 ("C19_no_lost_wakeup", "C19_no_lost_wakeup", "a parked waiter's snapshot equals the notify_waiters counter: no notification completed since it was taken"),
 ("C19_live", "C19_live", "with no inc/dec in progress and both counters below their limits nobody is parked"),
 ("C19_live_run", "C19_live_run", "and every waiter then returns within 4 of its own steps"),
 ("C19_parked_implies_pending", "C19_parked_implies_notify_pending", "if capacity is free and someone is parked, an inc/dec is mid-flight"),
 ("C19_inprog_releases", "C19_inprog_releases", "and that call releases everybody within 2 of its steps"),
 ("C19_all_released", "C19_all_released", "one notify_waiters releases every parked waiter, any number of them"),
])
P("C01", "Fan-out without loss: every accepted message reaches every attached subscription", [
 ("C01_publish_posts", "publish_posts", "a Publish that returns ids has appended the batch to every attached subscription"),
 ("C01_attached_exactly", "attached_uid_iff", "attached = created on this topic instance and not deleted"),
 ("C01_conservation", "srun_conservation", "over any history a subscription holds (queued or leased) everything posted to it except what was acknowledged"),
 ("C01_only_acks_remove", "sub_ack_held", "and only an Ack naming a live lease removes a message"),
 ("C01_requeue", "expire_all", "once all deadlines have passed everything held is queued again"),
 ("C01_delivers", "pull_count_pos", "and a pull on a non-empty queue delivers"),
 ("C01_no_foreign", "delivered_was_posted", "a subscription delivers only what was posted to it"),
 ("C01_new_instance_detached", "new_topic_detached", "posts come only from its own topic instance"),
 ("C01_turns", "api_step_subs_step", "all of it for every server history"),
])
P("C06", "Waiting consumers are woken when a message becomes available", [
 ("C06_quiescent", "settle_sub_quiescent", "when a subscription has settled, a non-empty backlog and a waiting consumer do not coexist - any number and mix of waiting streams and blocked Pulls, any batch limits"),
 ("C06_actor_runs", "actor_runs_when_needed", "whenever something is queued and somebody waits, the actor runs: the availability event itself (post, nack, expiry) triggers the delivery, no further client request is needed"),
 ("C06_serving_terminates", "serve_quiescent", "the serving loop ends because nothing is left to hand out or nobody is left to take it, never by running out of fuel"),
 ("C06_served_nonempty", "serve_done_nonempty", "a woken Pull is answered with at least one message"),
 ("C06_expiry_wakes", "timer_fired_any", "a lease past its tick makes the actor run"),
 ("C06_no_overdue", "settle_sub_no_overdue", "and after it ran nothing overdue stays leased"),
 ("C06_turns", "api_step_subs_step", "serving is made of ordinary actor turns"),
])
P("C12", "Deleting a subscription releases the consumers waiting on it", [
 ("C12_delete_releases", "delete_sub_releases", "DeleteSubscription answers OK and releases the consumers of that subscription"),
 ("C12_no_waiter_left", "release_no_waiters", "afterwards nobody waits on it"),
 ("C12_streams_end", "release_streams_end", "every stream open on it has ended (with NOT_FOUND)"),
 ("C12_pulls_error", "release_pulls_error", "every Pull blocked on it has returned an error status"),
 ("C12_others_keep_waiting", "release_others_untouched", "consumers of other subscriptions are not disturbed"),
 ("C12_absent_afterwards", "delete_sub_effect", "later requests on the name find it absent"),
 ("C12_later_requests", "absent_sub_not_found", "and answer NOT_FOUND"),
])
P("C08", "Publish order is delivery order; message IDs are issued in order", [
 ("C08_ids_one_per_message", "mk_msgs_spec", "Publish returns one id per submitted message, in request order, consecutive"),
 ("C08_ids_increasing", "mk_msgs_ids_increasing", "the ids of a batch strictly increase (counter below 2^32)"),
 ("C08_id_monotone", "message_id_mono", "a later counter value gives a larger id within one topic"),
 ("C08_first_delivery_order", "first_deliveries_in_publish_order", "on every subscription, over every history, the sequence of first deliveries is a prefix of the sequence of posted messages: publish order, nothing skipped"),
 ("C08_contiguous", "publish_batch_block", "the first deliveries of one Publish batch form one contiguous block in request order"),
 ("C08_between", "publish_batches_contiguous", "nothing published between two first-delivered messages is skipped"),
 ("C08_ack_ids", "first_delivery_ack_ids_increase", "and the ack ids along the first deliveries strictly increase"),
 ("C08_posts_in_order", "publish_posts", "every Publish appends its batch, in order, to each attached subscription in one step of the topic actor"),
])
P("C14", "Push subscriptions deliver at least once until the endpoint accepts", [
 ("C14_only_push_subs", "registry_exact", "the registry that the push loop walks holds exactly the live subscriptions created with a push endpoint"),
 ("C14_pass", "push_pass_spec", "after a pass every POSTed message whose outcome was not an accepted status is queued again (POSTed in the next pass), an accepted one is no longer held, one that got no answer stays leased until its deadline"),
 ("C14_accepted_statuses", "accepted_spec", "accepted means exactly 102, 200, 201, 202 or 204"),
 ("C14_pass_scope", "push_pass_handle", "a pass touches only that subscription; topics and registry are unchanged"),
 ("C14_not_registered", "push_absent", "nothing is POSTed for a name that is not a live subscription"),
 ("C14_stop_after_accept", "acked_never_redelivered", "once accepted (acknowledged) a message is never handed out again"),
 ("C14_no_answer_expires", "sub_expire_spec", "a delivery without an answer is requeued when its ack deadline passes"),
 ("C14_delete_stops", "delete_sub_effect", "deleting the subscription removes it from the registry"),
 ("C14_payload_data", "b64_roundtrip", "the base64 data of the payload decodes to the published bytes"),
 ("C14_payload_record", "delivered_was_posted", "what a pass hands to the dispatcher is a published record (data, attributes, id)"),
])

# ---- theorems about the small-step concurrent models (separate files: their names would clash with Model.Server)
HDR_ACTORS = "From Coq Require Import List NArith Arith Bool Lia Sorting.Sorted.\nImport ListNotations.\nFrom Deltio Require Import Model.ConcActors Proofs.ConcActorsP Proofs.ConcActorsX.\n"
HDR_CSUB = "From Coq Require Import List NArith Arith Bool Lia.\nImport ListNotations.\nFrom Deltio Require Import Model.ConcSub Proofs.ConcSubP.\n"

PX("C07", "C07_actors", "Every request terminates: no deadlock between topic and subscription actors", HDR_ACTORS, "ConcActorsP.v", [
 ("C07_no_deadlock", "C07_progress", "actor model, any number of topics, subscriptions, clients, any mailbox capacity >= 1, arrivals and drops at any time: with the draining delete, whenever anything is outstanding (a pending client, a non-empty mailbox, an actor inside a request, an unfinished attach task) some server-side step is enabled"),
 ("C07_step_decreases", "measure_step", "every server-side step from a reachable state strictly decreases an explicit natural-number measure"),
 ("C07_bounded_work", "C07_bounded", "so between two environment events the server does at most measure-many steps: bounded work per request"),
 ("C07_runs_to_idle", "C07_terminates", "and from every reachable state the server-side steps reach, within that bound, a state with nothing outstanding"),
 ("C07_quiescent_is_idle", "quiescent_iff_idle", "no server-side step enabled <-> nothing outstanding: the server never rests in a state where a request waits"),
 ("C07_original_deadlocks_K2", "C07_refuted_without_drain", "the pinned code (delete does not drain): a reachable state with a Publish and a Delete pending and no step enabled (capacity 2)"),
 ("C07_original_deadlocks_K16", "C07_refuted_without_drain_16", "the same with the real capacity 16 - the schedule of findings/replays/C07-publish-delete-deadlock.cases"),
])
HDR_LOCKS = "From Coq Require Import List Arith Bool Lia.\nImport ListNotations.\nFrom Deltio Require Import Model.Locks Proofs.LocksP.\n"
PX("C07", "C07_locks", "Every request terminates: no deadlock on the managers' and the registry's locks", HDR_LOCKS, "LocksP.v", [
 ("C07_locks_no_deadlock", "locks_no_deadlock", "OS threads running synchronous critical sections over reader/writer locks, any number of threads and locks, any granting policy that gives a lock nobody holds to one of its waiters (any fairness): if every thread acquires a lock only while all locks it holds have a strictly smaller rank, every reachable state with an unfinished thread has a step"),
 ("C07_locks_no_deadlock_edges", "locks_no_deadlock_edges", "the same from a set of nesting edges (held lock, acquired lock) that respects a rank function - the form instantiated with the edges /verif/lockscan extracts from /repo on every run (Gen/LockCheck.v: deltio_no_lock_deadlock)"),
 ("C07_locks_step_decreases", "locks_step_decreases", "every step consumes one action of one thread: executions are finite, so never stuck means every critical section ends"),
 ("C07_locks_policies", "locks_policies", "the assumption on the granting policy is met by locks treated as mutexes and by the most permissive policy"),
 ("C07_locks_embrace_refuted", "locks_embrace_refuted", "without the rank discipline the statement is false: two threads nesting two locks in opposite orders reach a state with no step (what the round-4 seeded change to the push loop introduces)"),
])
PX("C07", "C07_overtaking", "Every request terminates: bounded overtaking in the actors' mailboxes", HDR_ACTORS, "ConcActorsX.v", [
 ("C07_no_overtaking_topic", "no_overtaking_topic", "bounded overtaking under a load that never stops: nothing ever gets in front of a request that sits in a topic's mailbox - across any step the requests ahead of it stay or lose their head by the topic's own dequeue, arrivals go behind it - so a request at position p is taken after exactly p+1 dequeues of its topic"),
 ("C07_no_overtaking_sub", "no_overtaking_sub", "the same for a subscription's mailbox (which is also cleared when the subscription's actor exits)"),
])
HDR_MBOX = "From Coq Require Import List Arith Bool Lia.\nImport ListNotations.\nFrom Deltio Require Import Model.Mailbox Proofs.MailboxP.\n"
PX("C07", "C07_mailbox", "Every request terminates: the shutdown of an actor's mailbox strands no request", HDR_MBOX, "MailboxP.v", [
 ("C07_mailbox_never_stranded", "new_never_stranded", "tokio's bounded channel at the granularity reserve-a-slot / push / serve / close / pop / receiver-gone, any number of senders, any capacity, any interleaving: with the orderly shutdown (close, then receive until the channel reports its end - the code after fix f7f8d33) no reachable state has the receiver gone and a message in the channel or a reserved slot outstanding"),
 ("C07_mailbox_everyone_answered", "new_everyone_answered", "when the receiver is gone every sender that was let in has had its message taken out (served, or dropped during the shutdown, which its caller sees as the 'closed' error) and nobody still holds a slot: no caller waits for ever"),
 ("C07_mailbox_drain_progress", "new_drain_progress", "while the receiver is closing down some step is always enabled"),
 ("C07_mailbox_drain_decreases", "new_drain_decreases", "and once the channel is closed every step but the receiver's last strictly decreases 2*(reserved slots) + (queued messages) + (senders that have not asked yet): the shutdown ends"),
 ("C07_mailbox_old_strands", "old_strands", "with the plain drop of the receiver (the code before the fix) one sender is enough: reserve, close, gone, push - the message is in a channel nobody reads and its sender is never answered (the hang harness nsstress found on the multi-thread runtime)"),
 ("C07_mailbox_new_same_schedule", "new_same_schedule", "on that schedule the orderly receiver cannot leave while the slot is outstanding; it takes the late message out and only then goes"),
])
HDR_RR = "From Coq Require Import List Bool.\nImport ListNotations.\nFrom Deltio Require Import Model.ReqResp Proofs.ReqRespP.\n"
RR_ITEMS = lambda pid, what: [
 (pid + "_call_applied_on_return", "wait_applied_on_return", "one request to an actor at the granularity send / other clients' requests / serve the oldest request / receive the answer / the actor takes the expiry branch of its select!, every schedule of these events: with the caller waiting for the actor's answer (the code) the call has returned only after the actor applied the " + what + ", and the actor never took the expiry branch between the return and the application"),
 (pid + "_served_in_order", "served_in_order", "requests are served in mailbox order: serving takes the oldest request; the caller's own is applied only when it is the oldest"),
 (pid + "_fire_and_forget_refuted", "fire_refuted", "a caller that returns as soon as its request is queued (seeded change C02-r8): the call returns, the deadline passes, the actor takes the expiry branch first - it acts on a delivery the caller was told is gone (on the implementation: the late-ack stream)"),
 (pid + "_fire_returns_unapplied", "fire_returns_unapplied", "such a call has returned with its request still behind another one in the mailbox"),
 (pid + "_wait_same_schedule", "wait_same_schedule", "the same schedule with the code's protocol: the answer cannot be received before the request was served; the expiry that comes first is not stale, because the call has not returned"),
]
PX("C02", "C02_return", "Acknowledgement is final and affects only that delivery: what 'Acknowledge has returned' means", HDR_RR, "ReqRespP.v", RR_ITEMS("C02", "acknowledgement"))
PX("C05", "C05_return", "ModifyAckDeadline: the new deadline is in force when the call returns", HDR_RR, "ReqRespP.v", RR_ITEMS("C05", "modification"))
HDR_ALOOP = "From Coq Require Import List Arith Bool.\nImport ListNotations.\nFrom Deltio Require Import Model.ActorLoop Proofs.ActorLoopP.\n"
PX("C04", "C04_loop", "Unacknowledged deliveries are redelivered at their deadline: the actor's expiry branch", HDR_ALOOP, "ActorLoopP.v", [
 ("C04_loop_expiry_enabled", "always_expiry_enabled", "the subscription actor's loop at the granularity request arrives / publish / serve / pull / a deadline passes / the expiry branch, with the expiry branch unconditional (the code): whenever a lease has run out the actor has a step that returns every such lease to the backlog and touches nothing else - whatever is queued, leased or waiting"),
 ("C04_loop_idle_nothing_expired", "always_idle_nothing_expired", "hence an actor that has no step of its own left holds no lease that has run out"),
 ("C04_loop_conserves", "actor_steps_conserve", "either variant: every step of the actor conserves leased + run-out + queued messages (the expiry step loses nothing and invents nothing)"),
 ("C04_loop_guarded_refuted", "ifempty_refuted", "with the precondition `if backlog.is_empty()` on the expiry branch (seeded change C04-r8): one lease run out, one message unpulled, nobody asking is an idle state - the lease stays outstanding for as long as nobody pulls"),
 ("C04_loop_guarded_reachable", "ifempty_stuck_reachable", "and that state is reached by publish, pull, publish, the deadline passes (on the implementation: the expiry-with-backlog stream)"),
 ("C04_loop_same_schedule", "always_same_schedule", "the same schedule with the unconditional branch: both messages are back in the backlog"),
])
HDR_PPASS = "From Coq Require Import List Arith Bool NArith.\nImport ListNotations.\nFrom Deltio Require Import Model.PushPass Proofs.PushPassP.\n"
PX("C14", "C14_pass_deletion", "Push subscriptions deliver at least once until the endpoint accepts: a pass under way stops when the subscription is deleted", HDR_PPASS, "PushPassP.v", [
 ("C14_pass_no_post_after_delete", "whole_no_late_post", "one pass of the push loop at the granularity pull / dispatch one message / answer / finish / the deleted signal fires, every schedule of these events (events that are not enabled are skipped), any page: with the whole pass raced against the deletion signal (the code) no POST is made once the subscription is deleted"),
 ("C14_pass_delete_stops", "whole_delete_stops", "and whatever comes after the deletion, the POSTs stay those made before it: the rest of the page is forgotten, nothing in flight is re-sent"),
 ("C14_pass_posts_prefix", "pass_posts_prefix", "either way of listening to the signal: what a pass POSTs is a prefix of the page it pulled, in page order - nothing is invented or skipped, and a page of distinct ids is POSTed without repetition"),
 ("C14_pass_pull_only_refuted", "pullonly_refuted", "with only the pull raced against the signal (seeded change C14-r7) a deletion after the second POST of a page of four does not stop the pass: messages 3 and 4 are POSTed for a subscription that no longer exists (on the implementation: 37 of 40 with the push-delete stream)"),
 ("C14_pass_whole_same_schedule", "whole_same_schedule", "the same schedule with the whole pass raced: two POSTs, both before the deletion, and the pass is over"),
 ("C14_pass_undisturbed", "undisturbed_pass", "without a deletion both variants hand the whole page over (the statements above are not vacuous)"),
])
PX("C16", "C16_actors", "Abandoned requests have all-or-nothing effect", HDR_ACTORS, "ConcActorsP.v", [
 ("C16_exists_implies_attached", "C16_attached", "actor model with drops of any client at any pending point: at every quiescent reachable state every subscription that exists, is not deleted and whose topic lives is attached to that topic"),
 ("C16_never_wedged", "C16_no_wedge", "after any continuation, drops included, the server can still make progress whenever something is outstanding"),
 ("C16_mailbox_effect_sub", "C16_effect_sub", "across any step a subscription's mailbox gains a suffix, loses exactly its head by its owner's dequeue, or is cleared when the subscription exits: a request is handled once or not at all"),
 ("C16_mailbox_effect_topic", "C16_effect_topic", "the same for topic mailboxes"),
 ("C16_drop_is_local", "C16_drop_local", "dropping a client changes only that client's task: nothing it already queued is withdrawn, nothing else is touched"),
 ("C16_server_ignores_callers", "C16_effect_independent", "server-side steps are enabled and act on topics, subscriptions and attach tasks independently of the client list: whether the caller is still there does not change the effect of its request"),
])
PX("C06", "C06_conc", "Waiting consumers are woken when a message becomes available", HDR_CSUB, "ConcSubP.v", [
 ("C06c_notify_wf", "notify_wf", "small-step model of tokio Notify + actor + consumers at await-point granularity (ho = true: the code with the wake-up hand-off of fix fd73b54, ho = false: the pinned code): the Notify state is well formed in every reachable state"),
 ("C06c_token", "C06_no_lost_wakeup_exact", "repaired code, every interleaving, any number of consumers of both kinds, cancellations and timeouts at every suspension point: while the subscription exists and its backlog is non-empty a notification is pending somewhere - the permit, a woken or owing consumer, or a request in the mailbox that will notify"),
 ("C06c_no_lost_wakeup", "C06_no_lost_wakeup", "the same in the five-way form of the property"),
 ("C06c_unreachable", "C06_lost_wakeup_unreachable", "the lost-wake-up state (message queued, a consumer asleep, nothing pending) is unreachable"),
 ("C06c_quiescent", "C06_quiescent", "when no internal step is enabled and the backlog is non-empty, nobody is parked"),
 ("C06c_cancel_parked", "C06_cancel_parked_ok", "cancelling a sleeping consumer only removes it from the waiters"),
 ("C06c_cancel_woken", "C06_cancel_woken_forwarded", "cancelling a consumer that was woken and has not run forwards the notification to the next waiter (or sets the permit)"),
 ("C06c_old_code_holds_without_bad_drops", "C06_no_lost_wakeup_exact_old", "for the pinned code the invariant holds as long as no consumer is dropped between consuming a notification and queueing its pull"),
 ("C06c_old_code_loses", "C06_refuted_cancel_owing", "and is lost otherwise: a consumer cancelled while waiting for room in the full mailbox with the notification consumed leaves a message queued and a sleeper, forever (replayed on the implementation: findings/replays/C06-woken-consumer-dropped.cases)"),
 ("C06c_old_code_loses_timeout", "C06_refuted_timeout_owing", "the same loss through the 300 s limit of a unary Pull"),
 ("C06c_fixed_cancel", "C06_fixed_cancel_owing", "the same schedule on the repaired code: the sleeper is woken and receives the message"),
 ("C06c_fixed_timeout", "C06_fixed_timeout_owing", "likewise for the timeout"),
 ("C06c_terminates", "internal_terminates", "internal activity (actor turns, consumer steps) always terminates"),
])
PX("C12", "C12_conc", "Deleting a subscription releases the consumers waiting on it", HDR_CSUB, "ConcSubP.v", [
 ("C12c_release", "C12_release", "once the deletion was processed and internal activity has ended, every consumer has finished: streams with NOT_FOUND, blocked Pulls with an error status"),
 ("C12c_no_hang", "C12_no_hang", "after the deletion the number of steps a consumer can still take is bounded (by an explicit bound plus 6 per consumer arriving later: a late arrival that leaves through the deleted branch hands on a surplus wake-up)"),
 ("C12c_no_hang_closed", "C12_no_hang_closed", "without later arrivals the bound is the explicit one"),
 ("C12c_hang_bound", "hang_bound_le", "and that bound is linear in the number of consumers"),
 ("C12c_progress", "C12_progress", "a consumer that has not finished after the deletion always has a step to take"),
 ("C12c_bound", "internal_run_bound", "and the number of internal steps is bounded"),
])
PX("C15", "C15_conc", "Pull batches respect their size limit and are empty only when allowed", HDR_CSUB, "ConcSubP.v", [
 ("C15c_empty_rule", "C15_empty_rule", "a blocking Pull answers with no messages only through its 300 s limit"),
 ("C15c_outcomes", "C15_outcomes", "every outcome of a consumer is one of: messages (at least one), empty by limit, error, NOT_FOUND"),
 ("C15c_empty_reply_continues", "C15_empty_reply_continues", "an empty reply from the actor makes a blocking consumer wait, not return"),
])
PX("C11", "C11_actors", "Deletion keeps topics and subscriptions consistent with each other", HDR_ACTORS, "ConcActorsP.v", [
 ("C11c_quiescent_exact", "C11_quiescent_exact", "actor model of the repaired code (draining delete, attach guard), any number of topics, subscriptions and clients, every interleaving incl. dropped callers: at every quiescent reachable state the attachment list of a live topic is exactly the set of subscriptions that exist, are not deleted and were created on it"),
 ("C11c_attached_only_live", "C11_attached_only_live", "one half: whatever a live topic lists exists and is not deleted"),
 ("C11c_live_are_attached", "C16_attached", "the other half: every existing, undeleted subscription of a live topic is listed"),
 ("C11c_refuted_without_guard", "C11_refuted_without_guard", "the code before fix 2446012: a reachable quiescent state in which a live topic lists a subscription that no longer exists, and a later Publish fails (found on the implementation by harness racestress)"),
])
PX("C01", "C01_actors", "Fan-out without loss", HDR_ACTORS, "ConcActorsX.v", [
 ("C01c_created_is_attached", "created_is_attached", "actor model, every reachable state under every interleaving (arrivals, drops, bursts): once the attach task of a subscription has ended - which is when CreateSubscription returns - the subscription is attached to its topic unless it is marked deleted or the topic is dead; so every Publish the topic handles afterwards posts to it"),
])
PX("C10", "C10_actors", "Topic and subscription namespaces behave as atomic maps", HDR_ACTORS, "ConcActorsX.v", [
 ("C10c_create_observed", "created_is_attached", "concurrent histories: once a CreateSubscription has returned, the topic side observes it at every later moment (until a deletion)"),
])
PX("C08", "C08_actors", "Publish order is delivery order; message IDs are issued in order", HDR_ACTORS, "ConcActorsP.v", [
 ("C08c_posts_in_publish_order", "C08_posts_in_publish_order", "actor model with ghost publish sequence numbers (assigned when the topic dequeues the Publish, as the ids are), any number of concurrent publishers, subscriptions and mailbox capacities, drops and deletions anywhere: for every subscription the sequence numbers of the posts it has handled followed by those queued in its mailbox strictly increase and stay below the topic's counter; the Publish in progress has reached exactly the subscriptions that left its pending list"),
 ("C08c_no_duplicate", "C08_no_duplicate", "no Publish is posted twice to a subscription"),
 ("C08c_log_in_publish_order", "C08_log_in_publish_order", "the batches a subscription appends to its backlog come in the order in which the topic accepted the publishes"),
 ("C08c_topic_waits", "C08_topic_waits", "while a Publish is in progress the topic dequeues nothing and cannot finish before every post task is done"),
 ("C08c_publish_posts_to_all_attached", "C08_publish_posts_to_all_attached", "dequeuing a Publish creates one post task per attached subscription"),
 ("C08c_refuted_without_await", "C08_refuted_without_await", "a topic that answered the publisher without waiting for its post tasks can deliver publish 1 before publish 0 (the seeded change C08-r2, found on the implementation by orderstress)"),
])
