#!/bin/bash
# Every stored seeded change must still be reported by the quick check of its property (scratch worktree, /repo untouched).
cd "$(dirname "$0")/.."
pass=0; fail=0
for d in seeded/*/; do
  n=$(basename $d); p=$(python3 -c "import json;print(json.load(open('$d/meta.json'))['breaks_property'])")
  out=$(tools/try_mutant.sh $d/patch.diff $p 2>&1 | tail -2)
  if echo "$out" | grep -q '^VIOLATION'; then pass=$((pass+1)); echo "caught  $n  $(echo "$out" | grep VIOLATION | sed 's/.*json//' | head -1) :: $(echo "$out" | tail -1 | cut -c1-110)"; else fail=$((fail+1)); echo "MISSED  $n  $out"; fi
done
echo "seeded regression: $pass caught, $fail missed"
