#!/bin/bash
# Every stored seeded change must still be reported by the quick check of its property (scratch worktree, /repo untouched).
cd "$(dirname "$0")/.."
pass=0; fail=0
for d in seeded/*/; do
  n=$(basename $d); p=$(python3 -c "import json;print(json.load(open('$d/meta.json'))['breaks_property'])")
  out=$(VERIF_ALL_LINES=1 tools/try_mutant.sh $d/patch.diff $p 2>&1)
  if echo "$out" | grep -q '^VIOLATION'; then
    pass=$((pass+1))
    if echo "$out" | grep '^VIOLATION' | grep -qv 'no-failing-input-found'; then kind="witness"; else kind="NO-WITNESS"; fi
    echo "caught  $kind  $n :: $(echo "$out" | grep -A1 '^VIOLATION' | grep -v '^VIOLATION' | grep -v '^--' | head -1 | cut -c1-120)"
  else fail=$((fail+1)); echo "MISSED  $n  $(echo "$out" | tail -2)"; fi
done
echo "seeded regression: $pass caught, $fail missed"
tools/try_mutant.sh --clean
