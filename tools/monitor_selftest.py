#!/usr/bin/env python3
"""False-alarm sweep: every monitor is run on the implementation's own answers for cases of every generator whose ops it
understands, on the unchanged tree.  Every line printed is a monitor that speaks although nothing is wrong (or a
genuine finding); silence is the expected outcome.  usage: tools/monitor_selftest.py [seed] [n]"""
import os, sys
sys.path.insert(0, os.path.join(os.path.dirname(os.path.abspath(__file__)), "..", "lib"))
from common import *
import gen, monitors as M, props as P

seed = int(sys.argv[1]) if len(sys.argv) > 1 else 77
n = int(sys.argv[2]) if len(sys.argv) > 2 else 1500
build_harness()
streams = {
    "data-stream": gen.random_cases(seed, n, gen.merge(gen.W_DATA, {"CS": 1, "DS": 1, "DT": 1, "CT": 1}, gen.W_STREAM), "r",
                                    allow_streams=True),
    "data-drain": [(c, gen.with_drain(o)) for c, o in gen.random_cases(seed + 1, n // 2, gen.merge(
        gen.W_DATA, {"CS": 1, "DS": 1, "DT": 1, "CT": 1}, gen.W_STREAM), "d", allow_streams=True)],
    "control": gen.random_cases(seed + 2, n, gen.merge(gen.W_CONTROL, {"PUB": 3, "PULL": 3, "ACK": 1, "ADV": 1, "STATS": 2}), "c",
                                n_ops=(10, 45)),
    "wait": gen.random_cases(seed + 3, n // 2, gen.merge(gen.W_DATA, {"CS": 1, "DS": 2, "DT": 1}, gen.W_WAIT), "w",
                             allow_streams=True, multi=True),
    "wait-enum": gen.wait_enum_cases()[::3],
    "delete-release": gen.delete_release_cases(range(40)),
    "burst": gen.burst_cases(range(60)),
    "burst-shapes": gen.burst_shape_cases(range(60)),
    "concurrent-publish": gen.concurrent_publish_cases(range(60)),
    "payload": gen.payload_cases(seed, 60),
    "malformed": gen.malformed_cases(seed, 150),
    "id-lists": gen.id_list_cases(),
    "cancel-woken": gen.cancel_woken_cases(range(0, 40)),
    "woken-dropped": gen.woken_dropped_cases(),
    "racing-namespace": gen.racing_namespace_cases(range(60)),
    "probes": gen.deadline_probe_cases(list(range(0, 100, 9)), ackdls=(0, 5, 11), gaps=(40, 70)),
    "capacity": gen.capacity_cases([0, 1, 999, 1001], [1, 1000, 1001, 65536, 2147483647], drain=True),
    "subset-lists": [(c, gen.with_drain(o)) for c, o in gen.subset_list_cases()],
    "mixed-modify-wake": [(c, gen.with_drain(o)) for c, o in gen.mixed_modify_wake_cases()],
    "boundary-counts": gen.boundary_count_cases(),
    "expiry-load": gen.expiry_load_cases((255, 256, 512, 1000), reps=(1, 4)),
    "create-delete-race": gen.create_delete_race_cases(range(0, 8)),
    "control-enum": gen.control_enum_cases(2),
    "stream-enum": gen.stream_enum_cases(2),
    "paging-walks": gen.paging_walk_cases([0, 1, 20, 21, 41], [-1, 0, 1, 7, 20, 1001], seed=seed),
    "probes-pub": [(c, gen.with_drain(o)) for c, o in gen.deadline_probe_cases(list(range(0, 100, 13)), ackdls=(0, 11), gaps=(40,), pub_probe=True)],
}
mons = {
    "data-stream": [M.mon_exclusive, M.mon_ack_final, M.mon_deadline, M.mon_payload, M.mon_order, M.mon_batch, M.mon_fanout,
                    M.mon_namespace, M.mon_rejected_pure],
    "data-drain": [M.mon_fanout, M.mon_payload, M.mon_exclusive, M.mon_ack_final],
    "control": [M.mon_namespace, M.mon_walk, M.mon_payload, M.mon_fanout, M.mon_names_seq],
    "wait": [M.mon_wait, M.mon_release, M.mon_order, M.mon_exclusive],
    "wait-enum": [M.mon_wait],
    "delete-release": [M.mon_release, M.mon_no_hang],
    "burst": [M.mon_no_hang],
    "burst-shapes": [M.mon_no_hang, M.mon_release],
    "concurrent-publish": [M.mon_order_conc],
    "payload": [M.mon_payload, M.mon_fanout],
    "malformed": [M.mon_malformed],
    "id-lists": [M.mon_ack_final, M.mon_exclusive, M.mon_deadline],
    "cancel-woken": [M.mon_wait],
    "woken-dropped": [M.mon_wait],
    "racing-namespace": [M.mon_racing_namespace],
    "probes": [M.mon_exclusive, M.mon_deadline],
    "capacity": [M.mon_batch, M.mon_fanout],
    "subset-lists": [M.mon_ack_final, M.mon_deadline, M.mon_fanout, M.mon_exclusive],
    "mixed-modify-wake": [M.mon_wait, M.mon_fanout],
    "boundary-counts": [M.mon_count_hang, M.mon_wait],
    "expiry-load": [M.mon_fanout],
    "create-delete-race": [M.mon_create_delete_race],
    "control-enum": [M.mon_namespace, M.mon_fanout, M.mon_payload],
    "stream-enum": [M.mon_ack_final, M.mon_deadline, M.mon_fanout],
    "paging-walks": [M.mon_walk, M.mon_namespace],
    "probes-pub": [M.mon_deadline, M.mon_fanout, M.mon_exclusive],
}
total = 0
for name, cases in streams.items():
    d = workdir("selftest-" + name)
    write_cases(os.path.join(d, "c.txt"), cases)
    run_impl_seq(os.path.join(d, "c.txt"), os.path.join(d, "i.out"))
    a = parse_results(os.path.join(d, "i.out"))
    for m in mons[name]:
        hits = []
        for c, o in cases:
            try:
                w = m(o, a.get(c, []))
            except Exception as e:
                w = "EXCEPTION " + repr(e)
            if w:
                hits.append((c, w))
        total += len(hits)
        if hits:
            print("%-20s %-22s %d of %d: %s" % (name, m.__name__, len(hits), len(cases), hits[0][1][:160]))
print("monitor selftest: %d unexpected verdicts" % total)
sys.exit(1 if total else 0)
