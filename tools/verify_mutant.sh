#!/bin/bash
# usage: tools/verify_mutant.sh <worktree> <demo test name> ; confirms in the scratch worktree that
#  (1) with the change the existing suite passes and the demo fails, (2) without it the demo passes.
set -u
W=$1; DEMO=$2
cd "$W" || exit 2
export CARGO_TARGET_DIR=$W/target CARGO_NET_OFFLINE=true
git diff --quiet -- src && { echo "no src change present"; exit 2; }
echo "== with the change: existing suite (demo excluded)"
EXISTING=$(ls tests/*.rs | xargs -n1 basename | sed 's/\.rs$//' | grep -v "^$DEMO$" | sed 's/^/--test /' | tr '\n' ' ')
cargo test --offline --lib $EXISTING 2>&1 | grep -E "^test result|FAILED|panicked" | head -20
echo "== with the change: demo"
cargo test --offline --test "$DEMO" 2>&1 | grep -E "^test result|panicked|assert" | head -8
git diff -- src > /tmp/verify-$$.diff
git apply -R /tmp/verify-$$.diff
echo "== without the change: demo"
cargo test --offline --test "$DEMO" 2>&1 | grep -E "^test result|panicked" | head -5
git apply /tmp/verify-$$.diff; rm -f /tmp/verify-$$.diff
