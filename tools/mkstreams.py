#!/usr/bin/env python3
"""Writes docs/STREAMS.md: every correspondence / search stream, what it runs, and which properties use it (the
mapping is read from the evidence files of the last quick run, so it is what actually ran)."""
import json, glob, os
ROOT = os.path.dirname(os.path.dirname(os.path.abspath(__file__)))
DESC = {
 "stale-topic-delete": "library level (XDT): two holders of a topic's handle; the first deletes, the name is created again, the second deletes; then Get / List / Create / Publish / Delete: per name, successful creates minus successful deletes says whether the topic exists (mon_topic_balance; the overlapping second delete may fail)",
 "expiry-with-backlog": 'a lease runs out while the subscription holds unpulled messages (published later / left over by a small Pull / nacked / 40 queued) and nobody pulls: 250 ms after the deadline STATS no longer counts it as outstanding (mon_stats_lease)',
 "wait-push-sub": 'the wait-enum cases (up to three waiting consumers x availability events) on a subscription that has a push endpoint (no push loop runs): woken like on any other subscription (mon_wait)',
 "push-late-answer": 'the real push loop at 200..300 ms and an endpoint that accepts 700 ms after the request arrived (outcome late200), 10 s ack deadline: one POST per message, nothing outstanding or queued afterwards (mon_push_late_answer)',
 "big-pull": 'unary Pulls for 1000..65535 messages on a backlog of 1002..2100 (three Publish requests), three more messages, Pulls across the ack deadline: what a Pull leases it returns (ack ids without a gap, STATS after the Pull), first deliveries in publish order (mon_pull_complete)',
 "late-ack": 'library level (LACK): one acknowledge call per outstanding delivery, each awaited until it has returned, one second before the deadline; then, with nothing run in between, the clock moves past the deadline: nothing acknowledged is delivered again (mon_late_ack)',
 "mailstress": 'multi-thread stress: four lanes, per round a fresh subscription, six tasks holding its handle call it in a closed loop while it is deleted; a watchdog reports a caller without an answer 15 s after the deletion returned (C07-pending)',
 "backed-up-stream": 'a StreamingPull handler held at the hand-over of a batch (XS/XQ, client stopped reading) next to a blocked Pull / a read stream / two Pulls: a later Publish must reach the consumer that waits (mon_backed_up)',
 "push-delete": 'the real push loop in the middle of a page of 30..60 messages towards an endpoint that does not answer (hang / slow / reset), DeleteSubscription over gRPC after 1..10 POSTs (LOOPDEL): at most the POST on the wire arrives afterwards (mon_push_delete)',
 "ordering-keys": 'Publish requests whose messages carry ordering keys in non-sorted order (PUBK): the i-th returned id belongs to the i-th message of the request and first delivery follows request order (mon_request_order)',
 "delete-both": 'DeleteTopic and DeleteSubscription of one of its subscriptions in flight together, a stream and a blocked Pull on the subscription: after both answered the subscription is gone, not listed, its consumers released (mon_delete_both)',
 "publish-vs-delete-topic": 'a Publish racing the DeleteTopic of its topic (both orders, 0..9 scheduler yields between them) and a later Publish through the stale handle: no message id is ever issued twice (mon_ids_unique)',
 "abandon": "XC: a library-level call polled k times and dropped with the target mailbox empty/saturated (kinds CS, CSP, DS, DSW, DST, PUB, PUBS, PULL, ACK, ACKN, DT); the follow-up must match the model with the call completed OR never received; mon_abandon reads half-created, partial fan-out, wedged, deleted-but-listed, consumers not released",
 "big-ack": "one Acknowledge naming 1001..3000 deliveries of several Pull batches, then a drain",
 "big-chain": "two blocked Pulls and one Publish of 65535..131077 messages (model-free, mon_wait)",
 "burst": "random bursts of background calls around DeleteSubscription/DeleteTopic, all must complete (mon_no_hang)",
 "burst-shapes": "structured bursts: Publish, Delete, g calls, optional second Delete, 16-48 further calls",
 "cancel-woken": "two blocked Pulls, a Publish, the older Pull cancelled k scheduler rounds later (k swept)",
 "capacity": "backlogs around every internal limit against max_messages 1..i32::MAX (incl. multiples of 65536)",
 "capacity-drain": "as capacity, each followed by a full drain (mon_fanout)",
 "codec-pure": "MessageId/ack id/page token codecs on boundary and random values (puresweep)",
 "concsub-polls": "the server's unary Pull and StreamingPull handlers held and polled one poll at a time by the harness, dropped at chosen points; compared with Model/CsDriver.v (ConcSub)",
 "concurrent-publish": "2-6 Publish calls in flight (BG) incl. batches >1000, ids and first-delivery order (mon_order_conc)",
 "control-drain": "random control+data scripts with deletions/re-creations, drain epilogue",
 "control-enum": "ALL control-plane lifecycle sequences to depth 3 (thorough 4), bare and after a create, each with listing and a publish/pull probe",
 "control-random": "random control-plane scripts over a small name pool, two projects",
 "create-delete-race": "CreateSubscription and DeleteSubscription of one name in flight together at gRPC level (deterministic orders), incl. re-creation during the deletion, and a second delete while the first waits for the topic (XD2)",
 "data-enum": "ALL data-plane sequences over an 11-symbol alphabet to depth 3 (thorough 4) with STATS after every step",
 "data-random": "random data-plane scripts (publish, pull, ack, nack, modify, advance)",
 "data-stream-drain": "random unary+streaming scripts with a drain epilogue",
 "data-stream-random": "random unary+streaming scripts",
 "deadline-probes": "two coexisting leases per hand-out phase and ack deadline, probes 1 ms before/at/1 ms after each deadline, stale acks at the end, drain; the same with a Publish and a Get reaching the subscription just before each probe",
 "deadline-pure": "AckDeadline::new and the ModifyAckDeadline seconds parser on every ms phase, k*65536+d, random (puresweep)",
 "delete-release": "blocked Pulls and open streams on a subscription that is deleted (directly / via its topic)",
 "expiry-load": "255..5000 leases running out at one instant while requests reach the actor in that scheduler round (SEQ ADV ;; STATS), drain",
 "fcsched": "FlowControl on OS threads held at gates: all 0/1 schedules of length 9/12, random with run-out suffix, three-party; safety (!UNSAFE) and liveness readings",
 "id-lists": "ack/modify lists with live, stale, unknown, repeated ids in every order, drain",
 "lease-probes": "two leases 40/70 ms apart at every grid phase, a third consumer probing around each deadline",
 "malformed": "every request kind with malformed names, ids, tokens, numbers; state before/after compared; follow-up calls after an (unexpected) acceptance",
 "modify-batches": "one control message modifying 2-3 leases with seconds in {0,5,12,30} in every order",
 "modify-probes": "ModifyAckDeadline N in {0,1,5,30,599,600,700,-1} with probes around new/old/neighbour deadlines",
 "names-echo": "names over {p,s,/,-,e'} around the fixed segments through the gRPC create calls",
 "names-pure": "the same name grammar through try_parse/Display (puresweep)",
 "orderstress": "multi-thread runtime, concurrent publishers, two subscriptions, drain per round (search only)",
 "paging-big": "1001 topics and subscriptions, page sizes 1001 and i32::MAX",
 "paging-pure": "Paging/PageToken arithmetic on boundary values (puresweep)",
 "paging-walks": "full token walks of ListTopics/ListSubscriptions/ListTopicSubscriptions over two projects, deletions, 26 subscriptions on one topic, sizes 0..>cap, huge and malformed tokens",
 "payload": "payload and attribute shapes (empty, binary, base64 digits 62/63, large)",
 "pull-limit": "blocked Pull with empty wake-ups every 100/240/299 s around the 300 s limit",
 "push": "push mode: real clock, scripted local HTTP endpoint, rounds of the push loop; orphan, duplicate-create, non-accepting 2xx variants",
 "push-hang": "push endpoint that never answers for one of two messages",
 "pushstress": "multi-thread runtime: push loop ticking while push subscriptions are created/deleted from other threads (search only)",
 "racestress": "multi-thread runtime: CreateSubscription racing a spinning DeleteSubscription of the same name (search only)",
 "racing-namespace": "SEQ clients (call ;; get) started concurrently on one name",
 "requeue-order": "2-3 Publish requests of 30-100 messages, a few pulled and nacked/expired, then everything pulled",
 "stream-capacity": "StreamingPull max_outstanding_messages/bytes against backlogs around the limits",
 "stream-capacity-drain": "as stream-capacity with a drain",
 "stream-enum": "ALL streaming data-plane sequences to depth 3 (thorough 4)",
 "wait-enum": "all combinations of <=3 waiting consumers (unary/stream, limits incl. 0) x 5 event sequences",
 "wait-random": "random scripts with blocked Pulls (BG/JOIN) and open streams",
 "subset-lists": "four live deliveries (one batch, or two batches 40 ms apart); ONE ack / nack / extension / streaming ack naming every ordered subset of 1..3 of them; both deadlines, drain",
 "mixed-modify-wake": "consumers wait on an empty backlog while a stream holds three deliveries; one control message nacks some and extends others (every split)",
 "boundary-counts": "a blocking Pull / a stream whose message count is 0, negative, a multiple of 65536 or an i32 limit on a subscription that HAS messages: answered at once",
 "topicstress": "OS threads released from a spinning start line create topics at the same instant; one Publish per topic: ids pairwise distinct, each subscription gets its own (search only)",
 "deletestress": "closed-loop publishers on one topic and a DeleteSubscription in their midst (deterministic scheduling): Publish calls completed before the deletion returns are bounded (search only)",
 "datastress": "multi-thread runtime, shorter than an ack deadline: publishers and consumers (ack / nack / extend, random batch sizes) on two subscriptions with a global logical clock: nothing lost, ack ids unique, re-delivery only after a nack, none after an ack, payloads intact (search only)",
 "grpcstress": "multi-thread runtime, real gRPC handlers: streams and blocked Pulls on a subscription that two DeleteSubscription calls delete at once, Get/Ack racing: all answered, streams end NOT_FOUND, exactly one delete OK (search only)",
 "nsstress": "multi-thread runtime: concurrent create / delete / get / list of topics and subscriptions over small name pools; no call left unanswered; per name creates - deletes in {0,1} = presence; listings = what exists; final Publish reaches every survivor with fresh ids (search only)",
 "stream-flood": "99..130 StreamingPull streams open at once on ONE connection, then the Publish / Delete they are waiting for: everything is answered (a transport-level stream limit would make the 101st call wait for ever)",
 "busy-lists": "ListSubscriptions / ListTopicSubscriptions / ListTopics while a Pull and a Get are on their way to listed subscriptions (swept over how far they have got): creation order, no duplicates",
 "many-topics": "24 topics x 12 single-message Publish calls: topic ids and per-topic counters both pass 10 and 20; ids distinct, deliveries carry their own id",
 "create-vs-delete-topic": "CreateSubscription racing the DeleteTopic of its topic (each client reads its result back at once): the name exists exactly if the create answered OK; only OK / ALREADY_EXISTS / NOT_FOUND",
 "abandoned-delete-during-create": "a create polled once (attachment on its way) and, with nothing run in between, a delete of it abandoned while waiting for room in the saturated mailbox: the subscription exists, so it is attached and receives",
 "registry-enum": "ALL sequences (depth 4, thorough 5) over create-as-push (two endpoints) / create-as-pull / delete of one subscription name and create / delete of its topic; push registry, subscription and listings read after each step",
 "orphan-wait": "blocking Pulls on a subscription whose topic is gone and that still holds a lease: they wait for the nack / the expiry / their limit",
 "control-shape": "every shape of a follow-up StreamingPull message: 0..2 ack ids x 0..2 modify ids x 0..2 seconds; unequal counts = INVALID_ARGUMENT, nothing applied",
 "push-slow": "an endpoint that takes 11 s (real time) to accept on a subscription with a 60 s ack deadline: one POST, never again",
 "woken-dropped": "XH/XP: the unary handler woken, then polled k times with the mailbox pre-filled and dropped",
}
uses = {}
cases = {}
for f in sorted(glob.glob(os.path.join(ROOT, "evidence", "C*.json"))):
    d = json.load(open(f))
    for k, v in d["coverage"]["streams"].items():
        uses.setdefault(k, []).append(d["property_id"])
        cases[k] = max(cases.get(k, 0), v.get("cases", 0))
out = ["# Streams (generated by tools/mkstreams.py from the evidence of the last quick run)", "",
       "| stream | what runs | cases (quick) | properties |", "|---|---|---|---|"]
for k in sorted(set(uses) | set(DESC)):
    out.append("| %s | %s | %s | %s |" % (k, DESC.get(k, "(undescribed)"), cases.get(k, "-"), " ".join(uses.get(k, []))))
open(os.path.join(ROOT, "docs", "STREAMS.md"), "w").write("\n".join(out) + "\n")
missing = sorted(set(uses) - set(DESC))
print("docs/STREAMS.md written;", "undescribed: %s" % missing if missing else "all streams described")
