#!/bin/bash
# usage: tools/try_mutant.sh <patch.diff> <property> [<property> ...]
# Runs the quick checks against a scratch worktree of /repo (HEAD) with the patch applied; /repo itself is not touched.
# The worktree /tmp/mutrepo and the build output under .cache/*-alt are kept between invocations (the next build is
# incremental); `tools/try_mutant.sh --clean` removes both.
set -u
if [ "${1:-}" = "--clean" ]; then
  git -C /repo worktree remove --force /tmp/mutrepo 2>/dev/null; git -C /repo worktree prune
  cd "$(dirname "$0")/.." && rm -rf .cache/target-alt .cache/work-alt .cache/harness-alt .cache/evidence-alt
  exit 0
fi
PATCH=$(readlink -f "$1"); shift
W=/tmp/mutrepo
if [ ! -d $W ]; then git -C /repo worktree add --detach $W HEAD >/dev/null 2>&1 || exit 2; fi
git -C $W checkout -q --detach $(git -C /repo rev-parse HEAD) && git -C $W checkout -q -- . && git -C $W clean -fdq -e target
git -C $W apply "$PATCH" || { echo "patch does not apply"; exit 2; }
cd "$(dirname "$0")/.."
for p in "$@"; do echo "== $(basename $(dirname $PATCH)) / $p"; if [ -n "${VERIF_ALL_LINES:-}" ]; then VERIF_ALT_REPO=$W bin/check $p 2>&1 | grep -v conda; else VERIF_ALT_REPO=$W bin/check $p 2>&1 | tail -2; fi; done
git -C $W checkout -q -- .
