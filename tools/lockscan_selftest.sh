#!/bin/bash
# The scanner must accept the unchanged tree and flag each synthetic change in lockscan/selftest/*.diff
# (and the stored lock-cycle change C07-r4).  Scratch worktree under /tmp, removed at the end; /repo untouched.
set -u
cd "$(dirname "$0")/.."
V=$PWD
W=$(mktemp -d /tmp/lockscan-selftest.XXXXXX)
T=$V/.cache/target-lockscan
(cd lockscan && CARGO_TARGET_DIR=$T CARGO_NET_OFFLINE=true cargo build --release --offline >/dev/null 2>&1) || { echo "lockscan does not build"; exit 2; }
(cd coq && [ -f Makefile ] || coq_makefile -f _CoqProject -o Makefile >/dev/null; make -j16 >/dev/null 2>&1) || { echo "coq build failed"; exit 2; }
git -C /repo worktree add --detach $W/repo HEAD -q || exit 2
gate() {   # -> 0 if every theorem of Gen/LockCheck.v checks against the sources in $W/repo
  mkdir -p $W/gen && rm -f $W/gen/*
  $T/release/lockscan $W/repo $W/gen/LockEdges.v $W/gen/le.json || return 2
  sed 's/From Deltio Require Import Gen.LockEdges\./From DeltioRun Require Import LockEdges./' coq/Gen/LockCheck.v > $W/gen/LockCheck.v
  coqc -q -Q coq Deltio -Q $W/gen DeltioRun $W/gen/LockEdges.v >/dev/null 2>&1 || return 2
  coqc -q -Q coq Deltio -Q $W/gen DeltioRun $W/gen/LockCheck.v >$W/gen/out 2>&1
}
pushgate() {   # -> 0 if every theorem of Gen/PushCheck.v checks against the sources in $W/repo
  mkdir -p $W/gen && rm -f $W/gen/*
  $T/release/lockscan $W/repo $W/gen/LockEdges.v $W/gen/le.json || return 2
  sed 's/From Deltio Require Import Gen.LockEdges\./From DeltioRun Require Import LockEdges./' coq/Gen/PushCheck.v > $W/gen/PushCheck.v
  coqc -q -Q coq Deltio -Q $W/gen DeltioRun $W/gen/LockEdges.v >/dev/null 2>&1 || return 2
  coqc -q -Q coq Deltio -Q $W/gen DeltioRun $W/gen/PushCheck.v >$W/gen/out 2>&1
}
bad=0
if pushgate; then echo "ok    unchanged tree: Gen/PushCheck.v checks"; else echo "FAIL  unchanged tree is flagged by Gen/PushCheck.v"; tail -5 $W/gen/out; bad=1; fi
for d in seeded/C14-r7-deletion-guard-only-around-the-pull/patch.diff; do
  git -C $W/repo checkout -q -- . && git -C $W/repo apply $V/$d || { echo "FAIL  $d does not apply"; bad=1; continue; }
  if pushgate; then echo "FAIL  $d is not flagged by Gen/PushCheck.v"; bad=1
  else echo "ok    $d flagged by Gen/PushCheck.v: $(grep -o 'line [0-9]*' $W/gen/out | head -1)"; fi
done
ackgate() {   # -> 0 if every theorem of Gen/AckCheck.v checks against the sources in $W/repo
  mkdir -p $W/gen && rm -f $W/gen/*
  $T/release/lockscan $W/repo $W/gen/LockEdges.v $W/gen/le.json || return 2
  sed 's/From Deltio Require Import Gen.LockEdges\./From DeltioRun Require Import LockEdges./' coq/Gen/AckCheck.v > $W/gen/AckCheck.v
  coqc -q -Q coq Deltio -Q $W/gen DeltioRun $W/gen/LockEdges.v >/dev/null 2>&1 || return 2
  coqc -q -Q coq Deltio -Q $W/gen DeltioRun $W/gen/AckCheck.v >$W/gen/out 2>&1
}
expirygate() {   # -> 0 if every theorem of Gen/ExpiryCheck.v checks against the sources in $W/repo
  mkdir -p $W/gen && rm -f $W/gen/*
  $T/release/lockscan $W/repo $W/gen/LockEdges.v $W/gen/le.json || return 2
  sed 's/From Deltio Require Import Gen.LockEdges\./From DeltioRun Require Import LockEdges./' coq/Gen/ExpiryCheck.v > $W/gen/ExpiryCheck.v
  coqc -q -Q coq Deltio -Q $W/gen DeltioRun $W/gen/LockEdges.v >/dev/null 2>&1 || return 2
  coqc -q -Q coq Deltio -Q $W/gen DeltioRun $W/gen/ExpiryCheck.v >$W/gen/out 2>&1
}
git -C $W/repo checkout -q -- .
if expirygate; then echo "ok    unchanged tree: Gen/ExpiryCheck.v checks"; else echo "FAIL  unchanged tree is flagged by Gen/ExpiryCheck.v"; tail -5 $W/gen/out; bad=1; fi
for d in seeded/C04-r8-expiry-disabled-while-backlog/patch.diff seeded/C04-r6-requeue-batching-holds-expired-across-await/patch.diff; do
  git -C $W/repo checkout -q -- . && git -C $W/repo apply $V/$d || { echo "FAIL  $d does not apply"; bad=1; continue; }
  if expirygate; then echo "FAIL  $d is not flagged by Gen/ExpiryCheck.v"; bad=1
  else echo "ok    $d flagged by Gen/ExpiryCheck.v: $(grep -o 'line [0-9]*' $W/gen/out | head -1)"; fi
done
consumergate() {   # -> 0 if every theorem of Gen/ConsumerCheck.v checks against the sources in $W/repo
  mkdir -p $W/gen && rm -f $W/gen/*
  $T/release/lockscan $W/repo $W/gen/LockEdges.v $W/gen/le.json || return 2
  sed 's/From Deltio Require Import Gen.LockEdges\./From DeltioRun Require Import LockEdges./' coq/Gen/ConsumerCheck.v > $W/gen/ConsumerCheck.v
  coqc -q -Q coq Deltio -Q $W/gen DeltioRun $W/gen/LockEdges.v >/dev/null 2>&1 || return 2
  coqc -q -Q coq Deltio -Q $W/gen DeltioRun $W/gen/ConsumerCheck.v >$W/gen/out 2>&1
}
git -C $W/repo checkout -q -- .
if consumergate; then echo "ok    unchanged tree: Gen/ConsumerCheck.v checks"; else echo "FAIL  unchanged tree is flagged by Gen/ConsumerCheck.v"; tail -5 $W/gen/out; bad=1; fi
for d in seeded/C15-r7-reserve-before-wake-next-guard/patch.diff seeded/C12-r8-pull-without-deleted-branch/patch.diff seeded/C06-r8-pull-waits-for-one-signal-only/patch.diff seeded/C07-r8-pull-limit-checked-only-on-wake-up/patch.diff; do
  git -C $W/repo checkout -q -- . && git -C $W/repo apply $V/$d || { echo "FAIL  $d does not apply"; bad=1; continue; }
  if consumergate; then echo "FAIL  $d is not flagged by Gen/ConsumerCheck.v"; bad=1
  else echo "ok    $d flagged by Gen/ConsumerCheck.v: $(grep -o 'line [0-9]*' $W/gen/out | head -1)"; fi
done
git -C $W/repo checkout -q -- .
if ackgate; then echo "ok    unchanged tree: Gen/AckCheck.v checks"; else echo "FAIL  unchanged tree is flagged by Gen/AckCheck.v"; tail -5 $W/gen/out; bad=1; fi
for d in seeded/C02-r8-acknowledge-returns-when-queued/patch.diff; do
  git -C $W/repo checkout -q -- . && git -C $W/repo apply $V/$d || { echo "FAIL  $d does not apply"; bad=1; continue; }
  if ackgate; then echo "FAIL  $d is not flagged by Gen/AckCheck.v"; bad=1
  else echo "ok    $d flagged by Gen/AckCheck.v: $(grep -o 'line [0-9]*' $W/gen/out | head -1)"; fi
done
git -C $W/repo checkout -q -- .
if gate; then echo "ok    unchanged tree: all theorems check"; else echo "FAIL  unchanged tree is flagged"; cat $W/gen/out | tail -5; bad=1; fi
for d in lockscan/selftest/*.diff seeded/C07-r4-push-loop-holds-registry-lock/patch.diff; do
  git -C $W/repo checkout -q -- . && git -C $W/repo apply $V/$d || { echo "FAIL  $d does not apply"; bad=1; continue; }
  if gate; then echo "FAIL  $d is not flagged"; bad=1
  else echo "ok    $d flagged: $(grep -o 'line [0-9]*' $W/gen/out | head -1) $(python3 -c "
import json;j=json.load(open('$W/gen/le.json'));print([(e['held'],e['acquired']) for e in j['edges']])")"; fi
done
git -C /repo worktree remove --force $W/repo; git -C /repo worktree prune; rm -rf $W
[ $bad = 0 ] && echo "lockscan selftest: all as expected" || { echo "lockscan selftest: UNEXPECTED results"; exit 1; }
