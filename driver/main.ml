(* Glue only: file bytes -> Coq `list N` -> extracted model -> bytes.
   usage: modeldrv (seq|pure|fc|cs) <in> <out> *)

let rec pos_of_int (i : int)   : Model.positive =
  if i = 1 then Model.XH
  else if i land 1 = 0 then Model.XO (pos_of_int (i lsr 1))
  else Model.XI (pos_of_int (i lsr 1))

let n_of_int (i : int) : Model.n = if i = 0 then Model.N0 else Model.Npos (pos_of_int i)

let rec int_of_pos (p   : Model.positive) : int =
  match p with Model.XH -> 1 | Model.XO q -> 2 * int_of_pos q | Model.XI q -> 2 * int_of_pos q + 1

let int_of_n (x : Model.n) : int = match x with Model.N0 -> 0 | Model.Npos p -> int_of_pos p

let table = Array.init 256 n_of_int

let coq_of_string (s : string) : Model.n list =
  let r = ref [] in
  for i = String.length s - 1 downto 0 do
    r := table.(Char.code s.[i]) :: !r
  done;
  !r

let string_of_coq (l : Model.n list) : string =
  let b = Buffer.create 65536 in
  List.iter (fun x -> Buffer.add_char b (Char.chr (int_of_n x land 255))) l;
  Buffer.contents b

let read_file path =
  let ic = open_in_bin path in
  let n = in_channel_length ic in
  let s = really_input_string ic n in
  close_in ic; s

let () =
  if Array.length Sys.argv <> 4 then (prerr_endline "usage: modeldrv (seq|pure) in out"; exit 2);
  let text = read_file Sys.argv.(2) in
  let oc = open_out_bin Sys.argv.(3) in
  (match Sys.argv.(1) with
   | "pure" ->
     (* line by line: the model functions are not tail recursive *)
     List.iter (fun l ->
         if l <> "" then output_string oc (string_of_coq (Model.pure_file (coq_of_string (l ^ "\n")))))
       (String.split_on_char '\n' text)
   | "seq" ->
     (* case by case, to keep memory flat on big files *)
     let lines = String.split_on_char '\n' text in
     let buf = Buffer.create 4096 in
     let flush_case () =
       if Buffer.length buf > 0 then begin
         output_string oc (string_of_coq (Model.run_file (coq_of_string (Buffer.contents buf))));
         Buffer.clear buf
       end in
     List.iter (fun l ->
         if String.length l >= 5 && String.sub l 0 5 = "CASE " then flush_case ();
         Buffer.add_string buf l; Buffer.add_char buf '\n') lines;
     flush_case ()
   | "cs" ->
     let lines = String.split_on_char '\n' text in
     let buf = Buffer.create 4096 in
     let flush_case () =
       if Buffer.length buf > 0 then begin
         output_string oc (string_of_coq (Model.cs_file (coq_of_string (Buffer.contents buf))));
         Buffer.clear buf
       end in
     List.iter (fun l ->
         if String.length l >= 5 && String.sub l 0 5 = "CASE " then flush_case ();
         Buffer.add_string buf l; Buffer.add_char buf '\n') lines;
     flush_case ()
   | "fc" ->
     let lines = String.split_on_char '\n' text in
     let buf = Buffer.create 4096 in
     let flush_case () =
       if Buffer.length buf > 0 then begin
         output_string oc (string_of_coq (Model.fc_file (coq_of_string (Buffer.contents buf))));
         Buffer.clear buf
       end in
     List.iter (fun l ->
         if String.length l >= 5 && String.sub l 0 5 = "CASE " then flush_case ();
         Buffer.add_string buf l; Buffer.add_char buf '\n') lines;
     flush_case ()
   | _ -> prerr_endline "bad mode"; exit 2);
  close_out oc
